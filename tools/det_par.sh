#!/bin/bash
# usage: det_par.sh <N> <nworkers> <seed ids...>  (property = seed prefix)
w=$1; n=$2; shift 2
i=0
for sid in "$@"; do
  i=$((i+1))
  [ $((i % n)) -eq $w ] || continue
  prop=$(echo $sid | sed -E 's/^(C[0-9]+).*/\1/')
  [ -d /verif/seeded/$sid ] || { echo "$sid not validated" >> ${DETOUT:-/tmp/det-out}/progress.txt; continue; }
  /tmp/det_run.sh $w $sid $prop quick >> ${DETOUT:-/tmp/det-out}/progress.txt 2>&1
done
echo "DETWORKER $w DONE" >> ${DETOUT:-/tmp/det-out}/progress.txt
