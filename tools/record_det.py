#!/usr/bin/env python3
"""Record detection results (from scratch-copy runs /tmp/det-out/out-<seed>-<PROP>-<tier>.txt) into seeded/<seed>/meta.json"""
import glob, json, os, re, sys
for f in sorted(glob.glob('/tmp/det-out/out-*.txt')):
    m = re.match(r'.*/out-(C\d+[a-z]?-\d+)-(C\d+)-(\w+)\.txt', f)
    if not m: continue
    sid, prop, tier = m.groups()
    d = f'/verif/seeded/{sid}'
    if not os.path.isdir(d): continue
    txt = open(f).read()
    sigs = [l.strip()[:160] for l in txt.splitlines() if l.startswith('  C')]
    detected = any(l.startswith('VIOLATION') for l in txt.splitlines())
    mp = os.path.join(d, 'meta.json')
    meta = json.load(open(mp)) if os.path.exists(mp) else {'seed': sid}
    meta.setdefault('detection', {})[f'{prop}/{tier}'] = {'detected': detected, 'signatures': sigs[:6], 'how': 'patch applied to a scratch worktree of /repo HEAD, ./check run from a scratch copy of /verif pointing at it'}
    json.dump(meta, open(mp, 'w'), indent=1)
    print(sid, prop, tier, 'DETECTED' if detected else 'missed')
