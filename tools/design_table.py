#!/usr/bin/env python3
"""Prints the per-property figures table of DESIGN.md section 7.5 from evidence/ (quick) and evidence-thorough/."""
import json, os
rows = []
for i in range(1, 20):
    p = f"C{i:02d}"
    q = json.load(open(f"/verif/evidence/{p}.json"))
    tpath = f"/verif/evidence-thorough/{p}.json"
    t = json.load(open(tpath)) if os.path.exists(tpath) else None
    def fmt(n):
        return f"{n/1e6:.1f} M" if n >= 1e6 else (f"{n/1e3:.0f} k" if n >= 1e3 else str(n))
    qc, tc = q["coverage"], (t["coverage"] if t else None)
    rows.append((p, q["tier"], fmt(qc["evaluations"]), fmt(qc["distinct_nontrivial"]), f"{q['wall_s']:.0f} s",
                 fmt(tc["evaluations"]) if tc else "-", fmt(tc["distinct_nontrivial"]) if tc else "-", f"{t['wall_s']:.0f} s" if t else "-",
                 len(qc.get("known_findings_hit", {}))))
print("| id | quick: evaluations | distinct | wall | thorough: evaluations | distinct | wall | open findings hit |")
print("|----|-------------------|----------|------|-----------------------|----------|------|--------------------|")
for r in rows:
    print(f"| {r[0]} | {r[2]} | {r[3]} | {r[4]} | {r[5]} | {r[6]} | {r[7]} | {r[8]} |")
