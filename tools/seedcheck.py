#!/usr/bin/env python3
"""Validate a seeded defect and run our checks against it.

  tools/seedcheck.py validate <out_dir> <seed_id>      # out_dir contains patch.diff demo.rs README.md
      -> scratch worktree: demo passes on HEAD; with the patch: builds, full suite 491/491, demo fails
  tools/seedcheck.py detect <seed_id> <PROP> [--tier quick]   # applies seeded/<seed_id>/patch.diff to /repo,
      runs ./check PROP, restores /repo (git checkout -- .); records result in seeded/<seed_id>/meta.json
"""
import json, os, shutil, subprocess, sys, time

VERIF = os.path.dirname(os.path.dirname(os.path.abspath(__file__)))
SEEDED = os.path.join(VERIF, "seeded")


def sh(cmd, cwd=None, timeout=3600):
    p = subprocess.run(cmd, shell=True, cwd=cwd, stdout=subprocess.PIPE, stderr=subprocess.STDOUT, text=True, timeout=timeout)
    return p.returncode, p.stdout


def validate(out_dir, sid):
    w = f"/tmp/val-{sid}"
    sh(f"git -C /repo worktree remove --force {w}")
    shutil.rmtree(w, ignore_errors=True)
    rc, o = sh(f"git -C /repo worktree add --detach {w} HEAD")
    if rc != 0:
        print(o); return 2
    res = {"seed": sid, "head": sh("git -C /repo rev-parse --short HEAD")[1].strip()}
    try:
        shutil.copy(os.path.join(out_dir, "demo.rs"), os.path.join(w, "tests", "seed_demo.rs"))
        env = "CARGO_NET_OFFLINE=true"
        rc, o = sh(f"{env} cargo test --offline --test seed_demo 2>&1 | tail -15", cwd=w)
        res["demo_on_head"] = "pass" if "test result: ok" in o else "FAIL"
        res["demo_on_head_tail"] = o[-600:]
        rc, o = sh(f"git apply {os.path.join(out_dir, 'patch.diff')}", cwd=w)
        res["patch_applies"] = rc == 0
        if rc != 0:
            res["patch_err"] = o[-400:]
        else:
            rc, o = sh(f"{env} cargo test --offline --test seed_demo 2>&1 | tail -25", cwd=w)
            res["demo_with_patch"] = "fail" if ("test result: FAILED" in o or "panicked" in o) else ("PASS" if "test result: ok" in o else "error")
            res["demo_with_patch_tail"] = o[-800:]
            os.remove(os.path.join(w, "tests", "seed_demo.rs"))
            rc, o = sh(f"{env} cargo nextest run --workspace --no-fail-fast --offline 2>&1 | tail -6", cwd=w, timeout=7200)
            res["suite_tail"] = o[-500:]
            res["suite_ok"] = "491 tests run: 491 passed" in o
    finally:
        sh(f"git -C /repo worktree remove --force {w}")
        shutil.rmtree(w, ignore_errors=True)
    ok = res.get("demo_on_head") == "pass" and res.get("patch_applies") and res.get("demo_with_patch") == "fail" and res.get("suite_ok")
    res["valid"] = bool(ok)
    print(json.dumps(res, indent=1))
    if ok:
        d = os.path.join(SEEDED, sid)
        os.makedirs(d, exist_ok=True)
        for f in ("patch.diff", "demo.rs", "README.md"):
            if os.path.exists(os.path.join(out_dir, f)):
                shutil.copy(os.path.join(out_dir, f), os.path.join(d, f))
        meta_p = os.path.join(d, "meta.json")
        meta = json.load(open(meta_p)) if os.path.exists(meta_p) else {}
        meta.update({"seed": sid, "validated_at_repo_head": res["head"], "validation": {
            "demo_on_unchanged_tree": "passes", "demo_with_patch": "fails", "existing_suite_with_patch": "491/491 passed",
            "commands": ["cargo test --offline --test seed_demo", "cargo nextest run --workspace --no-fail-fast --offline"]}})
        json.dump(meta, open(meta_p, "w"), indent=1)
    return 0 if ok else 1


def detect(sid, prop, tier="quick"):
    d = os.path.join(SEEDED, sid)
    patch = os.path.join(d, "patch.diff")
    rc, o = sh("git -C /repo status --porcelain")
    if o.strip():
        print("refusing: /repo working tree is not clean:\n" + o); return 2
    rc, o = sh(f"git -C /repo apply {patch}")
    if rc != 0:
        print("patch does not apply:", o); return 2
    t0 = time.time()
    try:
        rc, o = sh(f"./check {prop} --tier {tier}", cwd=VERIF, timeout=7200)
    finally:
        sh("git -C /repo checkout -- .")
    viol = [l for l in o.splitlines() if l.startswith("VIOLATION") or l.startswith("  C")]
    meta_p = os.path.join(d, "meta.json")
    meta = json.load(open(meta_p)) if os.path.exists(meta_p) else {"seed": sid}
    meta.setdefault("detection", {})[f"{prop}/{tier}"] = {
        "exit": rc, "detected": rc == 1, "wall_s": round(time.time() - t0, 1),
        "signatures": [l.strip()[:200] for l in o.splitlines() if l.startswith("  C")][:8],
    }
    json.dump(meta, open(meta_p, "w"), indent=1)
    print(f"{sid} vs {prop}/{tier}: exit={rc} detected={rc == 1}")
    for l in viol[:10]:
        print("   ", l[:220])
    return 0


if __name__ == "__main__":
    if sys.argv[1] == "validate":
        sys.exit(validate(sys.argv[2], sys.argv[3]))
    elif sys.argv[1] == "detect":
        tier = sys.argv[5] if len(sys.argv) > 5 and sys.argv[4] == "--tier" else "quick"
        sys.exit(detect(sys.argv[2], sys.argv[3], tier))
