#!/bin/bash
# usage: run_validations_par.sh <worker> <nworkers> <seed ids...>
w=$1; n=$2; shift 2
cd /verif
i=0
for sid in "$@"; do
  i=$((i+1))
  [ $((i % n)) -eq $w ] || continue
  d=$(ls -d /tmp/seed-*/out/$sid/ | head -1)
  [ -f "$d/patch.diff" ] || continue
  [ -f /tmp/val-logs/$sid.json ] && continue
  nice -n 5 python3 tools/seedcheck.py validate $d $sid > /tmp/val-logs/$sid.json 2>&1
  echo "$sid done: $(grep -o '"valid": [a-z]*' /tmp/val-logs/$sid.json)" >> /tmp/val-logs/progress.txt
done
echo "WORKER $w DONE" >> /tmp/val-logs/progress.txt
