#!/bin/bash
# (re)create detection scratch number $1: copy of /verif and a worktree of /repo HEAD
set -e
D=/tmp/det${1:-}
git -C /repo worktree remove --force $D/repo 2>/dev/null || true
rm -rf $D/repo
mkdir -p $D
rsync -a --delete --exclude target --exclude .git --exclude replay /verif/ $D/verif/
git -C /repo worktree add --detach $D/repo HEAD >/dev/null
sed -i "s#path = \"/repo\"#path = \"$D/repo\"#" $D/verif/mon/Cargo.toml
sed -i "s#/repo/Cargo.lock#$D/repo/Cargo.lock#" $D/verif/check
mkdir -p $D/verif/target/tmp
cp /verif/target/tmp/selfcheck-* $D/verif/target/tmp/ 2>/dev/null || true
mkdir -p $D/verif/target/keys; cp -r /verif/target/keys/. $D/verif/target/keys/ 2>/dev/null || true
echo ready $D
