#!/bin/bash
# usage: run_quick_all.sh <seed>
seed=$1
cd /verif
mkdir -p /tmp/quick-$seed
: > /tmp/quick-$seed/summary.txt
for p in C01 C02 C03 C04 C05 C06 C07 C08 C09 C10 C11 C12 C13 C14 C15 C16 C17 C18 C19; do
  ./check $p --tier quick --seed $seed --no-build > /tmp/quick-$seed/$p.log 2>&1; rc=$?
  echo "$p rc=$rc $(tail -1 /tmp/quick-$seed/$p.log | cut -c1-160)" >> /tmp/quick-$seed/summary.txt
done
echo ALLDONE >> /tmp/quick-$seed/summary.txt
