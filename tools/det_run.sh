#!/bin/bash
# usage: det_run.sh <N> <seed_id> <PROP> [tier]
D=/tmp/det$1
sid=$2; prop=$3; tier=${4:-quick}
mkdir -p ${DETOUT:-/tmp/det-out}
cd $D/repo && git checkout -q -- . && git apply /verif/seeded/$sid/patch.diff || { echo "APPLY-FAILED $sid"; exit 2; }
cd $D/verif && ./check $prop --tier $tier > ${DETOUT:-/tmp/det-out}/out-$sid-$prop-$tier.txt 2>&1; rc=$?
cd $D/repo && git checkout -q -- .
echo "== $sid vs $prop/$tier: exit=$rc"
grep -A1 "^VIOLATION" ${DETOUT:-/tmp/det-out}/out-$sid-$prop-$tier.txt | grep "^  C" | cut -c1-220 | head -5
tail -1 ${DETOUT:-/tmp/det-out}/out-$sid-$prop-$tier.txt | cut -c1-200
