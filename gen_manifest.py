#!/usr/bin/env python3
"""Regenerates MANIFEST.json from props_meta.py (claimed checks) + properties.jsonl (ids)."""
import json, os, subprocess
ROOT = os.path.dirname(os.path.abspath(__file__))
import sys
sys.path.insert(0, ROOT)
from props_meta import META

ids = [json.loads(l)["id"] for l in open(os.path.join(ROOT, "properties.jsonl")) if l.strip()]

def repo_commits(prefix):
    out = subprocess.run(["git", "-C", "/repo", "log", "--format=%H %s"], stdout=subprocess.PIPE, text=True).stdout
    return [l.split()[0] for l in out.splitlines() if l.split(" ", 1)[1].startswith(prefix)]

checks = []
for pid in ids:
    if pid not in META or not META[pid].get("claimed", True):
        continue
    m = META[pid]
    checks.append({
        "property_id": pid,
        "quick_cmd": f"./check {pid} --tier quick",
        "thorough_cmd": f"./check {pid} --tier thorough",
        "evidence_file": f"/verif/evidence/{pid}.json",
        "replay_cmd_template": f"./check {pid} --replay {{path}}",
        "engine": "mon",
        "level_claimed": {
            "category": "exploration",
            "text": m["level_text"],
            "design_ref": f"DESIGN.md section 4 ({pid})",
        },
        "level_note": m.get("level_note", "Trusted base: primitive crypto crates, the reference composition in mon/src/rfc (self-checked against RFC 9580 vectors at start-up), the harness shims. Holds only for the executions enumerated in the evidence."),
        "technique": m["technique"],
    })

na = [{"property_id": pid, "reason": (META.get(pid, {}).get("na_reason") or "monitor not built yet in this revision; see DESIGN.md section 4 for the planned oracle")}
      for pid in ids if pid not in META or not META[pid].get("claimed", True)]

manifest = {
    "version": 1,
    "setup_cmd": "./setup.sh",
    "hooks": {
        "guard": "--cfg rpgp_verif (rustc cfg, passed through RUSTFLAGS)",
        "enable": "RUSTFLAGS=\"--cfg rpgp_verif\" cargo build --release --offline --manifest-path /verif/mon/Cargo.toml (done by ./check; pgp is a path dependency on /repo)",
        "baseline_off_cmd": "cd /repo && cargo nextest run --workspace --no-fail-fast --tool-config-file pb:/w/lib/nextest.toml --profile pb --test-threads 8 --offline",
        "source_commits": repo_commits("verif hooks"),
        "add_only": True,
    },
    "engines": [
        {"name": "mon", "path": "/verif/mon", "serves_properties": [c["property_id"] for c in checks],
         "kind_free_text": "Rust harness linking the real library (release + debug-assertions + overflow-checks, hooks on): workload generators, I/O shims with fault injection, recording key wrappers, counting allocator, independent RFC 9580 reference as oracle; sharded over 16 processes by the python driver ./check"},
    ],
    "checks": checks,
    "not_applicable": na,
    "notes": "Technique family: runtime monitoring. Every check observes executions of the real library built from /repo's working tree. See DESIGN.md. known_findings.json lists open findings (suppressed by exact signature) and fixed ones (suppress nothing).",
}
json.dump(manifest, open(os.path.join(ROOT, "MANIFEST.json"), "w"), indent=1)
print("checks:", [c["property_id"] for c in checks], "n/a:", len(na))
