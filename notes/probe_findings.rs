// Scratch reproduction of the defects listed in DESIGN.md section 5.
// Not part of the framework: build it as the `main.rs` of a throw-away crate with
//   pgp = { path = "<tree under test>" }, rand = "0.8.6", rand_chacha = "0.3"
// (copy /repo/Cargo.lock next to it, build with --offline). Each line prints
// `<finding-id> <BAD|ok> <detail>`; on the unchanged tree every line says BAD.

use std::io::Read;

use pgp::composed::*;
use pgp::crypto::ecc_curve::ECCCurve;
use pgp::crypto::hash::HashAlgorithm;
use pgp::crypto::public_key::PublicKeyAlgorithm;
use pgp::crypto::sym::SymmetricKeyAlgorithm;
use pgp::packet::*;
use pgp::ser::Serialize;
use pgp::types::KeyDetails as _;
use pgp::types::*;
use rand::SeedableRng;
use rand_chacha::ChaCha8Rng;

#[derive(Debug)]
struct Liar<'a>(&'a pgp::packet::SecretKey);
impl pgp::types::KeyDetails for Liar<'_> {
    fn version(&self) -> KeyVersion {
        KeyVersion::V4
    }
    fn legacy_key_id(&self) -> KeyId {
        self.0.legacy_key_id()
    }
    fn fingerprint(&self) -> Fingerprint {
        self.0.fingerprint()
    }
    fn algorithm(&self) -> PublicKeyAlgorithm {
        self.0.algorithm()
    }
    fn created_at(&self) -> Timestamp {
        self.0.created_at()
    }
    fn legacy_v3_expiration_days(&self) -> Option<u16> {
        None
    }
    fn public_params(&self) -> &PublicParams {
        self.0.public_params()
    }
}
impl SigningKey for Liar<'_> {
    fn sign(
        &self,
        pw: &Password,
        h: HashAlgorithm,
        d: &[u8],
    ) -> pgp::errors::Result<SignatureBytes> {
        self.0.sign(pw, h, d)
    }
    fn hash_alg(&self) -> HashAlgorithm {
        self.0.hash_alg()
    }
}

fn verdict(id: &str, bad: bool, detail: String) {
    println!("{id} {} {detail}", if bad { "BAD" } else { "ok " });
}

fn cpu_s() -> f64 {
    let s = std::fs::read_to_string("/proc/self/stat").unwrap();
    let f: Vec<&str> = s.rsplit(')').next().unwrap().split_whitespace().collect();
    (f[11].parse::<f64>().unwrap() + f[12].parse::<f64>().unwrap()) / 100.0
}

fn main() {
    std::panic::set_hook(Box::new(|_| {}));
    let mut rng = ChaCha8Rng::seed_from_u64(1);

    // v4 key: Ed25519Legacy primary, ECDH P-256 subkey
    let mut kp = SecretKeyParamsBuilder::default();
    kp.key_type(KeyType::Ed25519Legacy)
        .can_sign(true)
        .can_certify(true)
        .primary_user_id("a".into())
        .subkey(
            SubkeyParamsBuilder::default()
                .key_type(KeyType::ECDH(ECCCurve::P256))
                .can_encrypt(EncryptionCaps::All)
                .build()
                .unwrap(),
        );
    let key4 = kp.build().unwrap().generate(&mut rng).unwrap();
    let pk4 = key4.to_public_key();

    // v6 key: Ed25519 primary, X25519 subkey
    let mut kp = SecretKeyParamsBuilder::default();
    kp.version(KeyVersion::V6)
        .key_type(KeyType::Ed25519)
        .can_sign(true)
        .can_certify(true)
        .subkey(
            SubkeyParamsBuilder::default()
                .version(KeyVersion::V6)
                .key_type(KeyType::X25519)
                .can_encrypt(EncryptionCaps::All)
                .build()
                .unwrap(),
        );
    let key6 = kp.build().unwrap().generate(&mut rng).unwrap();
    let pk6 = key6.to_public_key();

    // #1 trailing lone CR, detached text signature
    let sig = DetachedSignature::sign_text_data(
        &mut rng,
        &key4.primary_key,
        &Password::empty(),
        HashAlgorithm::Sha256,
        &b"abc\r"[..],
    )
    .unwrap();
    verdict(
        "#1 ",
        sig.verify(&pk4, b"abc\r").is_err(),
        "sign_text_data(\"abc\\r\") then verify".into(),
    );

    // #2 CRC check on the library's own armor
    let arm = pk4.to_armored_string(Default::default()).unwrap();
    let mut d = pgp::armor::Dearmor::with_options(
        std::io::BufReader::new(arm.as_bytes()),
        pgp::armor::DearmorOptions::new().enable_crc24_check(),
    );
    let mut out = vec![];
    let r = d.read_to_end(&mut out);
    verdict(
        "#2 ",
        r.is_err(),
        format!("dearmor with crc check of own output: {:?}", d.crc24_status()),
    );

    // #3 S2K usage 255: patch the usage octet of a 254-locked key is not meaningful, so only
    // check the mapping: parse a v4 secret key packet with usage 255 and look at the octet
    // that is written back.
    {
        let mut k = key4.primary_key.clone();
        k.set_password(&mut rng, &"pw".into()).unwrap();
        let mut bytes = k.to_bytes().unwrap();
        // body: version(1) created(4) alg(1) pubparams.. then usage octet 254
        let pos = bytes.iter().position(|b| *b == 254).unwrap();
        bytes[pos] = 255;
        let hdr = PacketHeader::new_fixed(Tag::SecretKey, bytes.len() as u32);
        match pgp::packet::SecretKey::try_from_reader(hdr, &bytes[..]) {
            Ok(k2) => {
                let again = k2.to_bytes().unwrap();
                verdict(
                    "#3 ",
                    again[pos] != 255,
                    format!("usage octet 255 re-emitted as {}", again[pos]),
                );
            }
            Err(e) => verdict("#3 ", true, format!("parse failed {e}")),
        }
    }

    // #4 empty PKESK plaintext (ECDH cannot carry an empty plaintext past unpadding, use RSA
    // fixture-free variant: skipped here when no RSA key is generated) -> see #15 for ECDH.

    // #5 SEIPDv2 with AEAD id 0
    let r = std::panic::catch_unwind(|| {
        let mut body = vec![2u8, 9, 0, 6];
        body.extend_from_slice(&[7u8; 32]);
        body.extend_from_slice(&[1u8; 40]);
        let mut pkt = vec![0xD2, body.len() as u8];
        pkt.extend(body);
        let m = Message::from_bytes(std::io::Cursor::new(pkt)).unwrap();
        m.decrypt_with_session_key(PlainSessionKey::V6 {
            key: vec![0u8; 32].into(),
        })
        .is_ok()
    });
    verdict("#5 ", r.is_err(), "SEIPDv2 aead=0 decrypt panics".into());

    // #6 cleartext trailing blank
    let m = CleartextSignedMessage::sign(&mut rng, "abc \ndef", &key4.primary_key, &Password::empty())
        .unwrap();
    verdict(
        "#6 ",
        m.verify(&pk4).is_err(),
        "cleartext \"abc \\ndef\" sign then verify".into(),
    );

    // #8 CFB stream encryptor, empty source, read()-driven
    let mut enc = SymmetricKeyAlgorithm::AES128
        .stream_encryptor(&mut rng, &[0u8; 16], &b""[..])
        .unwrap();
    let mut total = 0;
    let mut buf = [0u8; 7];
    loop {
        let n = enc.read(&mut buf).unwrap();
        if n == 0 {
            break;
        }
        total += n;
    }
    verdict("#8 ", total != 40, format!("read()-driven length {total}, expected 40"));

    // #9 composite write_len
    verdict(
        "#9 ",
        pk4.write_len() != pk4.to_bytes().unwrap().len(),
        format!(
            "SignedPublicKey write_len {} vs {} bytes",
            pk4.write_len(),
            pk4.to_bytes().unwrap().len()
        ),
    );

    // #11 cleartext text ending in lone CR
    let m = CleartextSignedMessage::sign(&mut rng, "abc\r", &key4.primary_key, &Password::empty())
        .unwrap();
    let s = m.to_armored_string(Default::default()).unwrap();
    let (m2, _) = CleartextSignedMessage::from_string(&s).unwrap();
    verdict(
        "#11",
        m2.text() != m.text() || m2.verify(&pk4).is_err(),
        format!("round trip text {:?} -> {:?}", m.text(), m2.text()),
    );

    // #12 quadratic cleartext body scan
    {
        let mut t = vec![];
        for n in [40000usize, 80000, 160000] {
            let mut s = String::from("-----BEGIN PGP SIGNED MESSAGE-----\nHash: SHA256\n\n");
            for _ in 0..n {
                s.push_str("a\n");
            }
            s.push_str("-----BEGIN PGP SIGNATURE-----\n\nwpgEARYKAAAAAAUCAAAAAAAA\n-----END PGP SIGNATURE-----\n");
            let t0 = cpu_s();
            let _ = CleartextSignedMessage::from_string(&s);
            t.push(cpu_s() - t0);
        }
        verdict(
            "#12",
            t[2] > 0.5 && t[2] > 3.0 * t[1],
            format!("cleartext parse cpu for 40k/80k/160k lines: {:.2}/{:.2}/{:.2}s", t[0], t[1], t[2]),
        );
    }

    // #13 cross-group session key inconsistency
    {
        let sub = &pk6.public_subkeys[0];
        let mut b1 = MessageBuilder::from_bytes("", &b"hello"[..])
            .seipd_v1(&mut rng, SymmetricKeyAlgorithm::AES128);
        b1.encrypt_to_key(&mut rng, &pk4.public_subkeys[0]).unwrap();
        let _ = sub;
        let m1 = b1.to_vec(&mut rng).unwrap();
        let mut b2 = MessageBuilder::from_bytes("", &b"other"[..])
            .seipd_v1(&mut rng, SymmetricKeyAlgorithm::AES128);
        b2.encrypt_with_password(
            StringToKey::new_iterated(&mut rng, HashAlgorithm::Sha256, 2),
            &"pw".into(),
        )
        .unwrap();
        let m2 = b2.to_vec(&mut rng).unwrap();
        let p1: Vec<_> = PacketParser::new(&m1[..]).map(|p| p.unwrap()).collect();
        let p2: Vec<_> = PacketParser::new(&m2[..]).map(|p| p.unwrap()).collect();
        let mut spliced = vec![];
        p1[0].to_writer(&mut spliced).unwrap(); // PKESK(SK1)
        p2[0].to_writer(&mut spliced).unwrap(); // SKESK(SK2)
        p1[1].to_writer(&mut spliced).unwrap(); // SEIPD(SK1)
        let m = Message::from_bytes(std::io::Cursor::new(spliced)).unwrap();
        let pw: Password = "pw".into();
        let empty = Password::empty();
        let ring = TheRing {
            secret_keys: vec![&key4],
            key_passwords: vec![&empty],
            message_password: vec![&pw],
            ..Default::default()
        };
        let r = m.decrypt_the_ring(ring, false);
        verdict(
            "#13",
            r.is_ok(),
            "PKESK and SKESK carry different session keys, abort_early=false".into(),
        );
    }

    // #14 v4 signature by a v6 key accepted inline
    {
        let liar = Liar(&key6.primary_key);
        let mut b = MessageBuilder::from_bytes("", &b"hello"[..]);
        b.sign_with_subpackets(
            &liar,
            Password::empty(),
            HashAlgorithm::Sha256,
            SubpacketConfig::UserDefined {
                hashed: vec![Subpacket::regular(SubpacketData::SignatureCreationTime(
                    Timestamp::now(),
                ))
                .unwrap()],
                unhashed: vec![],
            },
        );
        let bytes = b.to_vec(&mut rng).unwrap();
        let mut m = Message::from_bytes(&bytes[..]).unwrap();
        let mut out = vec![];
        m.read_to_end(&mut out).unwrap();
        verdict(
            "#14",
            m.verify(&pk6.primary_key).is_ok(),
            "Message::verify of a v4 signature made by a v6 key".into(),
        );
    }

    // #15 short AES-KW input (ECDH wrapped key shorter than 8 octets)
    {
        let sub = &pk4.public_subkeys[0];
        let good = sub.encrypt(&mut rng, &[9u8; 19], EskType::V3_4).unwrap();
        let PkeskBytes::Ecdh { public_point, .. } = good else {
            panic!()
        };
        let mut panics = 0;
        for len in 0..8usize {
            let values = PkeskBytes::Ecdh {
                public_point: public_point.clone(),
                encrypted_session_key: vec![0u8; len].into(),
            };
            let pkesk = PublicKeyEncryptedSessionKey::V3 {
                packet_header: PacketHeader::new_fixed(Tag::PublicKeyEncryptedSessionKey, 0),
                id: sub.legacy_key_id(),
                pk_algo: sub.algorithm(),
                values,
            };
            let mut bytes = vec![];
            pkesk.to_writer_with_header(&mut bytes).unwrap();
            bytes.extend_from_slice(&[0xD2, 30, 1]);
            bytes.extend_from_slice(&[5u8; 29]);
            let k2 = key4.clone();
            let r = std::panic::catch_unwind(move || {
                let m = Message::from_bytes(std::io::Cursor::new(bytes)).unwrap();
                m.decrypt(&Password::empty(), &k2).is_ok()
            });
            if r.is_err() {
                panics += 1;
            }
        }
        verdict("#15", panics > 0, format!("ECDH wrapped key lengths 0..7: {panics} panics"));
    }

    // #7 back-signature on the secret path: bind a signing subkey without an embedded back
    // signature and compare the verdicts of the public and secret representation.
    {
        let mut kp = SecretKeyParamsBuilder::default();
        kp.key_type(KeyType::Ed25519Legacy)
            .can_certify(true)
            .primary_user_id("b".into())
            .subkey(
                SubkeyParamsBuilder::default()
                    .key_type(KeyType::Ed25519Legacy)
                    .can_sign(true)
                    .build()
                    .unwrap(),
            );
        let k = kp.build().unwrap().generate(&mut rng).unwrap();
        let mut stripped = k.clone();
        for sk in &mut stripped.secret_subkeys {
            // a fresh binding signature that claims the signing capability,
            // but carries no embedded primary key binding signature
            let mut cfg = SignatureConfig::v4(
                SignatureType::SubkeyBinding,
                k.primary_key.algorithm(),
                HashAlgorithm::Sha256,
            );
            let mut flags = KeyFlags::default();
            flags.set_sign(true);
            cfg.hashed_subpackets = vec![
                Subpacket::regular(SubpacketData::SignatureCreationTime(Timestamp::now())).unwrap(),
                Subpacket::regular(SubpacketData::IssuerFingerprint(k.primary_key.fingerprint()))
                    .unwrap(),
                Subpacket::regular(SubpacketData::KeyFlags(flags)).unwrap(),
            ];
            let sig = cfg
                .sign_subkey_binding(
                    &k.primary_key,
                    k.primary_key.public_key(),
                    &Password::empty(),
                    sk.key.public_key(),
                )
                .unwrap();
            sk.signatures = vec![sig];
        }
        let sec = stripped.verify_bindings().is_ok();
        let publ = stripped.to_public_key().verify_bindings().is_ok();
        verdict(
            "#7 ",
            sec != publ,
            format!("signing subkey without back-signature: secret path ok={sec}, public path ok={publ}"),
        );
    }
}
