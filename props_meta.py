"""Per-property metadata used by ./check: coverage rule text, floors, required coverage sets."""

COMMON_ASSUME = [
    "the primitive crates (hashes, block ciphers, AEADs, HKDF, Argon2, curves) are correct; the reference in mon/src/rfc composes them independently of pgp",
    "only the executions listed in coverage were observed; nothing is claimed about inputs/configurations outside the generated families",
    "harness built in release profile with debug-assertions and overflow-checks (same assertion regime as the repository test-suite)",
]

META = {
    "C14": {
        "technique": "runtime monitoring: recording signer/verifier digests vs independent RFC canonicalisation, exhaustive small-scope strings x chunkings, hook state coverage",
        "level_text": "Exploration by runtime monitoring: every string over the 3-class alphabet up to length 7 (quick) / 9 (thorough) under every chunking is pushed through each of the library's canonicalisers while a recording key observes the digest; compared with an independent canonicaliser. Exhaustive for the stated small scope (the code branches only on CR/LF/other and on chunk edges), sampled beyond it.",
        "rule": "A: every string over {CR,LF,'a'} up to the tier length x every chunking (composition) through SignatureHasher(io::Write) "
                "and Signature::verify(reader with that read schedule), digest seen by a recording signer/verifier compared with the "
                "reference digest over canon(s); LiteralData::from_str vs canon. B: every pattern over the alphabet placed at every "
                "alignment across the 512/1024-byte window edges of NormalizedReader x 4 source schedules x consumer patterns. "
                "C: every string over {CR,LF,a,0xC3,0xA9,0xE2} x every chunking through the Utf8 literal builder, acceptance compared with "
                "the predicate valid-UTF-8 and LF-only-after-CR. D: random long texts with CR/LF forced on 512/8192 edges, LF/CRLF/changed variants. "
                "distinct = distinct input strings/patterns (all non-trivial: each is fed through >=1 library canonicaliser).",
        "exhaustive_note": "families A, B, C enumerate their stated finite spaces completely; family D is sampled",
        "distinct_floor": {"quick": 3000, "thorough": 30000},
        "required_sets": {
            "hook.norm.hash_buf(last_was_cr,first)": ["0-CR", "0-LF", "0-x", "1-CR", "1-LF", "1-x"],
            "hook.norm.rd.window.arm": ["CR|LF", "CR|other", "none"],
        },
        "assumptions": COMMON_ASSUME,
    },
}
