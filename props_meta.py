"""Per-property metadata used by ./check and gen_manifest.py: one JSON file per property under meta/.

keys: technique, level_text, rule, exhaustive_note, distinct_floor{quick,thorough}, required_sets{set:[items]},
      assumptions[], case_budget_ms, shard_timeout_s{quick,thorough}, max_shards, claimed (default true), na_reason
"""
import json, os, glob

COMMON_ASSUME = [
    "the primitive crates (hashes, block ciphers, AEADs, HKDF, Argon2, curves) are correct; the reference in mon/src/rfc composes them independently of pgp",
    "only the executions listed in coverage were observed; nothing is claimed about inputs/configurations outside the generated families",
    "harness built in release profile with debug-assertions and overflow-checks (same assertion regime as the repository test-suite)",
]

META = {}
for f in sorted(glob.glob(os.path.join(os.path.dirname(os.path.abspath(__file__)), "meta", "C*.json"))):
    m = json.load(open(f))
    m["assumptions"] = COMMON_ASSUME + m.get("assumptions", [])
    META[os.path.basename(f)[:-5]] = m
