//! C16 — cleartext signatures: text survives, framing is unspoofable, signature binds.
//!
//! For a text t:  m = sign(t);  doc = m.to_armored_string();  (m2, _) = from_string(doc).
//!  (a) round trip: dash-unescaped m2.text() == t, signatures unchanged, every signature verifies
//!      (1 and 2 signers, v4/v6 keys, SHA-256 / SHA-512 / SHA3-256);
//!  (b) signed form: signed_text() == reference RFC 9580 section 7 form (dash-unescaped, trailing SP/TAB
//!      of every line removed, CRLF) and the digest handed to the signing / verifying primitive is the
//!      reference digest (rfc::sig) over exactly that form;
//!  (c) framing: an independent CSF splitter + strict armor parser + packet deframer split the
//!      emitted document into the same text and the same signature packets; every text line that
//!      starts with '-' is dash-escaped;
//!  (d) binding: edited documents (built with the reference dash-escaper around the original
//!      signature block) verify iff the reference signed form of the edited text is unchanged;
//!  (e) several signatures (family M): signature lists built from real signatures with known signer,
//!      issuer subpackets (own / none / naming another key) and signed text (message text / EMPTY text /
//!      another text), in every order: `verify(K)` succeeds iff the list holds K's signature over the
//!      message text, wherever it sits and whatever the verifier walks past before it; judged on the
//!      fresh message, on a reference-built document and on the library-written document.
//!
//! Signature scheme: `C16/<oracle>/<symptom>[/<api>][/<input-class>]`.

use std::cell::RefCell;

use pgp::composed::{
    ArmorOptions, CleartextSignedMessage, SignedPublicKey, SignedSecretKey,
};
use pgp::crypto::hash::HashAlgorithm;
use pgp::packet::{Signature, SignatureConfig, SignatureType, Subpacket, SubpacketData};
use pgp::ser::Serialize;
use pgp::types::{KeyDetails, KeyVersion, Password, Timestamp};
use rand::seq::SliceRandom;
use rand::{Rng, SeedableRng};
use rand_chacha::ChaCha8Rng;
use serde_json::{json, Value};

use crate::core::{describe_case, hash64, hexs, Ctx};
use crate::rec::{RecSigner, RecVerifier, SeenDigest};
use crate::rfc;
use crate::shim::{Sched, SchedReader};
use crate::zoo;

const BEGIN_SIG: &str = "-----BEGIN PGP SIGNATURE-----";
const BEGIN_MSG: &str = "-----BEGIN PGP SIGNED MESSAGE-----";
const END_SIG: &str = "-----END PGP SIGNATURE-----";

/// token grammar of the property's quantifier
const TOKENS: [&str; 14] = [
    "", "-", "- ", "--", BEGIN_SIG, BEGIN_MSG, END_SIG, "Hash: SHA256", "From ", " ", "\t", "a",
    "\u{e9}", "\u{2028}",
];
/// line separators: LF, CRLF, lone CR (which is *not* a line break: it stays inside the line)
const SEPS: [&str; 3] = ["\n", "\r\n", "\r"];

// ------------------------------------------------------------------------------------------
// reference pieces local to this monitor (RFC 9580 section 7; never call into pgp)

/// What a conforming reader gets out of the text section: the line ending in front of the
/// signature armor (CRLF or bare LF) is not part of the text. `csf_parse` removes the LF (by
/// splitting); a CR directly in front of it belongs to that line ending as well.
fn strip_final_cr(s: &str) -> &str {
    s.strip_suffix('\r').unwrap_or(s)
}

/// Is there a line whose content ends in SP / TAB (i.e. trimming changes the text)?
fn has_trailing_blanks(t: &str) -> bool {
    rfc::armor::csf_signed_form(t).as_bytes() != &rfc::canon_text(t.as_bytes())[..]
}

/// SP / TAB between a lone CR and the LF that ends the line ("a\r \n"): the RFC form of that line is
/// its content with the blanks removed ("a\r") followed by CRLF. (The library's trimming glues the
/// CR to the LF and reads the pair as the line ending; see the final report / known findings.)
fn cr_blanks_lf(t: &str) -> bool {
    let b = t.as_bytes();
    let mut i = 0;
    while i < b.len() {
        if b[i] == b'\r' {
            let mut j = i + 1;
            while j < b.len() && (b[j] == b' ' || b[j] == b'\t') {
                j += 1;
            }
            if j > i + 1 && j < b.len() && b[j] == b'\n' {
                return true;
            }
        }
        i += 1;
    }
    false
}

fn blank_class(t: &str) -> &'static str {
    if cr_blanks_lf(t) {
        "cr-blanks-lf"
    } else if has_trailing_blanks(t) {
        "trailing-blanks"
    } else {
        "no-trailing-blanks"
    }
}

/// coverage classes of a text
fn text_classes(t: &str) -> Vec<&'static str> {
    let mut v = vec![];
    if t.is_empty() {
        v.push("empty");
    }
    if t.ends_with('\r') {
        v.push("ends-in-lone-CR");
    }
    if t.ends_with('\n') {
        v.push("final-newline");
    } else {
        v.push("no-final-newline");
    }
    if has_trailing_blanks(t) {
        v.push("trailing-blanks");
    }
    if cr_blanks_lf(t) {
        v.push("cr-blanks-lf");
    }
    if t.contains("\r\n") {
        v.push("crlf");
    }
    if t.contains(" \r\n") || t.contains("\t\r\n") {
        v.push("blanks-before-crlf");
    }
    let b = t.as_bytes();
    if (0..b.len()).any(|i| b[i] == b'\n' && (i == 0 || b[i - 1] != b'\r')) {
        v.push("bare-lf");
    }
    if (0..b.len()).any(|i| b[i] == b'\r' && i + 1 < b.len() && b[i + 1] != b'\n') {
        v.push("lone-CR-inside");
    }
    for l in t.split('\n') {
        if l.starts_with('-') {
            v.push("dash-line");
        }
        if l.starts_with("-----") {
            v.push("armor-boundary-line");
        }
        if l.starts_with(BEGIN_SIG) {
            v.push("begin-signature-line");
        }
        if l.starts_with("- ") {
            v.push("looks-escaped-line");
        }
        if l.starts_with("From ") {
            v.push("from-line");
        }
        if l.starts_with("Hash: ") {
            v.push("hash-header-line");
        }
        if l.is_empty() || l == "\r" {
            v.push("empty-line");
        }
    }
    if t.starts_with('\n') || t.starts_with("\r\n") || t.starts_with(' ') || t.starts_with('\t') {
        v.push("blank-first-line");
    }
    if !t.is_ascii() {
        v.push("multi-byte");
    }
    if t.contains("\r-") {
        v.push("dash-after-lone-CR");
    }
    v.sort_unstable();
    v.dedup();
    v
}

// ------------------------------------------------------------------------------------------
// signer configurations

#[derive(Clone, Copy, PartialEq, Eq, Debug)]
enum Api {
    New,
    Sign,
    NewMany,
}

impl Api {
    fn name(self) -> &'static str {
        match self {
            Api::New => "new",
            Api::Sign => "sign",
            Api::NewMany => "new_many",
        }
    }
}

struct Cfg {
    name: &'static str,
    api: Api,
    /// (key index, hash)
    signers: Vec<(usize, HashAlgorithm)>,
}

struct Env {
    sk: Vec<SignedSecretKey>,
    pk: Vec<SignedPublicKey>,
    cfgs: Vec<Cfg>,
}

const K4: usize = 0; // v4 Ed25519Legacy
const K6: usize = 1; // v6 Ed25519
const KP: usize = 2; // v4 ECDSA P-256
const K4B: usize = 3; // a second v4 Ed25519Legacy key
const K6B: usize = 4; // a second v6 Ed25519 key

impl Env {
    fn new() -> Env {
        let sk = vec![
            zoo::key(&zoo::Spec::simple(false, zoo::Alg::Ed25519Legacy, None), 0),
            zoo::key(&zoo::Spec::simple(true, zoo::Alg::Ed25519, None), 0),
            zoo::key(&zoo::Spec::simple(false, zoo::Alg::EcdsaP256, None), 0),
            zoo::key(&zoo::Spec::simple(false, zoo::Alg::Ed25519Legacy, None), 1),
            zoo::key(&zoo::Spec::simple(true, zoo::Alg::Ed25519, None), 1),
        ];
        let pk = sk.iter().map(|k| k.to_public_key()).collect();
        let cfgs = vec![
            Cfg { name: "new/v4-ed25519legacy-sha256", api: Api::New, signers: vec![(K4, HashAlgorithm::Sha256)] },
            Cfg { name: "new/v6-ed25519-sha512", api: Api::New, signers: vec![(K6, HashAlgorithm::Sha512)] },
            Cfg { name: "new/v4-ecdsa-p256-sha3-256", api: Api::New, signers: vec![(KP, HashAlgorithm::Sha3_256)] },
            Cfg { name: "sign/v6-ed25519-default", api: Api::Sign, signers: vec![(K6, HashAlgorithm::Sha512)] },
            Cfg { name: "sign/v4-ed25519legacy-default", api: Api::Sign, signers: vec![(K4, HashAlgorithm::Sha256)] },
            Cfg {
                name: "new_many/v4-ed25519legacy-sha512+v6-ed25519-sha3-256",
                api: Api::NewMany,
                signers: vec![(K4, HashAlgorithm::Sha512), (K6, HashAlgorithm::Sha3_256)],
            },
            Cfg {
                name: "new_many/v4-ecdsa-p256-sha256+v4-ed25519legacy-sha256",
                api: Api::NewMany,
                signers: vec![(KP, HashAlgorithm::Sha256), (K4, HashAlgorithm::Sha256)],
            },
        ];
        Env { sk, pk, cfgs }
    }

    fn config(&self, key: usize, hash: HashAlgorithm, rng: &mut ChaCha8Rng) -> pgp::errors::Result<SignatureConfig> {
        let k = &self.sk[key].primary_key;
        let mut c = match k.version() {
            KeyVersion::V6 => SignatureConfig::v6(rng, SignatureType::Text, k.algorithm(), hash)?,
            _ => SignatureConfig::v4(SignatureType::Text, k.algorithm(), hash),
        };
        c.hashed_subpackets = vec![
            Subpacket::regular(SubpacketData::SignatureCreationTime(Timestamp::from_secs(1_700_000_000)))?,
            Subpacket::regular(SubpacketData::IssuerFingerprint(k.fingerprint()))?,
        ];
        if k.version() != KeyVersion::V6 {
            c.unhashed_subpackets = vec![Subpacket::regular(SubpacketData::IssuerKeyId(k.legacy_key_id()))?];
        }
        Ok(c)
    }
}

struct Built {
    msg: CleartextSignedMessage,
    /// digests the signing primitive was handed, per signer
    sign_digests: Vec<Vec<SeenDigest>>,
    /// text handed to the `new_many` closure
    closure_text: Option<String>,
}

fn build(env: &Env, cfg: &Cfg, dry: bool, t: &str, mut rng: ChaCha8Rng) -> pgp::errors::Result<Built> {
    let signers: Vec<RecSigner> = cfg
        .signers
        .iter()
        .map(|(k, _)| {
            if dry {
                RecSigner::dry(&env.sk[*k].primary_key)
            } else {
                RecSigner::new(&env.sk[*k].primary_key)
            }
        })
        .collect();
    let pw = Password::empty();
    let closure_text = RefCell::new(None);
    let msg = match cfg.api {
        Api::New => {
            let (k, h) = cfg.signers[0];
            let c = env.config(k, h, &mut rng)?;
            CleartextSignedMessage::new(t, c, &signers[0], &pw)?
        }
        Api::Sign => CleartextSignedMessage::sign(&mut rng, t, &signers[0], &pw)?,
        Api::NewMany => CleartextSignedMessage::new_many(t, |txt| {
            *closure_text.borrow_mut() = Some(txt.to_string());
            let mut out = vec![];
            for (i, (k, h)) in cfg.signers.iter().enumerate() {
                let c = env.config(*k, *h, &mut rng)?;
                out.push(c.sign(&signers[i], &pw, txt.as_bytes())?);
            }
            Ok(out)
        })?,
    };
    Ok(Built {
        msg,
        sign_digests: signers.iter().map(|s| s.take()).collect(),
        closure_text: closure_text.into_inner(),
    })
}

/// Per signature: (verify returned Ok, digest handed to the primitive). In dry mode the
/// public-key operation is skipped (the signature value is a dummy); "verifies" then means:
/// `Signature::verify` returned Ok (left16 check passed) *and* the digest equals the reference digest.
struct Verdicts {
    ok: Vec<bool>,
    digests: Vec<Option<Vec<u8>>>,
}

fn verify_each(env: &Env, cfg: &Cfg, dry: bool, m: &CleartextSignedMessage) -> Verdicts {
    let res: RefCell<Vec<(bool, Option<Vec<u8>>)>> = RefCell::new(vec![]);
    let _ = m.verify_many(|i, sig, data| {
        let Some((k, _)) = cfg.signers.get(i) else {
            res.borrow_mut().push((false, None));
            return Ok(());
        };
        let ver = RecVerifier { inner: &env.pk[*k].primary_key, seen: Default::default(), accept_all: dry };
        let r = sig.verify(&ver, data);
        let seen = ver.take();
        res.borrow_mut().push((r.is_ok(), seen.last().map(|s| s.digest.clone())));
        Ok(())
    });
    let r = res.into_inner();
    Verdicts { ok: r.iter().map(|x| x.0).collect(), digests: r.into_iter().map(|x| x.1).collect() }
}

/// all signatures verify (against `wants`, the reference digests)
fn all_verify(v: &Verdicts, wants: &[Vec<u8>]) -> bool {
    v.ok.len() == wants.len()
        && v.ok.iter().all(|b| *b)
        && v.digests.iter().zip(wants).all(|(d, w)| d.as_deref() == Some(&w[..]))
}

/// no signature verifies against the original digest
fn none_verify(v: &Verdicts, wants: &[Vec<u8>]) -> bool {
    !(0..v.ok.len()).any(|i| v.ok[i] && (v.digests[i].is_none() || v.digests[i].as_deref() == wants.get(i).map(|w| &w[..])))
}

// ------------------------------------------------------------------------------------------
// edits for the binding oracle

fn replace_char(c: char) -> char {
    if c == 'x' {
        'y'
    } else {
        'x'
    }
}

/// (kind, edited text)
fn text_edits(t: &str, rng: &mut ChaCha8Rng, max_pos: usize) -> Vec<(&'static str, String)> {
    let chars: Vec<char> = t.chars().collect();
    let n = chars.len();
    let mut out: Vec<(&'static str, String)> = vec![];
    let mut positions: Vec<usize> = (0..n).collect();
    if n > max_pos {
        positions.shuffle(rng);
        positions.truncate(max_pos.saturating_sub(2));
        positions.push(0);
        positions.push(n - 1);
        positions.sort_unstable();
        positions.dedup();
    }
    let join = |a: &[char], mid: &str, b: &[char]| -> String {
        let mut s: String = a.iter().collect();
        s.push_str(mid);
        s.extend(b.iter());
        s
    };
    for &p in &positions {
        out.push(("change-char", join(&chars[..p], &replace_char(chars[p]).to_string(), &chars[p + 1..])));
        out.push(("delete-char", join(&chars[..p], "", &chars[p + 1..])));
        out.push(("insert-char", join(&chars[..p], "x", &chars[p..])));
        out.push(("insert-blank", join(&chars[..p], if p % 2 == 0 { " " } else { "\t" }, &chars[p..])));
    }
    out.push(("insert-char", format!("{t}x")));
    out.push(("insert-blank", format!("{t} ")));
    out.push(("insert-blank", format!("{t}\t")));
    out.push(("insert-dash", format!("-{t}")));

    let lines: Vec<&str> = t.split('\n').collect();
    let nl = lines.len();
    for i in 0..nl.saturating_sub(1) {
        if lines[i] != lines[i + 1] {
            let mut l = lines.clone();
            l.swap(i, i + 1);
            out.push(("swap-lines", l.join("\n")));
        }
    }
    out.push(("add-line", format!("{t}\nx")));
    out.push(("add-line", format!("x\n{t}")));
    out.push(("add-line", format!("{t}\n")));
    out.push(("add-line", format!("\n{t}")));
    out.push(("add-line", format!("{t}\n{BEGIN_SIG}")));
    if nl >= 2 {
        let mut l = lines.clone();
        l.insert(1, "x");
        out.push(("add-line", l.join("\n")));
        for i in [0, nl - 1] {
            let mut l = lines.clone();
            l.remove(i);
            out.push(("delete-line", l.join("\n")));
        }
    }
    {
        let mut l = lines.clone();
        l.insert(0, lines[0]);
        out.push(("duplicate-line", l.join("\n")));
    }
    // edits that only touch trailing blanks / line-ending representation
    let per_line = |f: &dyn Fn(&str) -> String| -> String {
        let mut o = String::new();
        for (i, l) in lines.iter().enumerate() {
            let last = i == nl - 1;
            let (content, cr) = if !last && l.ends_with('\r') { (&l[..l.len() - 1], "\r") } else { (*l, "") };
            o.push_str(&f(content));
            o.push_str(cr);
            if !last {
                o.push('\n');
            }
        }
        o
    };
    out.push(("add-trailing-blanks", per_line(&|c| format!("{c} "))));
    out.push(("add-trailing-blanks", per_line(&|c| format!("{c}\t"))));
    out.push(("add-trailing-blanks", per_line(&|c| format!("{c} \t  "))));
    out.push(("strip-trailing-blanks", per_line(&|c| c.trim_end_matches([' ', '\t']).to_string())));
    out.push(("text-lf-to-crlf", String::from_utf8(rfc::canon_text(t.as_bytes())).expect("utf8")));
    out.push(("text-crlf-to-lf", t.replace("\r\n", "\n")));
    out.retain(|(_, e)| e != t);
    out
}

// ------------------------------------------------------------------------------------------
// the per-text check

#[derive(Clone, Copy)]
struct Opt {
    dry: bool,
    /// number of character positions edited for the binding oracle (0 = no binding check)
    edit_positions: usize,
    /// exercise from_armor (reader paths) and non-default armor options
    api_variants: bool,
    /// count the text itself as a distinct case (A4 counts groups instead)
    cover: bool,
}

fn dbg_str(s: &str) -> String {
    let mut o: String = format!("{s:?}");
    if o.len() > 300 {
        let mut n = 300;
        while !o.is_char_boundary(n) {
            n -= 1;
        }
        o.truncate(n);
        o.push_str("...");
    }
    o
}

fn check_text(ctx: &mut Ctx, env: &Env, family: &str, t: &str, cfg_idx: usize, opt: Opt) {
    let cfg = &env.cfgs[cfg_idx];
    let api = cfg.api.name();
    let replay = || -> Value {
        json!({"family": family, "t": hexs(t.as_bytes()), "t_str": dbg_str(t), "cfg": cfg.name, "dry": opt.dry})
    };
    let bclass = blank_class(t);
    let cr_class = t.ends_with('\r');
    let signed_ref = rfc::armor::csf_signed_form(t);
    if opt.cover {
        ctx.cover(&("text", t));
    }
    ctx.seen("cfg", format!("{}{}", cfg.name, if opt.dry { "/recorded-digest" } else { "/real-crypto" }));
    for c in text_classes(t) {
        ctx.seen("text-class", c);
    }
    ctx.tally(if opt.dry { "texts.recorded-digest" } else { "texts.real-crypto" }, 1);

    // ---- sign
    let rng = ChaCha8Rng::seed_from_u64(hash64(&(ctx.seed, "c16sig", t, cfg_idx)));
    let Some(b) = ctx.guarded("C16/sign", replay, || build(env, cfg, opt.dry, t, rng)) else { return };
    ctx.eval();
    let b = match b {
        Ok(b) => b,
        Err(e) => {
            ctx.violation(format!("C16/sign/error/{api}"), format!("signing {} failed: {e}", dbg_str(t)), replay());
            return;
        }
    };
    let m = &b.msg;
    if m.signatures().len() != cfg.signers.len() {
        ctx.violation(
            format!("C16/sign/signature-count/{api}"),
            format!("{} signatures for {} signers", m.signatures().len(), cfg.signers.len()),
            replay(),
        );
        return;
    }

    // reference digests of the RFC signed form, per signature
    let mut wants: Vec<Vec<u8>> = vec![];
    let mut sig_bodies: Vec<Vec<u8>> = vec![];
    for sig in m.signatures() {
        let body = match sig.to_bytes() {
            Ok(b) => b,
            Err(e) => {
                ctx.inconclusive(format!("signature does not serialise: {e}"));
                return;
            }
        };
        let rs = match rfc::sig::parse_sig(&body) {
            Ok(r) => r,
            Err(e) => {
                ctx.inconclusive(format!("reference cannot parse signature: {e}"));
                return;
            }
        };
        if rs.typ != 1 {
            ctx.violation(
                format!("C16/signed-form/signature-type-not-text/{api}"),
                format!("cleartext signature has type {:#x}, RFC 9580 7 requires 0x01", rs.typ),
                replay(),
            );
            return;
        }
        let Some(w) = rs.digest_over(&[signed_ref.as_bytes()]) else {
            ctx.inconclusive("reference has no such hash");
            return;
        };
        ctx.seen("sig-version/hash", format!("v{}/hash{}", rs.version, rs.hash_alg));
        wants.push(w);
        sig_bodies.push(body);
    }

    // ---- (b) signed form before armoring
    let st = m.signed_text();
    ctx.eval();
    // a text of the cr-blanks-lf class whose signed form is wrong is reported once, here; the
    // digest / verify / binding oracles all presuppose the signed form and are skipped for it
    let form_defect = st != signed_ref && cr_blanks_lf(t);
    if form_defect {
        // Not judged: SP/TAB between a lone CR and the LF that ends the line. Whether the CR is
        // line content (reference: "a\r" + CRLF) or fuses with the LF once the blanks are trimmed
        // (library, GnuPG: "a" + CRLF) is not settled by the RFC text; the property does not speak
        // about CR inside a line. Tallied as an observation.
        ctx.tally("ambiguous.cr-blanks-lf.signed-form-differs-from-reference", 1);
    } else if st != signed_ref {
        ctx.violation(
            format!("C16/signed-form/signed_text-mismatch/{api}/{bclass}"),
            format!("signed_text() = {} but RFC form is {} for t = {}", dbg_str(&st), dbg_str(&signed_ref), dbg_str(t)),
            replay(),
        );
    }
    if cfg.api != Api::NewMany && !form_defect {
        for (i, seen) in b.sign_digests.iter().enumerate() {
            if seen.len() != 1 || seen[0].digest != wants[i] {
                ctx.violation(
                    format!("C16/signed-form/signer-digest-mismatch/{api}/{bclass}"),
                    format!(
                        "digest handed to the signing key is not the RFC digest over the signed form {} of t = {}",
                        dbg_str(&signed_ref),
                        dbg_str(t)
                    ),
                    replay(),
                );
            }
        }
    }
    // dash escaping of the in-memory form
    match unescape(m.text()) {
        Ok(u) if u == t => {}
        Ok(u) => ctx.violation(
            format!("C16/escape/text-changed/{api}"),
            format!("text() of the fresh message unescapes to {} for t = {}", dbg_str(&u), dbg_str(t)),
            replay(),
        ),
        Err(l) => ctx.violation(
            format!("C16/escape/unescaped-dash-line/{api}"),
            format!("text() has line {} starting with '-' without \"- \" for t = {}", dbg_str(&l), dbg_str(t)),
            replay(),
        ),
    }

    // ---- verify before armoring
    let Some(v0) = ctx.guarded("C16/verify", replay, || verify_each(env, cfg, opt.dry, m)) else { return };
    ctx.evals_add(cfg.signers.len() as u64);
    let pre_ok = all_verify(&v0, &wants);
    if form_defect {
        ctx.tally("cr-blanks-lf.crypto-oracles-skipped", 1);
    } else if !pre_ok {
        ctx.violation(
            format!("C16/verify/rejected-before-armor/{api}/{bclass}"),
            format!(
                "fresh message does not verify (per signature ok={:?}); t = {}; RFC signed form {}; text given to new_many signer: {}",
                v0.ok,
                dbg_str(t),
                dbg_str(&signed_ref),
                b.closure_text.as_deref().map(dbg_str).unwrap_or_else(|| "-".into())
            ),
            replay(),
        );
    } else if let Some(ct) = &b.closure_text {
        if *ct != signed_ref {
            ctx.violation(
                format!("C16/signed-form/new_many-signer-text-mismatch/{bclass}"),
                format!("new_many handed {} to the signer, RFC signed form is {}", dbg_str(ct), dbg_str(&signed_ref)),
                replay(),
            );
        }
    }
    if !opt.dry && !form_defect {
        // the single-key entry point must agree
        for (i, (k, _)) in cfg.signers.iter().enumerate() {
            let r = ctx.guarded("C16/verify", replay, || m.verify(&env.pk[*k].primary_key).is_ok());
            ctx.eval();
            if let Some(r) = r {
                if r != v0.ok[i] {
                    ctx.violation(
                        format!("C16/verify/verify-vs-verify_many-disagree/{api}"),
                        format!("verify(key {i}) = {r}, verify_many = {}", v0.ok[i]),
                        replay(),
                    );
                }
            }
        }
    }

    // ---- armor
    let Some(doc) = ctx.guarded("C16/armor", replay, || m.to_armored_string(ArmorOptions::default())) else { return };
    ctx.eval();
    let doc = match doc {
        Ok(d) => d,
        Err(e) => {
            ctx.violation(format!("C16/armor/error/{api}"), format!("to_armored_string failed: {e}"), replay());
            return;
        }
    };

    // ---- (c) framing, judged by the independent splitter
    let parsed = match rfc::armor::csf_parse(&doc) {
        Ok(p) => p,
        Err(e) => {
            let class = if e.starts_with("text section terminated") {
                "text-terminated-early"
            } else if e.starts_with("unescaped dash line") {
                "unescaped-dash-line"
            } else {
                "malformed-document"
            };
            ctx.violation(
                format!("C16/framing/reference-rejects/{class}"),
                format!("a conforming splitter cannot read the emitted document: {e}; t = {}", dbg_str(t)),
                replay(),
            );
            return;
        }
    };
    let ref_text = strip_final_cr(&parsed.text).to_string();
    let expect_rt: &str = if cr_class { &t[..t.len() - 1] } else { t };
    if ref_text != expect_rt {
        ctx.violation(
            "C16/framing/reference-reads-other-text",
            format!("a conforming splitter reads {} from the document emitted for t = {}", dbg_str(&ref_text), dbg_str(t)),
            replay(),
        );
    }
    // the signature block: strict armor, packets = the signatures, nothing else
    match rfc::armor::armor_parse_strict(&parsed.sig_armor) {
        Err(e) => ctx.violation(
            "C16/framing/signature-armor-malformed",
            format!("strict armor parser rejects the signature block: {e}; t = {}", dbg_str(t)),
            replay(),
        ),
        Ok(pa) => {
            let mut why = None;
            if pa.typ != "PGP SIGNATURE" {
                why = Some(format!("armor type {:?}", pa.typ));
            } else if !pa.rest.trim().is_empty() {
                why = Some(format!("data after the signature block: {:?}", pa.rest));
            } else if pa.crc.is_some_and(|c| c != rfc::armor::crc24(&pa.data)) {
                why = Some("CRC-24 wrong".into());
            } else {
                match rfc::frame::deframe(&pa.data) {
                    Err(e) => why = Some(format!("packet framing: {e}")),
                    Ok(pk) => {
                        if pk.len() != sig_bodies.len()
                            || pk.iter().zip(&sig_bodies).any(|(p, b)| p.tag != 2 || p.body != *b)
                        {
                            why = Some(format!(
                                "packets in the block (tags {:?}) are not the message's signatures",
                                pk.iter().map(|p| p.tag).collect::<Vec<_>>()
                            ));
                        }
                    }
                }
            }
            if let Some(w) = why {
                ctx.violation("C16/framing/signature-block-differs", format!("{w}; t = {}", dbg_str(t)), replay());
            }
        }
    }
    for sig in m.signatures() {
        if let Some(h) = sig.hash_alg() {
            if !parsed.hashes.iter().any(|x| x.eq_ignore_ascii_case(&h.to_string())) {
                ctx.tally("hash-header-missing-for-signature", 1);
            }
        }
    }

    // ---- (a) read back
    let Some(r2) = ctx.guarded("C16/parse", replay, || CleartextSignedMessage::from_string(&doc)) else { return };
    ctx.eval();
    let (m2, hdrs) = match r2 {
        Ok(x) => x,
        Err(e) => {
            ctx.violation(
                format!("C16/roundtrip/parse-error/{}", if cr_class { "trailing-lone-CR" } else { "other" }),
                format!("from_string rejects the emitted document: {e}; t = {}", dbg_str(t)),
                replay(),
            );
            return;
        }
    };
    if !hdrs.is_empty() {
        ctx.violation("C16/roundtrip/unexpected-armor-headers", format!("headers {hdrs:?}"), replay());
    }
    let rt = match unescape(m2.text()) {
        Ok(u) => u,
        Err(l) => {
            ctx.violation(
                "C16/roundtrip/unescaped-dash-line",
                format!("text() after the round trip has line {} starting with '-' without \"- \"; t = {}", dbg_str(&l), dbg_str(t)),
                replay(),
            );
            return;
        }
    };
    if rt != ref_text {
        ctx.violation(
            "C16/framing/split-differs",
            format!(
                "library reads {} but a conforming splitter reads {} from the same document; t = {}",
                dbg_str(&rt),
                dbg_str(&ref_text),
                dbg_str(t)
            ),
            replay(),
        );
    }
    if m2.signatures() != m.signatures() {
        ctx.violation("C16/roundtrip/signatures-changed", format!("signatures differ after the round trip; t = {}", dbg_str(t)), replay());
        return;
    }
    let Some(v2) = ctx.guarded("C16/verify", replay, || verify_each(env, cfg, opt.dry, &m2)) else { return };
    ctx.evals_add(cfg.signers.len() as u64);
    let post_ok = all_verify(&v2, &wants);
    let st2 = m2.signed_text();
    if rt != t {
        if cr_class && rt == t[..t.len() - 1] {
            ctx.violation(
                "C16/roundtrip/text-changed/trailing-lone-CR",
                format!(
                    "text ending in a lone CR comes back without it: t = {} -> {}; signature verifies after the round trip: {}",
                    dbg_str(t),
                    dbg_str(&rt),
                    post_ok
                ),
                replay(),
            );
            ctx.tally(if post_ok { "trailing-lone-CR.verifies-after-roundtrip" } else { "trailing-lone-CR.rejected-after-roundtrip" }, 1);
            // the text that was read is a different one: its signature must not verify
            if pre_ok && !none_verify(&v2, &wants) {
                ctx.violation(
                    "C16/binding/changed-text-accepted/roundtrip-trailing-lone-CR",
                    format!("text changed by the round trip ({} -> {}) still verifies", dbg_str(t), dbg_str(&rt)),
                    replay(),
                );
            }
        } else {
            ctx.violation(
                "C16/roundtrip/text-changed/other",
                format!("t = {} comes back as {}", dbg_str(t), dbg_str(&rt)),
                replay(),
            );
        }
    } else if !form_defect {
        if st2 != signed_ref {
            ctx.violation(
                format!("C16/signed-form/signed_text-mismatch-after-roundtrip/{bclass}"),
                format!("signed_text() = {} but RFC form is {} for t = {}", dbg_str(&st2), dbg_str(&signed_ref), dbg_str(t)),
                replay(),
            );
        }
        if pre_ok && !post_ok {
            ctx.violation(
                format!("C16/verify/rejected/{api}/{bclass}"),
                format!("message verified before armoring but not after reading it back (per signature ok={:?}); t = {}", v2.ok, dbg_str(t)),
                replay(),
            );
        }
        if pre_ok && post_ok {
            ctx.tally("roundtrip.verified", 1);
        }
    }
    if !opt.dry && rt == t && !form_defect {
        for (i, (k, _)) in cfg.signers.iter().enumerate() {
            let r = ctx.guarded("C16/verify", replay, || m2.verify(&env.pk[*k].primary_key).is_ok());
            ctx.eval();
            if let Some(r) = r {
                if r != v2.ok[i] {
                    ctx.violation(
                        format!("C16/verify/verify-vs-verify_many-disagree/{api}"),
                        format!("after round trip verify(key {i}) = {r}, verify_many = {}", v2.ok[i]),
                        replay(),
                    );
                }
            }
        }
    }

    // ---- API variants: reader entry points, armor options
    if opt.api_variants {
        api_variants(ctx, env, family, t, cfg_idx, opt, m, &doc, &m2);
    }

    // ---- (d) binding
    if opt.edit_positions == 0 || form_defect {
        return;
    }
    if !pre_ok {
        // the signature is not over the RFC form (reported above): nothing to bind to
        ctx.tally("binding.skipped-signature-unsound", 1);
        return;
    }
    let head_len = doc.len() - (parsed.escaped_text.len() + 1 + parsed.sig_armor.len());
    let head = &doc[..head_len];
    if format!("{head}{}\n{}", parsed.escaped_text, parsed.sig_armor) != doc {
        ctx.inconclusive("harness: cannot re-assemble the document from the reference split");
        return;
    }
    let mut erng = ChaCha8Rng::seed_from_u64(hash64(&(ctx.seed, "c16edit", t)));
    let mut docs: Vec<(&'static str, String, String)> = text_edits(t, &mut erng, opt.edit_positions)
        .into_iter()
        .map(|(k, e)| {
            let d = format!("{head}{}\n{}", rfc::armor::dash_escape(&e), parsed.sig_armor);
            (k, e, d)
        })
        .collect();
    // raw edits of the document (not re-escaped): a '-' put in front of a text line. A reader strips
    // "- " and nothing else (RFC 9580 7.2), so the line reads as another one.
    {
        let elines: Vec<&str> = parsed.escaped_text.split('\n').collect();
        for i in 0..elines.len().min(4) {
            let raw = format!("-{}", elines[i]);
            if raw.starts_with("-----") {
                continue; // would be an armor boundary, not a text line
            }
            let mut l: Vec<String> = elines.iter().map(|x| x.to_string()).collect();
            l[i] = raw;
            let text: Vec<&str> = l.iter().map(|x| x.strip_prefix("- ").unwrap_or(x)).collect();
            docs.push(("raw-dash-insert", text.join("\n"), format!("{head}{}\n{}", l.join("\n"), parsed.sig_armor)));
        }
    }
    // whole-document line ending conversions; what text they denote is decided by the reference splitter
    for (k, d) in [
        ("doc-lf-to-crlf", String::from_utf8(rfc::canon_text(doc.as_bytes())).expect("utf8")),
        ("doc-crlf-to-lf", doc.replace("\r\n", "\n")),
    ] {
        match rfc::armor::csf_parse(&d) {
            Ok(p) => docs.push((k, p.text, d)),
            Err(e) => ctx.inconclusive(format!("harness: reference cannot split a converted document: {e}")),
        }
    }
    for (kind, etext, edoc) in docs {
        // text a conforming reader sees, and its signed form
        let eff = strip_final_cr(&etext);
        let same = rfc::armor::csf_signed_form(eff) == signed_ref;
        // input class of the *edited* text decides the class in the signature
        let kind_sig = if cr_blanks_lf(eff) { "cr-blanks-lf" } else { kind };
        if kind_sig == "cr-blanks-lf" || cr_blanks_lf(t) {
            // ambiguous class (see the signed-form oracle): exercised below for panics only
            ctx.tally("ambiguous.cr-blanks-lf.binding-edit-not-judged", 1);
            let _ = ctx.guarded("C16/binding", || replay(), || {
                CleartextSignedMessage::from_string(&edoc).map(|(me, _)| verify_each(env, cfg, opt.dry, &me))
            });
            continue;
        }
        if edoc == doc && same == post_ok {
            continue;
        }
        let ereplay = || -> Value {
            let mut r = replay();
            r["edit"] = json!(kind);
            r["edited_doc"] = json!(hexs(edoc.as_bytes()));
            r
        };
        let Some(r) = ctx.guarded("C16/binding", ereplay, || {
            CleartextSignedMessage::from_string(&edoc).map(|(me, _)| {
                let v = verify_each(env, cfg, opt.dry, &me);
                (me.signatures().len(), v)
            })
        }) else {
            continue;
        };
        ctx.eval();
        ctx.seen("edit", format!("{kind}:{}", if same { "must-verify" } else { "must-fail" }));
        ctx.tally(if same { "binding.edits.must-verify" } else { "binding.edits.must-fail" }, 1);
        if (kind.starts_with("doc-") || kind.starts_with("text-")) && (t.contains(" \r\n") || t.contains("\t\r\n") || eff.contains(" \r\n") || eff.contains("\t\r\n")) {
            ctx.seen("line-end-conversion-with-blanks-before-crlf", kind);
        }
        match r {
            Err(e) => {
                if same {
                    ctx.violation(
                        format!("C16/binding/equivalent-edit-rejected/{kind_sig}"),
                        format!(
                            "document whose text {} has the same signed form as t = {} is rejected by from_string: {e}",
                            dbg_str(&etext),
                            dbg_str(t)
                        ),
                        ereplay(),
                    );
                }
            }
            Ok((nsig, v)) => {
                if same && !(nsig == wants.len() && all_verify(&v, &wants)) {
                    ctx.violation(
                        format!("C16/binding/equivalent-edit-rejected/{kind_sig}"),
                        format!(
                            "edit outside the signed form makes verification fail (ok={:?}): {} -> {} (signed form {})",
                            v.ok,
                            dbg_str(t),
                            dbg_str(&etext),
                            dbg_str(&signed_ref)
                        ),
                        ereplay(),
                    );
                }
                if !same && !none_verify(&v, &wants) {
                    ctx.violation(
                        format!("C16/binding/changed-text-accepted/{kind_sig}"),
                        format!(
                            "edit that changes the signed form still verifies: {} -> {} (signed forms {} vs {})",
                            dbg_str(t),
                            dbg_str(&etext),
                            dbg_str(&signed_ref),
                            dbg_str(&rfc::armor::csf_signed_form(eff))
                        ),
                        ereplay(),
                    );
                }
            }
        }
    }
}

/// Reference dash-unescape: per LF-separated line strip one leading "- ". Err(line) for a line
/// that starts with '-' but is not escaped (a MUST of RFC 9580 7.2 for the writer).
fn unescape(s: &str) -> Result<String, String> {
    let mut out = String::with_capacity(s.len());
    for (i, l) in s.split('\n').enumerate() {
        if i > 0 {
            out.push('\n');
        }
        if let Some(r) = l.strip_prefix("- ") {
            out.push_str(r);
        } else if l.starts_with('-') {
            return Err(l.to_string());
        } else {
            out.push_str(l);
        }
    }
    Ok(out)
}

#[allow(clippy::too_many_arguments)]
fn api_variants(
    ctx: &mut Ctx,
    env: &Env,
    family: &str,
    t: &str,
    cfg_idx: usize,
    opt: Opt,
    m: &CleartextSignedMessage,
    doc: &str,
    m2: &CleartextSignedMessage,
) {
    let _ = env;
    let cfg = &env.cfgs[cfg_idx];
    let replay = || -> Value {
        json!({"family": family, "t": hexs(t.as_bytes()), "t_str": dbg_str(t), "cfg": cfg.name, "dry": opt.dry, "variant": true})
    };
    // from_armor over readers with different schedules must read what from_string reads
    for sched in [Sched::All, Sched::Fixed(1), Sched::Cycle(vec![3, 1, 64]), Sched::Random(hash64(&t), 40)] {
        let name = sched.name();
        let r = ctx.guarded("C16/parse", replay, || {
            CleartextSignedMessage::from_armor(SchedReader::new(doc.as_bytes().to_vec(), sched.clone()))
        });
        ctx.eval();
        let sname = match sched {
            Sched::All => "all",
            Sched::Fixed(_) => "fixed1",
            Sched::Cycle(_) => "cycle3-1-64",
            _ => "random<=40",
        };
        ctx.seen("reader-schedule", sname);
        match r {
            None => {}
            Some(Err(e)) => {
                ctx.tally(&format!("from_armor-rejects.schedule-{sname}"), 1);
                ctx.violation(
                format!("C16/roundtrip/from_armor-rejects/{}", if matches!(sched, Sched::All) { "full-reads" } else { "short-reads" }),
                format!("from_armor (source schedule {name}) rejects a document from_string accepts: {e}; t = {}", dbg_str(t)),
                replay(),
            )},
            Some(Ok((m3, _))) => {
                if m3 != *m2 {
                    ctx.violation(
                        "C16/roundtrip/from_armor-differs",
                        format!("from_armor (source schedule {name}) reads another message than from_string; t = {}", dbg_str(t)),
                        replay(),
                    );
                }
            }
        }
    }
    // armor headers on the signature block, no checksum; written through to_armored_writer
    let mut h = pgp::armor::Headers::new();
    h.insert("Comment".to_string(), vec!["-----BEGIN PGP SIGNATURE-----".to_string()]);
    h.insert("Hash".to_string(), vec!["MD5".to_string()]);
    let r = ctx.guarded("C16/armor", replay, || {
        let mut buf = vec![];
        m.to_armored_writer(&mut buf, ArmorOptions { headers: Some(&h), include_checksum: false }).map(|_| buf)
    });
    ctx.eval();
    let Some(Ok(buf)) = r else {
        if r.is_some() {
            ctx.violation("C16/armor/error/with-options", "to_armored_writer with headers failed", replay());
        }
        return;
    };
    let Ok(d2) = String::from_utf8(buf) else {
        ctx.violation("C16/armor/not-utf8", "armored document is not UTF-8", replay());
        return;
    };
    match rfc::armor::csf_parse(&d2) {
        Err(e) => ctx.violation(
            "C16/framing/reference-rejects/with-options",
            format!("conforming splitter rejects document written with armor headers: {e}"),
            replay(),
        ),
        Ok(p) => {
            let ok = match rfc::armor::armor_parse_strict(&p.sig_armor) {
                Ok(pa) => pa.crc.is_none() && pa.headers.len() == 2 && pa.typ == "PGP SIGNATURE",
                Err(_) => false,
            };
            if !ok || strip_final_cr(&p.text) != strip_final_cr(t) {
                ctx.violation(
                    "C16/framing/with-options-differs",
                    format!("document written with armor headers / without checksum splits differently; t = {}", dbg_str(t)),
                    replay(),
                );
            }
        }
    }
    let r = ctx.guarded("C16/parse", replay, || CleartextSignedMessage::from_string(&d2));
    ctx.eval();
    match r {
        None => {}
        Some(Err(e)) => ctx.violation(
            "C16/roundtrip/parse-error/with-options",
            format!("from_string rejects the document written with armor headers: {e}; t = {}", dbg_str(t)),
            replay(),
        ),
        Some(Ok((m4, hd))) => {
            if m4 != *m2 || hd != h {
                ctx.violation(
                    "C16/roundtrip/with-options-differs",
                    format!("document written with armor headers reads back differently (headers {hd:?}); t = {}", dbg_str(t)),
                    replay(),
                );
            }
        }
    }
}


// ------------------------------------------------------------------------------------------
// family M: messages with several signatures, judged at `verify(key)` / `verify_many`
//
// A message's signature list is a sequence of elements (signer, issuer subpackets, text the
// signature was made over). Every element is a real signature; the text it is over is the
// reference signed form of the message text (T), the empty text, or another text. Whether
// `verify(K)` must succeed follows from the construction alone: it must iff the list holds a
// signature by K over T (wherever it sits), and it must fail iff no signature by K is over T
// (whatever else by K, anonymous or naming K, sits in the list).

#[derive(Clone, Copy, PartialEq, Eq, Hash, Debug)]
enum Iss {
    /// issuer fingerprint (+ key id for v4) of the signer
    Full,
    /// no issuer subpackets at all (they are optional): every key is a candidate
    Anon,
    /// issuer subpackets that name another key than the signer (the other signer of the group)
    NamesOther,
}

#[derive(Clone, Copy, PartialEq, Eq, Hash, Debug)]
enum Over {
    T,
    Empty,
    Other,
}

struct Elem {
    key: usize,
    iss: Iss,
    /// key named by the issuer subpackets
    names: Option<usize>,
    over: Over,
    /// the text this signature is over has the signed form of the message text
    over_t: bool,
    label: String,
    sig: Signature,
    body: Vec<u8>,
    hash_id: u8,
    /// reference digests of this signature over: the text it was made for, the message text, the empty text
    own_digest: Vec<u8>,
    t_digest: Vec<u8>,
    empty_digest: Vec<u8>,
}

struct Group {
    name: &'static str,
    signers: [usize; 2],
    /// a key that made no signature of the list
    bystander: usize,
}

const GROUPS: [Group; 4] = [
    Group { name: "v4-ed25519legacy+v4-ecdsa-p256", signers: [K4, KP], bystander: K4B },
    Group { name: "v4-ed25519legacy+v4-ed25519legacy", signers: [K4, K4B], bystander: KP },
    Group { name: "v6-ed25519+v6-ed25519", signers: [K6, K6B], bystander: K4 },
    Group { name: "v4-ed25519legacy+v6-ed25519", signers: [K4, K6], bystander: KP },
];

const M_HASHES: [HashAlgorithm; 3] = [HashAlgorithm::Sha256, HashAlgorithm::Sha512, HashAlgorithm::Sha3_256];

fn hash_header_name(id: u8) -> Option<&'static str> {
    Some(match id {
        8 => "SHA256",
        9 => "SHA384",
        10 => "SHA512",
        11 => "SHA224",
        12 => "SHA3-256",
        14 => "SHA3-512",
        _ => return None,
    })
}

fn key_name(k: usize) -> &'static str {
    ["v4-ed25519legacy#0", "v6-ed25519#0", "v4-ecdsa-p256#0", "v4-ed25519legacy#1", "v6-ed25519#1"][k]
}

fn is_v6(env: &Env, k: usize) -> bool {
    env.sk[k].primary_key.version() == KeyVersion::V6
}

/// a text whose signed form differs from that of `t` and from the empty text
fn other_text(t: &str) -> String {
    match hash64(&("other", t)) % 3 {
        0 => format!("{t}x"),
        1 => format!("x\n{t}"),
        _ => format!("{t}\ny"),
    }
}

/// The 18 elements of a (text, group): signer x issuer subpackets x text signed. Generator
/// failures (the library does not produce a signature over the intended bytes) are inconclusive.
fn make_elems(ctx: &mut Ctx, env: &Env, t: &str, signed_ref: &str, g: &Group) -> Option<Vec<Elem>> {
    let other_form = rfc::armor::csf_signed_form(&other_text(t));
    if other_form == signed_ref || other_form.is_empty() {
        ctx.inconclusive("harness: no other text for the multi-signature family");
        return None;
    }
    let pw = Password::empty();
    let th = hash64(&("m-hash", t));
    let mut out = vec![];
    for (si, &k) in g.signers.iter().enumerate() {
        for (ii, iss) in [Iss::Full, Iss::Anon, Iss::NamesOther].into_iter().enumerate() {
            for (oi, over) in [Over::T, Over::Empty, Over::Other].into_iter().enumerate() {
                let form: &str = match over {
                    Over::T => signed_ref,
                    Over::Empty => "",
                    Over::Other => &other_form,
                };
                let hash = M_HASHES[((th as usize % 3) + si + ii * 2 + oi) % 3];
                let names = match iss {
                    Iss::Full => Some(k),
                    Iss::Anon => None,
                    Iss::NamesOther => {
                        // the other signer; in the mixed-version group (a v4 signature cannot carry a v6
                        // fingerprint) another key of the signer's version
                        let o = g.signers[1 - si];
                        Some(if is_v6(env, o) == is_v6(env, k) {
                            o
                        } else if is_v6(env, k) {
                            K6B
                        } else {
                            g.bystander
                        })
                    }
                };
                let mut rng = ChaCha8Rng::seed_from_u64(hash64(&(ctx.seed, "c16m", t, g.name, si, ii, oi)));
                let key = &env.sk[k].primary_key;
                let made = (|| -> pgp::errors::Result<SignatureConfig> {
                    let mut c = match key.version() {
                        KeyVersion::V6 => SignatureConfig::v6(&mut rng, SignatureType::Text, key.algorithm(), hash)?,
                        _ => SignatureConfig::v4(SignatureType::Text, key.algorithm(), hash),
                    };
                    c.hashed_subpackets =
                        vec![Subpacket::regular(SubpacketData::SignatureCreationTime(Timestamp::from_secs(1_700_000_000)))?];
                    if let Some(n) = names {
                        let nk = &env.sk[n].primary_key;
                        c.hashed_subpackets.push(Subpacket::regular(SubpacketData::IssuerFingerprint(nk.fingerprint()))?);
                        if nk.version() != KeyVersion::V6 && key.version() != KeyVersion::V6 {
                            c.unhashed_subpackets = vec![Subpacket::regular(SubpacketData::IssuerKeyId(nk.legacy_key_id()))?];
                        }
                    }
                    Ok(c)
                })();
                let signer = RecSigner::new(key);
                let sig = made.and_then(|c| c.sign(&signer, &pw, form.as_bytes()));
                let seen = signer.take();
                let sig = match sig {
                    Ok(s) => s,
                    Err(e) => {
                        ctx.inconclusive(format!("harness: cannot make a signature for the multi-signature family ({}): {e}", g.name));
                        return None;
                    }
                };
                let Ok(body) = sig.to_bytes() else {
                    ctx.inconclusive("signature does not serialise");
                    return None;
                };
                let digests = rfc::sig::parse_sig(&body)
                    .ok()
                    .and_then(|rs| {
                        Some((
                            rs.digest_over(&[form.as_bytes()])?,
                            rs.digest_over(&[signed_ref.as_bytes()])?,
                            rs.digest_over(&[b""])?,
                            rs.typ,
                            rs.hash_alg,
                        ))
                    });
                let Some((own_digest, t_digest, empty_digest, typ, hash_id)) = digests else {
                    ctx.inconclusive("reference cannot parse a generated signature");
                    return None;
                };
                if typ != 1 || seen.len() != 1 || seen[0].digest != own_digest {
                    ctx.inconclusive("harness: generated signature is not over the intended text");
                    return None;
                }
                let label = format!(
                    "{}/{}/{}/hash{}",
                    key_name(k),
                    match iss {
                        Iss::Full => "issuer-self".to_string(),
                        Iss::Anon => "no-issuer".to_string(),
                        Iss::NamesOther => format!("issuer-names-{}", key_name(names.unwrap_or(k))),
                    },
                    match over {
                        Over::T => "over-message-text",
                        Over::Empty => "over-empty-text",
                        Over::Other => "over-other-text",
                    },
                    u8::from(hash)
                );
                out.push(Elem {
                    key: k,
                    iss,
                    names,
                    over,
                    over_t: form == signed_ref,
                    label,
                    sig,
                    body,
                    hash_id,
                    own_digest,
                    t_digest,
                    empty_digest,
                });
            }
        }
    }
    Some(out)
}

/// Reference-built cleartext document: header, Hash headers, blank line, dash-escaped text, line
/// ending, signature armor around the framed signature packets in list order.
fn reference_document(t: &str, elems: &[&Elem]) -> Option<String> {
    let mut doc = String::from(BEGIN_MSG);
    doc.push('\n');
    let mut ids: Vec<u8> = vec![];
    for e in elems {
        let id = e.hash_id;
        if !ids.contains(&id) {
            ids.push(id);
        }
    }
    for id in ids {
        doc.push_str("Hash: ");
        doc.push_str(hash_header_name(id)?);
        doc.push('\n');
    }
    doc.push('\n');
    doc.push_str(&rfc::armor::dash_escape(t));
    doc.push('\n');
    let mut pk = vec![];
    for e in elems {
        pk.extend(rfc::frame::frame(2, &e.body, &rfc::frame::LenForm::NewMin)?);
    }
    doc.push_str(&rfc::armor::armor_encode("PGP SIGNATURE", &[], &pk, true, "\n"));
    Some(doc)
}

#[derive(Clone, Copy, PartialEq, Eq, Debug)]
enum Expect {
    MustVerify,
    MustFail,
    Unjudged,
}

/// Does the signature get as far as hashing when it is checked against key `k` (version
/// alignment, and issuer subpackets absent or naming `k`)?
fn is_candidate(env: &Env, e: &Elem, k: usize) -> bool {
    is_v6(env, e.key) == is_v6(env, k) && (e.names.is_none() || e.names == Some(k))
}

/// (expectation for `verify(k)`, class of what sits in front of the deciding signature)
fn expectation(env: &Env, list: &[&Elem], k: usize) -> (Expect, &'static str) {
    let good = list.iter().position(|e| e.key == k && e.over_t && e.iss != Iss::NamesOther);
    let maybe = list.iter().any(|e| e.key == k && e.over_t);
    let upto = good.unwrap_or(list.len());
    let ahead = if list[..upto].iter().any(|e| is_candidate(env, e, k)) {
        "behind-other-candidate-signatures"
    } else {
        "no-candidate-signature-ahead"
    };
    match (good, maybe) {
        (Some(_), _) => (Expect::MustVerify, ahead),
        (None, true) => (Expect::Unjudged, ahead),
        (None, false) => (Expect::MustFail, ahead),
    }
}

/// Judge `verify(k)` of one message for every key of the group and the bystander.
#[allow(clippy::too_many_arguments)]
fn judge_multi(
    ctx: &mut Ctx,
    env: &Env,
    g: &Group,
    t: &str,
    list: &[&Elem],
    stage: &'static str,
    msg: &CleartextSignedMessage,
    doc: Option<&str>,
) {
    let labels: Vec<&str> = list.iter().map(|e| e.label.as_str()).collect();
    let replay = || -> Value {
        json!({"family": "M", "t": hexs(t.as_bytes()), "t_str": dbg_str(t), "group": g.name, "signatures": labels,
               "stage": stage, "document": doc.map(|d| hexs(d.as_bytes()))})
    };
    for k in [g.signers[0], g.signers[1], g.bystander] {
        let (exp, ahead) = expectation(env, list, k);
        let ver = RecVerifier::new(&env.pk[k].primary_key);
        let r = ctx.guarded("C16/verify", replay, || msg.verify(&ver).map(|s| s.clone()).map_err(|e| e.to_string()));
        ctx.eval();
        let Some(r) = r else { continue };
        let seen = ver.take();
        // what the key was asked to check, in words
        let hashed: Vec<&str> = seen
            .iter()
            .map(|d| {
                if list.iter().any(|e| e.t_digest == d.digest) {
                    "the message text"
                } else if list.iter().any(|e| e.empty_digest == d.digest) {
                    "the EMPTY text"
                } else if list.iter().any(|e| e.own_digest == d.digest) {
                    "another text"
                } else {
                    "unknown bytes"
                }
            })
            .collect();
        match exp {
            Expect::Unjudged => ctx.tally("multi.verify.unjudged", 1),
            Expect::MustVerify => {
                ctx.tally("multi.verify.must-verify", 1);
                ctx.seen("multi-sig", format!("must-verify/{ahead}"));
                match r {
                    Err(e) => ctx.violation(
                        format!("C16/verify/signer-rejected/multi/{ahead}"),
                        format!(
                            "{stage}: verify({}) fails ({e}) although the message carries that key's signature over its text; t = {}; signatures {labels:?}; digests handed to the key were over: {hashed:?}",
                            key_name(k),
                            dbg_str(t)
                        ),
                        replay(),
                    ),
                    Ok(s) => {
                        if !list.iter().any(|e| e.sig == s && e.key == k && e.over_t) {
                            ctx.violation(
                                "C16/verify/returns-foreign-signature/multi",
                                format!(
                                    "{stage}: verify({}) returns a signature that is not that key's signature over the text; t = {}; signatures {labels:?}",
                                    key_name(k),
                                    dbg_str(t)
                                ),
                                replay(),
                            );
                        }
                    }
                }
            }
            Expect::MustFail => {
                ctx.tally("multi.verify.must-fail", 1);
                let what = if list.iter().any(|e| e.key == k && e.over == Over::Empty && !e.over_t) {
                    "signer-signed-empty-text"
                } else if list.iter().any(|e| e.key == k) {
                    "signer-signed-other-text"
                } else {
                    "key-signed-nothing"
                };
                ctx.seen("multi-sig", format!("must-fail/{what}/{ahead}"));
                if let Ok(s) = r {
                    let which = list.iter().find(|e| e.sig == s);
                    let class = match which {
                        Some(e) if e.key != k => "signature-of-another-key",
                        Some(e) if e.over == Over::Empty => "signature-over-empty-text",
                        Some(_) => "signature-over-other-text",
                        None => "unlisted-signature",
                    };
                    ctx.violation(
                        format!("C16/binding/other-text-signature-accepted/multi/{class}/{ahead}"),
                        format!(
                            "{stage}: verify({}) succeeds (returned {:?}) although no signature of that key is over the text t = {}; signatures {labels:?}; digests handed to the key were over: {hashed:?}",
                            key_name(k),
                            which.map(|e| e.label.as_str()),
                            dbg_str(t)
                        ),
                        replay(),
                    );
                }
            }
        }
    }
}

/// One message of family M: `list` indexes `elems`. Stages: the fresh `new_many` message, the
/// reference-built document read with `from_string`, and (for `lib_roundtrip`) the library-written
/// document read back.
#[allow(clippy::too_many_arguments)]
fn check_multi(
    ctx: &mut Ctx,
    env: &Env,
    g: &Group,
    t: &str,
    elems: &[Elem],
    idx: &[usize],
    lib_roundtrip: bool,
    per_signature: bool,
) {
    let list: Vec<&Elem> = idx.iter().map(|i| &elems[*i]).collect();
    let labels: Vec<&str> = list.iter().map(|e| e.label.as_str()).collect();
    let replay = || -> Value {
        json!({"family": "M", "t": hexs(t.as_bytes()), "t_str": dbg_str(t), "group": g.name, "signatures": labels})
    };
    ctx.cover(&("multi", t, g.name, idx));
    ctx.seen("multi-sig", format!("group/{}", g.name));
    ctx.seen("multi-sig", format!("signatures/{}", idx.len().min(5)));
    for (i, e) in list.iter().enumerate() {
        if list[..i].iter().any(|p| p.key == e.key) {
            ctx.seen("multi-sig", "several-signatures-of-one-key");
        }
        match e.iss {
            Iss::Anon => ctx.seen("multi-sig", "signature-without-issuer-subpackets"),
            Iss::NamesOther => ctx.seen("multi-sig", "signature-naming-another-key"),
            Iss::Full => {}
        }
    }
    ctx.tally("multi.messages", 1);

    // ---- fresh message
    let sigs: Vec<Signature> = list.iter().map(|e| e.sig.clone()).collect();
    let Some(m) = ctx.guarded("C16/sign", replay, || CleartextSignedMessage::new_many(t, |_| Ok(sigs.clone()))) else { return };
    ctx.eval();
    let m = match m {
        Ok(m) => m,
        Err(e) => {
            ctx.violation("C16/sign/error/new_many/multi", format!("new_many with {} signatures failed: {e}", sigs.len()), replay());
            return;
        }
    };
    if m.signatures() != &sigs[..] {
        ctx.violation("C16/sign/signature-list-changed/new_many", format!("new_many changed the signature list; signatures {labels:?}"), replay());
        return;
    }
    judge_multi(ctx, env, g, t, &list, "fresh new_many message", &m, None);

    // ---- reference-built document
    let Some(doc) = reference_document(t, &list) else {
        ctx.inconclusive("harness: cannot build the reference document");
        return;
    };
    let Some(r) = ctx.guarded("C16/parse", replay, || CleartextSignedMessage::from_string(&doc)) else { return };
    ctx.eval();
    let dreplay = || -> Value {
        let mut r = replay();
        r["document"] = json!(hexs(doc.as_bytes()));
        r
    };
    let m3 = match r {
        Ok((m3, _)) => m3,
        Err(e) => {
            ctx.violation(
                "C16/roundtrip/parse-error/reference-document-multi",
                format!("from_string rejects a reference-built document with {} signatures: {e}; t = {}", list.len(), dbg_str(t)),
                dreplay(),
            );
            return;
        }
    };
    if m3.signatures() != &sigs[..] || unescape(m3.text()).as_deref() != Ok(t) {
        ctx.violation(
            "C16/roundtrip/reference-document-reads-differently/multi",
            format!("reference-built document reads back as text {} with {} signatures; t = {}", dbg_str(m3.text()), m3.signatures().len(), dbg_str(t)),
            dreplay(),
        );
        return;
    }
    judge_multi(ctx, env, g, t, &list, "reference-built document", &m3, Some(&doc));

    // ---- every signature against its own key, through verify_many
    if per_signature {
        let res: RefCell<Vec<bool>> = RefCell::new(vec![]);
        let r = ctx.guarded("C16/verify", dreplay, || {
            m3.verify_many(|i, sig, data| {
                let ok = list.get(i).is_some_and(|e| sig.verify(&env.pk[e.key].primary_key, data).is_ok());
                res.borrow_mut().push(ok);
                Ok(())
            })
            .is_ok()
        });
        ctx.evals_add(list.len() as u64);
        let res = res.into_inner();
        if r.is_some() {
            for (i, e) in list.iter().enumerate() {
                let got = res.get(i).copied();
                if e.over_t && e.iss != Iss::NamesOther && got != Some(true) {
                    ctx.violation(
                        "C16/verify/signer-rejected/multi/verify_many",
                        format!("signature #{i} ({}) over the message text does not verify through verify_many; t = {}; signatures {labels:?}", e.label, dbg_str(t)),
                        dreplay(),
                    );
                }
                if !e.over_t && got == Some(true) {
                    ctx.violation(
                        "C16/binding/other-text-signature-accepted/multi/verify_many",
                        format!("signature #{i} ({}) is not over the message text but verifies through verify_many; t = {}; signatures {labels:?}", e.label, dbg_str(t)),
                        dreplay(),
                    );
                }
            }
        }
    }

    // ---- library-written document
    if lib_roundtrip {
        let Some(Ok(ldoc)) = ctx.guarded("C16/armor", replay, || m.to_armored_string(ArmorOptions::default())) else {
            ctx.violation("C16/armor/error/new_many", "to_armored_string failed for a multi-signature message", replay());
            return;
        };
        ctx.eval();
        let Some(r) = ctx.guarded("C16/parse", replay, || CleartextSignedMessage::from_string(&ldoc)) else { return };
        ctx.eval();
        match r {
            Err(e) => ctx.violation(
                "C16/roundtrip/parse-error/other",
                format!("from_string rejects the emitted multi-signature document: {e}; t = {}", dbg_str(t)),
                replay(),
            ),
            Ok((m2, _)) => {
                if m2.signatures() != &sigs[..] {
                    ctx.violation("C16/roundtrip/signatures-changed", format!("signatures differ after the round trip; t = {}", dbg_str(t)), replay());
                    return;
                }
                judge_multi(ctx, env, g, t, &list, "library-written document read back", &m2, Some(&ldoc));
            }
        }
    }
}

/// `n` sampled signature lists (2..=5 of the 18 elements, repetitions allowed) for one text
fn multi_sampled(ctx: &mut Ctx, env: &Env, t: &str, gi: usize, n: usize) {
    let g = &GROUPS[gi];
    let signed_ref = rfc::armor::csf_signed_form(t);
    let Some(elems) = make_elems(ctx, env, t, &signed_ref, g) else { return };
    for c in text_classes(t) {
        ctx.seen("multi-text-class", c);
    }
    let mut rng = ChaCha8Rng::seed_from_u64(hash64(&(ctx.seed, "c16m-lists", t, gi)));
    for j in 0..n {
        let len = 2 + j % 4;
        let idx: Vec<usize> = (0..len).map(|_| rng.gen_range(0..18usize)).collect();
        check_multi(ctx, env, g, t, &elems, &idx, j % 3 == 0, j % 2 == 0);
    }
}

/// Is the text judged in family M? (Texts of the two classes whose reading is a known finding /
/// not settled are left to the other families.)
fn multi_text_ok(t: &str) -> bool {
    !t.ends_with('\r') && !cr_blanks_lf(t)
}

// ------------------------------------------------------------------------------------------
// workload

/// all distinct lines made of at most `k` tokens
fn lines_of(k: usize) -> Vec<String> {
    let mut v: Vec<String> = vec![String::new()];
    for _ in 0..k {
        let mut n = vec![];
        for l in &v {
            for t in TOKENS {
                n.push(format!("{l}{t}"));
            }
        }
        v = n;
    }
    v.sort();
    v.dedup();
    v
}

fn assemble(lines: &[&str], sep: &str, final_nl: bool) -> String {
    let mut s = lines.join(sep);
    if final_nl {
        s.push_str(sep);
    }
    s
}

pub fn run(ctx: &mut Ctx) {
    // A panic in the monitor's own code (library calls are guarded separately) is a harness fault:
    // say where, and end the shard without a report so that the driver marks the run inconclusive
    // instead of silently losing the rest of this shard's cases.
    if let Err(p) = crate::core::guard(|| run_inner(ctx)) {
        println!("C16 harness fault: panic in the monitor: {} at {}", p.msg, p.loc);
        std::process::exit(101);
    }
}

fn run_inner(ctx: &mut Ctx) {
    describe_case("C16 key generation");
    let env = Env::new();
    let l1 = lines_of(1);
    let l2 = lines_of(2);
    ctx.extra.insert(
        "grammar".into(),
        json!({"tokens": TOKENS, "lines_of_le1_token": l1.len(), "lines_of_le2_tokens": l2.len(),
               "separators": ["LF", "CRLF", "lone CR"], "final_line_ending": [false, true]}),
    );
    let ncfg = env.cfgs.len();
    let is_narrow = |x: &String| l1.binary_search(x).is_ok();

    // Family A runs in recorded-digest mode (no public-key operation; the digest reaching the
    // signing / verifying primitive is compared with the reference digest). Configuration and
    // whether the binding edits are applied are a fixed function of the text.
    let edit_every: u64 = ctx.qt(6, 3);
    let pick = |t: &str| -> (usize, Opt) {
        let h = hash64(&("pick", t));
        (
            (h / 7 % ncfg as u64) as usize,
            Opt { dry: true, edit_positions: if h % edit_every == 0 { 10 } else { 0 }, api_variants: h % 97 == 0, cover: true },
        )
    };
    let styles = |lines: &[&str], f: &mut dyn FnMut(String)| {
        for sep in SEPS {
            for fin in [false, true] {
                f(assemble(lines, sep, fin));
            }
        }
    };

    // ---- A1: the empty text and every single line of <= 2 tokens --------------------------------
    if ctx.mine() {
        describe_case("C16 A1 empty text and single lines");
        for t in ["- x \t\n-----BEGIN PGP SIGNATURE-----\r\nFrom a\n", "a\r", "\u{e9} \r\n\n--"] {
            if let Ok(b) = build(&env, &env.cfgs[0], false, t, ChaCha8Rng::seed_from_u64(1)) {
                ctx.sample(json!({
                    "family": "A", "t": t, "cfg": env.cfgs[0].name,
                    "rfc_signed_form": rfc::armor::csf_signed_form(t),
                    "signed_text()": b.msg.signed_text(),
                    "document": b.msg.to_armored_string(ArmorOptions::default()).unwrap_or_default(),
                }));
            }
        }
        for cfg in 0..ncfg {
            check_text(ctx, &env, "A1", "", cfg, Opt { dry: true, edit_positions: 8, api_variants: true, cover: true });
        }
        for l in &l2 {
            describe_case(&format!("C16 A1 line {l:?}"));
            styles(&[l], &mut |t| {
                let (cfg, mut o) = pick(&t);
                o.edit_positions = 12;
                check_text(ctx, &env, "A1", &t, cfg, o);
            });
        }
    }
    // ---- A2: two lines of <= 2 tokens each ------------------------------------------------------
    for a in &l2 {
        if !ctx.mine() {
            continue;
        }
        describe_case(&format!("C16 A2 first line {a:?}"));
        for b in &l2 {
            describe_case(&format!("C16 A2 lines {a:?} {b:?}"));
            styles(&[a, b], &mut |t| {
                let (cfg, o) = pick(&t);
                check_text(ctx, &env, "A2", &t, cfg, o);
            });
        }
    }
    // ---- A3: three lines, at most one of them with 2 tokens (the others <= 1 token) -------------
    for wide_pos in [usize::MAX, 0, 1, 2] {
        let set = |p: usize| -> &Vec<String> {
            if p == wide_pos {
                &l2
            } else {
                &l1
            }
        };
        for a in set(0) {
            if !ctx.mine() {
                continue;
            }
            describe_case(&format!("C16 A3 wide line at {wide_pos} first line {a:?}"));
            for b in set(1) {
                describe_case(&format!("C16 A3 wide line at {wide_pos}, lines {a:?} {b:?} *"));
                for c in set(2) {
                    if wide_pos != usize::MAX && is_narrow([a, b, c][wide_pos]) {
                        continue; // enumerated by the all-narrow pass
                    }
                    styles(&[a, b, c], &mut |t| {
                        let (cfg, o) = pick(&t);
                        check_text(ctx, &env, "A3", &t, cfg, o);
                    });
                }
            }
        }
    }
    // ---- A5: four (quick + thorough) and five (thorough) lines of <= 1 token --------------------
    for nl in 4..=ctx.qt(4usize, 5usize) {
        for a in &l1 {
            for b in &l1 {
                if !ctx.mine() {
                    continue;
                }
                describe_case(&format!("C16 A5 {nl} lines, first lines {a:?} {b:?}"));
                ctx.cover(&("A5-group", nl, a, b));
                let rest = l1.len().pow(nl as u32 - 2);
                for idx in 0..rest {
                    if idx % 14 == 0 {
                        describe_case(&format!("C16 A5 {nl} lines, first lines {a:?} {b:?}, rest #{idx}"));
                    }
                    let mut lines: Vec<&str> = vec![a, b];
                    let mut x = idx;
                    for _ in 2..nl {
                        lines.push(&l1[x % l1.len()]);
                        x /= l1.len();
                    }
                    styles(&lines, &mut |t| {
                        let h = hash64(&("pick", &t));
                        let o = Opt { dry: true, edit_positions: if h % 64 == 0 { 8 } else { 0 }, api_variants: false, cover: nl == 4 };
                        check_text(ctx, &env, "A5", &t, (h / 7 % ncfg as u64) as usize, o);
                    });
                }
            }
        }
    }
    // ---- A4 (thorough): three lines of <= 2 tokens each, the rest of the complete space ---------
    if !ctx.quick() {
        for a in &l2 {
            for b in &l2 {
                if !ctx.mine() {
                    continue;
                }
                describe_case(&format!("C16 A4 first lines {a:?} {b:?}"));
                ctx.cover(&("A4-group", a, b));
                for (ci, c) in l2.iter().enumerate() {
                    if ci % 16 == 0 {
                        describe_case(&format!("C16 A4 lines {a:?} {b:?} #{ci}.."));
                    }
                    let wide = [a, b, c].iter().filter(|x| !is_narrow(x)).count();
                    if wide <= 1 {
                        continue; // in A3
                    }
                    styles(&[a, b, c], &mut |t| {
                        let h = hash64(&("pick", &t));
                        let o = Opt { dry: true, edit_positions: if h % 512 == 0 { 6 } else { 0 }, api_variants: false, cover: false };
                        check_text(ctx, &env, "A4", &t, (h / 7 % ncfg as u64) as usize, o);
                    });
                }
            }
        }
    }

    // ---- family C: real public-key crypto, every configuration on every text --------------------
    for nl in 1..=ctx.qt(2usize, 3usize) {
        let total = l1.len().pow(nl as u32);
        for idx in 0..total {
            if !ctx.mine() {
                continue;
            }
            let mut lines: Vec<&str> = vec![];
            let mut x = idx;
            for _ in 0..nl {
                lines.push(&l1[x % l1.len()]);
                x /= l1.len();
            }
            describe_case(&format!("C16 C lines {lines:?}"));
            styles(&lines, &mut |t| {
                let h = hash64(&("pickC", &t));
                for cfg in 0..ncfg {
                    describe_case(&format!("C16 C text {} cfg {cfg}", dbg_str(&t)));
                    let o = Opt { dry: false, edit_positions: if nl <= 2 { 8 } else { 4 }, api_variants: h % 13 == 0, cover: true };
                    check_text(ctx, &env, "C", &t, cfg, o);
                }
            });
        }
    }

    // ---- family W: line ends placed around the 512-octet windows of the canonicalising reader ---------
    // (first line of 505..=516 and 1017..=1028 octets, each line-end style, followed by short or further long
    // lines; the canonical CR LF form then has its CR / LF on either side of every window edge)
    {
        let ends: [&str; 4] = ["\n", "\r\n", "\r", "\r\r\n"];
        let mut wi = 0u64;
        for base in [512usize, 1024, 1536] {
            for d in -7i64..=4 {
                for (ei, e) in ends.iter().enumerate() {
                    for tail in 0..3usize {
                        wi += 1;
                        if !ctx.mine() {
                            continue;
                        }
                        let l = (base as i64 + d) as usize;
                        let mut t = String::with_capacity(l + 600);
                        for k in 0..l {
                            t.push((b'a' + (k % 26) as u8) as char);
                        }
                        t.push_str(e);
                        match tail {
                            0 => t.push_str("end"),
                            1 => {
                                // a second long line so that later edges are hit with shifted alignment
                                for k in 0..(509 + ei) {
                                    t.push((b'A' + (k % 26) as u8) as char);
                                }
                                t.push_str(e);
                                t.push_str("- dash\n");
                            }
                            _ => {}
                        }
                        describe_case(&format!("C16 W first line {l} end {ei} tail {tail}"));
                        let cfg = (wi % ncfg as u64) as usize;
                        let o = Opt { dry: wi % 4 != 0, edit_positions: 4, api_variants: wi % 8 == 0, cover: true };
                        check_text(ctx, &env, "W", &t, cfg, o);
                    }
                }
            }
        }
    }


    // ---- family M: several signatures per message ------------------------------------------------
    // M1: the empty text and single lines of <= 1 token; per (text, group) every list of one and of
    //     two of the 18 elements (signer x issuer subpackets x text signed) in both orders, and sampled
    //     lists of three to five; one case per first element.
    // M2: two-line texts and random texts with sampled lists.
    {
        let mut m1: Vec<String> = vec![String::new()];
        for l in &l1 {
            for sep in ["\n", "\r\n"] {
                for fin in [false, true] {
                    let t = assemble(&[l], sep, fin);
                    if multi_text_ok(&t) && !m1.contains(&t) {
                        m1.push(t);
                    }
                }
            }
        }
        m1.push("a \t\r\n- b\n\u{e9}\t \n".to_string());
        let n_long: usize = ctx.qt(6, 40);
        for (ti, t) in m1.iter().enumerate() {
            // the empty text and the three-line text go through every group, the others through one
            let every = ti == 0 || ti == m1.len() - 1;
            for (gi, g) in GROUPS.iter().enumerate() {
                let take = every || (ti + gi) % GROUPS.len() == 0 || (!ctx.quick() && (ti + gi) % 2 == 0);
                if !take {
                    continue;
                }
                for a in 0..18usize {
                    if !ctx.mine() {
                        continue;
                    }
                    describe_case(&format!("C16 M1 text {} group {} first element {a}", dbg_str(t), g.name));
                    let signed_ref = rfc::armor::csf_signed_form(t);
                    let Some(elems) = make_elems(ctx, &env, t, &signed_ref, g) else { continue };
                    for c in text_classes(t) {
                        ctx.seen("multi-text-class", c);
                    }
                    check_multi(ctx, &env, g, t, &elems, &[a], true, true);
                    for b in 0..18usize {
                        if b != a {
                            check_multi(ctx, &env, g, t, &elems, &[a, b], (a + b) % 4 == 0, (a + b) % 3 == 0);
                        }
                    }
                    let mut rng = ctx.rng("M1", hash64(&(t, gi, a)));
                    for j in 0..n_long {
                        let n = 3 + j % 3;
                        let mut idx = vec![a];
                        for _ in 1..n {
                            idx.push(rng.gen_range(0..18usize));
                        }
                        check_multi(ctx, &env, g, t, &elems, &idx, j % 4 == 0, j % 3 == 0);
                    }
                }
            }
        }
        // M2a: two lines of <= 1 token, each text with one group
        let mut mi = 0u64;
        for a in &l1 {
            for b in &l1 {
                mi += 1;
                if !ctx.mine() {
                    continue;
                }
                for (si, sep) in ["\n", "\r\n"].into_iter().enumerate() {
                    let t = assemble(&[a, b], sep, (mi + si as u64) % 2 == 0);
                    if !multi_text_ok(&t) {
                        continue;
                    }
                    describe_case(&format!("C16 M2 text {}", dbg_str(&t)));
                    multi_sampled(ctx, &env, &t, (mi as usize + si) % GROUPS.len(), ctx.qt(8, 40));
                }
            }
        }
        // M2b: random texts
        let ngroups = ctx.qt(60u64, 1500u64);
        for gidx in 0..ngroups {
            if !ctx.mine() {
                continue;
            }
            for j in 0..10u64 {
                let i = gidx * 10 + j;
                let mut rng = ctx.rng("M2", i);
                let t = random_text(&mut rng);
                if !multi_text_ok(&t) {
                    continue;
                }
                describe_case(&format!("C16 M2 random text #{i}"));
                multi_sampled(ctx, &env, &t, (i % GROUPS.len() as u64) as usize, ctx.qt(6, 12));
            }
        }
    }

    // ---- family B: larger random texts (0..8 lines, mixed line endings), both modes -------------
    let ngroups = ctx.qt(600u64, 10_000u64);
    for g in 0..ngroups {
        if !ctx.mine() {
            continue;
        }
        for j in 0..20u64 {
            let i = g * 20 + j;
            let mut rng = ctx.rng("B", i);
            let t = random_text(&mut rng);
            describe_case(&format!("C16 B random text #{i}"));
            let cfg = (i % ncfg as u64) as usize;
            let o = Opt { dry: i % 3 != 0, edit_positions: 16, api_variants: i % 5 == 0, cover: true };
            check_text(ctx, &env, "B", &t, cfg, o);
            if i < 3 {
                ctx.sample(json!({"family": "B", "t": dbg_str(&t), "cfg": env.cfgs[cfg].name, "classes": text_classes(&t)}));
            }
        }
    }

    ctx.tally("cpu_ms_all_shards", (crate::core::thread_cpu_s() * 1000.0) as u64);
    ctx.exhaustive = true;
}

fn random_text(rng: &mut ChaCha8Rng) -> String {
    let nl = rng.gen_range(0..=8usize);
    let mut s = String::new();
    for i in 0..nl {
        let ntok = rng.gen_range(0..=4usize);
        for _ in 0..ntok {
            match rng.gen_range(0..10) {
                0 => {
                    for _ in 0..rng.gen_range(1..6) {
                        s.push((b'a' + rng.gen_range(0..26u8)) as char);
                    }
                }
                1 => s.push_str(["\u{e9}", "\u{2028}", "\u{1F600}", "\u{85}", "\u{0c}", "\u{0b}"][rng.gen_range(0..6)]),
                2 => s.push('\r'),
                _ => s.push_str(TOKENS[rng.gen_range(0..TOKENS.len())]),
            }
        }
        let last = i == nl - 1;
        let e = rng.gen_range(0..10);
        if last {
            s.push_str(match e {
                0..=3 => "",
                4..=6 => "\n",
                7..=8 => "\r\n",
                _ => "\r",
            });
        } else {
            s.push_str(match e {
                0..=4 => "\n",
                5..=7 => "\r\n",
                8 => "\r\r\n",
                _ => "\r",
            });
        }
    }
    s
}
