//! C03 — ciphertext integrity: a modified SEIPD (v1 / v2) container never decrypts cleanly.
//!
//! Messages are built with a known session key (library builder, cross-checked with the
//! independent reference decryptor, plus some containers made by the reference encryptor).
//! Only the SEIPD packet is tampered: every single-bit flip, every other value of the one-octet
//! header fields, truncation at every offset (re-framed and raw), appended bytes inside the
//! container, AEAD chunk drop / duplicate / permute / tag swaps, CFB block splices, header
//! (tag / declared length) changes. The tampered message is decrypted with the RIGHT session key
//! through `Message::decrypt_with_session_key` / `decrypt_the_ring` (SEIPDv1 read modes) and
//! through `pgp::packet::StreamDecryptor::{v1,v2}` directly, and drained with every consumer
//! pattern. Required: an `Err` before the end of the stream; released bytes empty (SEIPDv1
//! CheckFirst) or a prefix of the true plaintext (SEIPDv2).
//!
//! "Composed" bases add the message-layer dimension: the decrypted stream continues behind the inner
//! message (Padding / Marker / unknown packets over several AEAD chunks resp. more than one CFB
//! buffer; literal, compressed and one-pass-signed inner messages) and the SEIPD packet sits in
//! every outer message form (Marker / Padding / unknown packets and SKESKs around it). The
//! decryptors authenticate only what is pulled through them, so for these the error has to come
//! from the message layer walking the rest of the container.

use std::borrow::Cow;
use std::collections::{BTreeMap, BTreeSet};
use std::io::{self, BufRead, Read};

use pgp::composed::{DecryptionOptions, Message, MessageBuilder, PlainSessionKey, TheRing};
use pgp::crypto::aead::{AeadAlgorithm, ChunkSize};
use pgp::crypto::sym::SymmetricKeyAlgorithm;
use pgp::packet::{StreamDecryptor, SymEncryptedProtectedDataConfig};
use pgp::types::{Password, Seipdv1ReadMode};
use rand::{Rng, RngCore, SeedableRng};
use rand_chacha::ChaCha8Rng;
use serde_json::json;

use crate::core::{self, describe_case, hexs, Ctx};
use crate::hooks::{self, Ev};
use crate::rfc;
use crate::rfc::frame::LenForm;
use crate::shim::{drain, Consume, Drained, Sched};

// ------------------------------------------------------------------------------------------
// configurations and base messages

#[derive(Clone, Copy, PartialEq, Eq, Debug, Hash)]
enum Cfg {
    V1 { alg: u8 },
    V2 { sym: u8, aead: u8, co: u8 },
}

impl Cfg {
    fn fam(&self) -> &'static str {
        match self {
            Cfg::V1 { .. } => "v1",
            Cfg::V2 { .. } => "v2",
        }
    }
    fn label(&self) -> String {
        match self {
            Cfg::V1 { alg } => format!("v1-{}", sym_name(*alg)),
            Cfg::V2 { sym, aead, co } => format!(
                "v2-{}-{}-c{}",
                sym_name(*sym),
                ["?", "eax", "ocb", "gcm"][(*aead as usize).min(3)],
                64usize << *co
            ),
        }
    }
    fn key_len(&self) -> usize {
        match self {
            Cfg::V1 { alg } => rfc::sym::key_size(*alg).unwrap_or(16),
            Cfg::V2 { sym, .. } => rfc::sym::key_size(*sym).unwrap_or(16),
        }
    }
    fn chunk(&self) -> usize {
        match self {
            Cfg::V1 { .. } => 0,
            Cfg::V2 { co, .. } => 64usize << *co,
        }
    }
}

fn sym_name(a: u8) -> &'static str {
    match a {
        1 => "idea",
        2 => "3des",
        3 => "cast5",
        4 => "blowfish",
        7 => "aes128",
        8 => "aes192",
        9 => "aes256",
        10 => "twofish",
        11 => "camellia128",
        12 => "camellia192",
        13 => "camellia256",
        _ => "?",
    }
}

/// SEIPDv1 read modes (for v2 only `Default` is used: the mode does not apply)
#[derive(Clone, Copy, PartialEq, Eq, Debug, Hash)]
enum Mode {
    /// `decrypt_with_session_key`, i.e. CheckFirst with the default 1 GiB limit
    Default,
    /// CheckFirst with `max_message_size` = exactly the ciphertext length of the untampered message
    CheckFirstExact,
    Streaming,
}

impl Mode {
    fn name(&self) -> &'static str {
        match self {
            Mode::Default => "checkfirst-default",
            Mode::CheckFirstExact => "checkfirst-exact-limit",
            Mode::Streaming => "streaming",
        }
    }
    fn check_first(&self) -> bool {
        !matches!(self, Mode::Streaming)
    }
}

#[derive(Clone, Copy, PartialEq, Eq, Debug, Hash)]
enum Framing {
    Fixed,
    Partial,
    /// reference-built container of an arbitrary inner stream; StreamDecryptor level only
    DirectOnly,
}

struct Base {
    id: u32,
    cfg: Cfg,
    framing: Framing,
    key: Vec<u8>,
    payload: Vec<u8>,
    /// the whole message (= exactly one SEIPD packet)
    msg: Vec<u8>,
    /// SEIPD packet body (version octet first)
    body: Vec<u8>,
    /// msg.len() - body.len() for fixed framing
    hdr_len: usize,
    /// true inner packet stream (reference decryption)
    inner: Vec<u8>,
    /// structural regions of `body`: (start, end, name)
    regions: Vec<(usize, usize, &'static str)>,
    /// v2: byte ranges of the chunk records (ciphertext+tag) and of the final tag
    chunks: Vec<(usize, usize)>,
    size_class: String,
    /// set when the independent reference could not read the untampered container
    ref_note: Option<String>,
    /// composed bases: the packets of the message in front of / behind the SEIPD packet (never tampered)
    pre: Vec<u8>,
    post: Vec<u8>,
    /// composed bases: names of the outer message form and of the form of the decrypted stream
    forms: Option<(&'static str, &'static str)>,
    /// an SKESK for this password is among the leading packets
    password: Option<String>,
    /// offset in `body` of the first ciphertext octet that carries plaintext behind the inner message
    tail_start: Option<usize>,
}

impl Base {
    fn fam(&self) -> &'static str {
        self.cfg.fam()
    }
    fn session_key(&self) -> PlainSessionKey {
        match self.cfg {
            Cfg::V1 { alg } => PlainSessionKey::V3_4 {
                sym_alg: SymmetricKeyAlgorithm::from(alg),
                key: self.key.clone().into(),
            },
            Cfg::V2 { .. } => PlainSessionKey::V6 {
                key: self.key.clone().into(),
            },
        }
    }
    fn lib_mode(&self, mode: Mode) -> Seipdv1ReadMode {
        match mode {
            Mode::Default => Seipdv1ReadMode::default(),
            Mode::CheckFirstExact => {
                // the limit counts the octets behind the CFB prefix: data + MDC of the untampered message
                let prefix = match self.cfg {
                    Cfg::V1 { alg } => SymmetricKeyAlgorithm::from(alg).block_size() + 2,
                    Cfg::V2 { .. } => 0,
                };
                Seipdv1ReadMode::CheckFirst {
                    max_message_size: self.body.len().saturating_sub(1 + prefix),
                }
            }
            Mode::Streaming => Seipdv1ReadMode::Streaming,
        }
    }
    fn label(&self) -> String {
        match self.forms {
            None => format!("{}/{}/{:?}/id{}", self.cfg.label(), self.size_class, self.framing, self.id),
            Some((o, i)) => format!("{}/{}/{:?}/id{}/outer[{}]/inner[{}]", self.cfg.label(), self.size_class, self.framing, self.id, o, i),
        }
    }
    fn composed(&self) -> bool {
        self.forms.is_some()
    }
    /// the whole message around a (tampered) SEIPD packet; `cut`: the byte stream ends with `pkt`
    fn wrap(&self, pkt: &[u8], cut: bool) -> Vec<u8> {
        let mut v = Vec::with_capacity(self.pre.len() + pkt.len() + self.post.len());
        v.extend_from_slice(&self.pre);
        v.extend_from_slice(pkt);
        if !cut {
            v.extend_from_slice(&self.post);
        }
        v
    }
    fn mode_name(&self, mode: Mode) -> &'static str {
        match self.cfg {
            Cfg::V1 { .. } => mode.name(),
            Cfg::V2 { .. } => "seipdv2",
        }
    }
    fn region_of(&self, off: usize) -> &'static str {
        for (s, e, n) in &self.regions {
            if off >= *s && off < *e {
                return n;
            }
        }
        "?"
    }
    fn modes(&self) -> &'static [Mode] {
        match self.cfg {
            Cfg::V1 { .. } => &[Mode::Default, Mode::CheckFirstExact, Mode::Streaming],
            Cfg::V2 { .. } => &[Mode::Default],
        }
    }
}

/// payload length such that the literal packet (empty name) has total length `t`
fn payload_for_inner(t: usize) -> Option<usize> {
    if t >= 8 && t - 8 + 6 < 192 {
        return Some(t - 8);
    }
    if t >= 9 && (192..8384).contains(&(t - 9 + 6)) {
        return Some(t - 9);
    }
    if t >= 12 && t - 12 + 6 >= 8384 {
        return Some(t - 12);
    }
    None
}

fn build_with_library(
    cfg: Cfg,
    payload: &[u8],
    key: &[u8],
    mut rng: ChaCha8Rng,
    partial: Option<u32>,
) -> Result<Vec<u8>, String> {
    let e = |e: pgp::errors::Error| e.to_string();
    match (cfg, partial) {
        (Cfg::V1 { alg }, None) => {
            let mut b = MessageBuilder::from_bytes("", payload.to_vec())
                .seipd_v1(&mut rng, SymmetricKeyAlgorithm::from(alg));
            b.set_session_key(key.to_vec().into()).map_err(e)?;
            b.to_vec(&mut rng).map_err(e)
        }
        (Cfg::V1 { alg }, Some(p)) => {
            let mut b = MessageBuilder::from_reader("", payload)
                .seipd_v1(&mut rng, SymmetricKeyAlgorithm::from(alg));
            b.partial_chunk_size(p).map_err(e)?;
            b.set_session_key(key.to_vec().into()).map_err(e)?;
            b.to_vec(&mut rng).map_err(e)
        }
        (Cfg::V2 { sym, aead, co }, None) => {
            let cs = ChunkSize::try_from(co).map_err(|_| "chunk size".to_string())?;
            let mut b = MessageBuilder::from_bytes("", payload.to_vec()).seipd_v2(
                &mut rng,
                SymmetricKeyAlgorithm::from(sym),
                AeadAlgorithm::from(aead),
                cs,
            );
            b.set_session_key(key.to_vec().into()).map_err(e)?;
            b.to_vec(&mut rng).map_err(e)
        }
        (Cfg::V2 { sym, aead, co }, Some(p)) => {
            let cs = ChunkSize::try_from(co).map_err(|_| "chunk size".to_string())?;
            let mut b = MessageBuilder::from_reader("", payload).seipd_v2(
                &mut rng,
                SymmetricKeyAlgorithm::from(sym),
                AeadAlgorithm::from(aead),
                cs,
            );
            b.partial_chunk_size(p).map_err(e)?;
            b.set_session_key(key.to_vec().into()).map_err(e)?;
            b.to_vec(&mut rng).map_err(e)
        }
    }
}

fn regions_and_chunks(
    cfg: Cfg,
    body: &[u8],
    inner_len: usize,
) -> Result<(Vec<(usize, usize, &'static str)>, Vec<(usize, usize)>), String> {
    let n = body.len();
    match cfg {
        Cfg::V1 { alg } => {
            let bs = rfc::sym::block_size(alg).ok_or("block size")?;
            if n != 1 + bs + 2 + inner_len + 22 {
                return Err(format!("v1 layout: body {} != 1+{}+2+{}+22", n, bs, inner_len));
            }
            Ok((
                vec![
                    (0, 1, "version"),
                    (1, 1 + bs + 2, "prefix"),
                    (1 + bs + 2, n - 22, "data"),
                    (n - 22, n - 21, "mdc-tag"),
                    (n - 21, n - 20, "mdc-len"),
                    (n - 20, n, "mdc-hash"),
                ],
                vec![],
            ))
        }
        Cfg::V2 { co, .. } => {
            let c = 64usize << co;
            let nch = inner_len.div_ceil(c);
            if n != 36 + inner_len + 16 * nch + 16 {
                return Err(format!("v2 layout: body {} != 36+{}+16*{}+16", n, inner_len, nch));
            }
            let mut r = vec![
                (0, 1, "version"),
                (1, 2, "cipher"),
                (2, 3, "aead"),
                (3, 4, "chunk-size"),
                (4, 36, "salt"),
            ];
            let mut ch = vec![];
            let mut p = 36;
            for i in 0..nch {
                let l = c.min(inner_len - i * c);
                r.push((p, p + l, "chunk-ct"));
                r.push((p + l, p + l + 16, "chunk-tag"));
                ch.push((p, p + l + 16));
                p += l + 16;
            }
            r.push((p, p + 16, "final-tag"));
            ch.push((p, p + 16));
            Ok((r, ch))
        }
    }
}

fn size_class(cfg: Cfg, inner_len: usize) -> String {
    match cfg {
        Cfg::V2 { .. } => {
            let c = cfg.chunk();
            if inner_len < c.saturating_sub(1) {
                return format!("{inner_len}B");
            }
            let k = (inner_len + 1) / c;
            let d = inner_len as i64 - (k * c) as i64;
            match d {
                0 => format!("{k}c"),
                d if d > 0 => format!("{k}c+{d}"),
                d => format!("{k}c{d}"),
            }
        }
        Cfg::V1 { .. } => {
            // relative to the 8192-byte internal buffer (data + MDC)
            let t = inner_len + 22;
            if t + 64 < 8192 {
                return format!("{inner_len}B");
            }
            let k = (t + 64) / 8192;
            let d = t as i64 - (k * 8192) as i64;
            match d {
                0 => format!("{k}buf"),
                d if d > 0 => format!("{k}buf+{d}"),
                d => format!("{k}buf{d}"),
            }
        }
    }
}

/// Builds one base with the library builder and cross-checks it with the reference.
fn make_base(
    ctx: &Ctx,
    id: u32,
    cfg: Cfg,
    payload_len: usize,
    partial: Option<u32>,
) -> Result<Base, String> {
    let mut rng = ctx.rng("base", id as u64);
    let mut key = vec![0u8; cfg.key_len()];
    rng.fill_bytes(&mut key);
    let mut payload = vec![0u8; payload_len];
    rng.fill_bytes(&mut payload);
    let msg = build_with_library(cfg, &payload, &key, rng, partial)?;
    let pk = rfc::frame::deframe(&msg).map_err(|e| format!("reference deframe: {e}"))?;
    if pk.len() != 1 || pk[0].tag != 18 {
        return Err(format!("expected a single SEIPD packet, got {} packets", pk.len()));
    }
    let body = pk[0].body.clone();
    let is_partial = !pk[0].partial_chunks.is_empty();
    if partial.is_none() && is_partial {
        return Err("unexpected partial framing".into());
    }
    let reference = match cfg {
        Cfg::V1 { alg } => {
            if body.first() != Some(&1) {
                return Err("version octet != 1".into());
            }
            rfc::sym::seipd_v1_decrypt(alg, &key, &body[1..]).map_err(|e| format!("reference v1 decrypt: {e:?}"))
        }
        Cfg::V2 { sym, aead, co } => {
            if body.len() < 36 || body[..4] != [2, sym, aead, co] {
                return Err("v2 header octets differ from the configuration".into());
            }
            rfc::sym::seipd_v2_decrypt(&body, &key).map_err(|e| format!("reference v2 decrypt: {e:?}"))
        }
    };
    // inner stream must be one literal packet carrying the payload
    let reference = reference.and_then(|inner| {
        let ip = rfc::frame::deframe(&inner).map_err(|e| format!("reference deframe inner: {e}"))?;
        if ip.len() != 1 || ip[0].tag != 11 {
            return Err("inner stream is not a single literal packet".into());
        }
        let lb = &ip[0].body;
        if lb.len() < 6 || lb.len() < 6 + lb[1] as usize || lb[6 + lb[1] as usize..] != payload[..] {
            return Err("reference: literal payload differs".into());
        }
        Ok(inner)
    });
    let mut ref_note = None;
    let inner = match reference {
        Ok(i) => i,
        Err(e) => {
            // The independent reference does not read what the library wrote (a construction fault: C12's
            // business). Integrity is still judged: ground truth falls back to the library's own
            // decryption of the untampered container.
            ref_note = Some(e);
            let probe = Base {
                id, cfg, framing: Framing::Fixed, key: key.clone(), payload: payload.clone(), msg: msg.clone(), body: body.clone(),
                hdr_len: 0, inner: vec![], regions: vec![], chunks: vec![], size_class: String::new(), ref_note: None,
                pre: vec![], post: vec![], forms: None, password: None, tail_start: None,
            };
            match core::guard(|| run_direct(&body, &probe, Mode::Default, &Consume::ToEnd, Sched::All, false)) {
                Ok(Outcome::Read(d, _)) if d.err.is_none() => d.data,
                _ => return Err(format!("{} and the library does not decrypt its own container either", ref_note.unwrap_or_default())),
            }
        }
    };
    let (regions, chunks) = regions_and_chunks(cfg, &body, inner.len())?;
    let framing = if is_partial { Framing::Partial } else { Framing::Fixed };
    Ok(Base {
        id,
        cfg,
        framing,
        key,
        payload,
        hdr_len: msg.len() - body.len(),
        size_class: size_class(cfg, inner.len()),
        msg,
        body,
        inner,
        regions,
        chunks,
        ref_note,
        pre: vec![],
        post: vec![],
        forms: None,
        password: None,
        tail_start: None,
    })
}

/// Container built by the reference encryptor around an arbitrary inner stream (any length,
/// including 0 and 1, which no OpenPGP message can have): StreamDecryptor level only.
fn make_ref_base(ctx: &Ctx, id: u32, cfg: Cfg, inner_len: usize) -> Result<Base, String> {
    let mut rng = ctx.rng("base", id as u64);
    let mut key = vec![0u8; cfg.key_len()];
    rng.fill_bytes(&mut key);
    let mut inner = vec![0u8; inner_len];
    rng.fill_bytes(&mut inner);
    let body = match cfg {
        Cfg::V1 { alg } => {
            let bs = rfc::sym::block_size(alg).ok_or("block size")?;
            let mut pre = vec![0u8; bs];
            rng.fill_bytes(&mut pre);
            let mut b = vec![1u8];
            b.extend(rfc::sym::seipd_v1_encrypt(alg, &key, &pre, &inner).ok_or("ref v1 encrypt")?);
            b
        }
        Cfg::V2 { sym, aead, co } => {
            let mut salt = [0u8; 32];
            rng.fill_bytes(&mut salt);
            rfc::sym::seipd_v2_encrypt(sym, aead, co, &salt, &key, &inner).ok_or("ref v2 encrypt")?
        }
    };
    let msg = rfc::frame::frame(18, &body, &LenForm::NewMin).ok_or("frame")?;
    let (regions, chunks) = regions_and_chunks(cfg, &body, inner.len())?;
    Ok(Base {
        id,
        cfg,
        framing: Framing::DirectOnly,
        key,
        payload: vec![],
        hdr_len: msg.len() - body.len(),
        size_class: size_class(cfg, inner.len()),
        msg,
        body,
        inner,
        regions,
        chunks,
        ref_note: None,
        pre: vec![],
        post: vec![],
        forms: None,
        password: None,
        tail_start: None,
    })
}

// ------------------------------------------------------------------------------------------
// composed bases: outer message forms x forms of the decrypted stream.
//
// The container authenticates only what is pulled through the decryptor; the part of the plaintext
// behind the end of the inner message (padding / marker / unknown packets) is pulled by the message
// layer. These bases put packets the grammar allows (and the library skips) in front of / behind the
// SEIPD packet and in front of / behind the inner message, so that "read to the end" has to walk a
// tail of several AEAD chunks (resp. more than one CFB buffer) in every message shape.

const OUTER_FORMS: [&str; 8] = [
    "seipd",
    "marker|seipd",
    "padding|seipd",
    "experimental|seipd",
    "skesk|seipd",
    "marker(old-format)|skesk|marker|padding|seipd",
    "seipd|padding",
    "unassigned-noncritical|marker|seipd|marker",
];

/// u = AEAD chunk size (SEIPDv2) resp. 64 (SEIPDv1)
const INNER_FORMS: [&str; 9] = [
    "literal",
    "literal|marker",
    "literal|padding(4u+7)",
    "literal|padding(u)|experimental(2u)|padding(u)",
    "marker|literal|padding(3u)",
    "padding(u)|literal|padding(3u)",
    "compressed(literal)|padding(3u)",
    "ops|literal|signature|padding(3u)",
    "literal|padding(8192+u)",
];

fn pkt(tag: u8, body: &[u8]) -> Vec<u8> {
    rfc::frame::frame(tag, body, &LenForm::NewMin).expect("frame")
}

fn rnd(rng: &mut ChaCha8Rng, n: usize) -> Vec<u8> {
    let mut v = vec![0u8; n];
    rng.fill_bytes(&mut v);
    v
}

fn padding(rng: &mut ChaCha8Rng, n: usize) -> Vec<u8> {
    pkt(21, &rnd(rng, n))
}

const COMPOSED_PW: &str = "C03 composed message password";

fn make_composed_base(ctx: &Ctx, id: u32, cfg: Cfg, outer: usize, inner_form: usize, lit_total: usize) -> Result<Base, String> {
    use std::io::Write;
    let mut rng = ctx.rng("base", id as u64);
    let rng = &mut rng;
    let key = rnd(rng, cfg.key_len());
    let u = if cfg.chunk() > 0 { cfg.chunk() } else { 64 };
    let plen = payload_for_inner(lit_total).ok_or("literal length not representable")?;
    let payload = rnd(rng, plen);
    let mut lb = vec![b'b', 0, 0, 0, 0, 0];
    lb.extend_from_slice(&payload);
    let lit = pkt(11, &lb);
    let marker = pkt(10, b"PGP");

    // ---- the decrypted stream: (packets in front of the message, the message, packets behind it)
    let (head, message, tail): (Vec<u8>, Vec<u8>, Vec<u8>) = match inner_form {
        0 => (vec![], lit, vec![]),
        1 => (vec![], lit, marker.clone()),
        2 => (vec![], lit, padding(rng, 4 * u + 7)),
        3 => {
            let mut t = padding(rng, u);
            t.extend(pkt(61, &rnd(rng, 2 * u)));
            t.extend(padding(rng, u));
            (vec![], lit, t)
        }
        4 => (marker.clone(), lit, padding(rng, 3 * u)),
        5 => (padding(rng, u), lit, padding(rng, 3 * u)),
        6 => {
            // Compressed Data packet around the literal packet (flate2 resp. stored)
            let alg = (id % 3) as u8;
            let mut cb = vec![alg];
            match alg {
                0 => cb.extend_from_slice(&lit),
                1 => {
                    let mut e = flate2::write::DeflateEncoder::new(Vec::new(), flate2::Compression::fast());
                    e.write_all(&lit).map_err(|e| e.to_string())?;
                    cb.extend(e.finish().map_err(|e| e.to_string())?);
                }
                _ => {
                    let mut e = flate2::write::ZlibEncoder::new(Vec::new(), flate2::Compression::fast());
                    e.write_all(&lit).map_err(|e| e.to_string())?;
                    cb.extend(e.finish().map_err(|e| e.to_string())?);
                }
            }
            (vec![], pkt(8, &cb), padding(rng, 3 * u))
        }
        7 => {
            // one-pass signed message; the signature value is never verified here, only parsed
            let keyid = rnd(rng, 8);
            let mut ops = vec![3u8, 0x00, 8, 22];
            ops.extend_from_slice(&keyid);
            ops.push(1);
            let mut sig = vec![4u8, 0x00, 22, 8, 0, 6, 5, 2, 0x65, 0x00, 0x00, 0x00, 0, 10, 9, 16];
            sig.extend_from_slice(&keyid);
            sig.extend(rnd(rng, 2));
            for _ in 0..2 {
                let mut m = rnd(rng, 32);
                m[0] |= 0x80;
                sig.extend_from_slice(&[0x01, 0x00]);
                sig.extend(m);
            }
            let mut msg = pkt(4, &ops);
            msg.extend_from_slice(&lit);
            msg.extend(pkt(2, &sig));
            (vec![], msg, padding(rng, 3 * u))
        }
        8 => (vec![], lit, padding(rng, 8192 + u)),
        _ => return Err("inner form".into()),
    };
    let msg_end = head.len() + message.len();
    let mut inner = head;
    inner.extend(message);
    inner.extend(tail);

    // ---- the container (reference encryptor)
    let body = match cfg {
        Cfg::V1 { alg } => {
            let bs = rfc::sym::block_size(alg).ok_or("block size")?;
            let pre = rnd(rng, bs);
            let mut b = vec![1u8];
            b.extend(rfc::sym::seipd_v1_encrypt(alg, &key, &pre, &inner).ok_or("ref v1 encrypt")?);
            b
        }
        Cfg::V2 { sym, aead, co } => {
            let mut salt = [0u8; 32];
            rng.fill_bytes(&mut salt);
            rfc::sym::seipd_v2_encrypt(sym, aead, co, &salt, &key, &inner).ok_or("ref v2 encrypt")?
        }
    };
    let tail_start = if msg_end < inner.len() {
        Some(match cfg {
            Cfg::V1 { alg } => 1 + rfc::sym::block_size(alg).unwrap_or(16) + 2 + msg_end,
            Cfg::V2 { .. } => 36 + msg_end + 16 * (msg_end / u),
        })
    } else {
        None
    };

    // ---- the packets around the SEIPD packet
    let skesk = |rng: &mut ChaCha8Rng| -> Result<Vec<u8>, String> {
        let mut salt = [0u8; 8];
        rng.fill_bytes(&mut salt);
        let s2k = rfc::sym::RefS2k::Iterated { hash: 8, salt, count: 0 };
        let b = match cfg {
            Cfg::V1 { alg } => rfc::sym::skesk_v4_encode(9, &s2k, COMPOSED_PW.as_bytes(), Some((alg, &key))),
            Cfg::V2 { sym, aead, .. } => {
                let iv = rnd(rng, rfc::sym::aead_nonce_len(aead).ok_or("nonce length")?);
                rfc::sym::skesk_v6_encode(sym, aead, &s2k, COMPOSED_PW.as_bytes(), &iv, &key)
            }
        };
        Ok(pkt(3, &b.ok_or("ref skesk")?))
    };
    let mut pre = vec![];
    let mut post = vec![];
    let mut password = None;
    match outer {
        0 => {}
        1 => pre.extend_from_slice(&marker),
        2 => pre.extend(padding(rng, 37)),
        3 => pre.extend(pkt(60 + (id % 4) as u8, &rnd(rng, 21))),
        4 => {
            pre.extend(skesk(rng)?);
            password = Some(COMPOSED_PW.to_string());
        }
        5 => {
            pre.extend(rfc::frame::frame(10, b"PGP", &LenForm::Old1).ok_or("frame")?);
            pre.extend(skesk(rng)?);
            pre.extend_from_slice(&marker);
            pre.extend(padding(rng, 5));
            password = Some(COMPOSED_PW.to_string());
        }
        6 => post.extend(padding(rng, 2 * u + 3)),
        7 => {
            pre.extend(pkt(40 + (id % 20) as u8, &rnd(rng, 9)));
            pre.extend_from_slice(&marker);
            post.extend_from_slice(&marker);
        }
        _ => return Err("outer form".into()),
    }

    let msg = pkt(18, &body);
    let (regions, chunks) = regions_and_chunks(cfg, &body, inner.len())?;
    Ok(Base {
        id,
        cfg,
        framing: Framing::Fixed,
        key,
        payload,
        hdr_len: msg.len() - body.len(),
        size_class: size_class(cfg, inner.len()),
        msg,
        body,
        inner,
        regions,
        chunks,
        ref_note: None,
        pre,
        post,
        forms: Some((OUTER_FORMS[outer], INNER_FORMS[inner_form])),
        password,
        tail_start,
    })
}

// ------------------------------------------------------------------------------------------
// schedule-driven source for the StreamDecryptor level. (Local because `shim::SchedReader` keeps a
// stale `fill_buf` window when `read` and `fill_buf` calls are mixed on one reader, which the
// CFB decryptor does: prefix via `read`, data via `fill_buf`.)

#[derive(Debug)]
struct Src {
    data: Vec<u8>,
    pos: usize,
    sched: Sched,
    idx: usize,
    rng: ChaCha8Rng,
    window: usize,
}

impl Src {
    fn new(data: Vec<u8>, sched: Sched) -> Self {
        let seed = match &sched {
            Sched::Random(s, _) => *s,
            _ => 0,
        };
        Src { data, pos: 0, sched, idx: 0, rng: ChaCha8Rng::seed_from_u64(seed), window: 0 }
    }
    fn next_size(&mut self, want: usize) -> usize {
        let remaining = self.data.len() - self.pos;
        let n = match &self.sched {
            Sched::All => want,
            Sched::Fixed(n) => (*n).min(want),
            Sched::Cycle(v) => {
                let n = v[self.idx % v.len()];
                self.idx += 1;
                n.min(want)
            }
            Sched::SplitAt(v) => match v.iter().copied().find(|o| *o > self.pos) {
                Some(o) => (o - self.pos).min(want),
                None => want,
            },
            Sched::Random(_, max) => {
                let m = (*max).max(1);
                self.rng.gen_range(1..=m).min(want)
            }
        };
        n.min(remaining)
    }
}

impl Read for Src {
    fn read(&mut self, buf: &mut [u8]) -> io::Result<usize> {
        if buf.is_empty() {
            return Ok(0);
        }
        let n = if self.window > 0 { self.window.min(buf.len()) } else { self.next_size(buf.len()) };
        buf[..n].copy_from_slice(&self.data[self.pos..self.pos + n]);
        self.pos += n;
        self.window = self.window.saturating_sub(n);
        Ok(n)
    }
}

impl BufRead for Src {
    fn fill_buf(&mut self) -> io::Result<&[u8]> {
        if self.window == 0 {
            self.window = self.next_size(usize::MAX);
        }
        Ok(&self.data[self.pos..self.pos + self.window])
    }
    fn consume(&mut self, amt: usize) {
        let amt = amt.min(self.window);
        self.pos += amt;
        self.window -= amt;
    }
}

// ------------------------------------------------------------------------------------------
// running the library

#[derive(Clone, Copy, PartialEq, Eq, Debug)]
enum Post {
    NotProbed,
    Err,
    Data,
    Eof,
    Panic,
}

enum Outcome {
    /// `Message::from_bytes` / config parser rejected the input
    Parse(String),
    /// decrypt call returned Err
    Decrypt(String),
    Read(Drained, Post),
    /// direct level not applicable (version octet changed to the other SEIPD version)
    Skipped,
}

fn run_message(msg: &[u8], base: &Base, mode: Mode, pat: &Consume, probe: bool, sched: Option<Sched>, use_pw: bool) -> Outcome {
    let parsed = match sched {
        None => Message::from_bytes(msg),
        // the message arrives in fragments (the source hands out short fill_buf windows)
        Some(s) => Message::from_bytes(Src::new(msg.to_vec(), s)),
    };
    let m = match parsed {
        Ok(m) => m,
        Err(e) => return Outcome::Parse(e.to_string()),
    };
    let pw = match (&base.password, use_pw) {
        (Some(p), true) => Some(Password::from(p.as_str())),
        _ => None,
    };
    let dec = match (&pw, mode) {
        (None, Mode::Default) => m.decrypt_with_session_key(base.session_key()),
        (Some(pw), Mode::Default) => m.decrypt_with_password(pw),
        _ => {
            let ring = TheRing {
                session_keys: if pw.is_none() { vec![base.session_key()] } else { vec![] },
                message_password: pw.iter().collect(),
                decrypt_options: DecryptionOptions::new().set_seipdv1_read_mode(base.lib_mode(mode)),
                ..Default::default()
            };
            m.decrypt_the_ring(ring, true).map(|(m, _)| m)
        }
    };
    let d = match dec {
        Ok(d) => d,
        Err(e) => return Outcome::Decrypt(e.to_string()),
    };
    // a compressed inner message is read through the decompressor (composed bases only)
    let mut d = if base.composed() && d.is_compressed() {
        match d.decompress() {
            Ok(d) => d,
            Err(e) => return Outcome::Decrypt(e.to_string()),
        }
    } else {
        d
    };
    let dr = drain(&mut d, pat);
    let post = if probe && dr.err.is_some() {
        // up to four more calls (a retry loop): the strongest thing seen wins (data > clean end > error)
        let mut worst = Post::Err;
        for _ in 0..4 {
            match core::guard(|| {
                let mut b = [0u8; 64];
                d.read(&mut b)
            }) {
                Ok(Ok(0)) => {
                    worst = Post::Eof;
                    break;
                }
                Ok(Ok(_)) => {
                    worst = Post::Data;
                    break;
                }
                Ok(Err(_)) => {}
                Err(_) => {
                    worst = Post::Panic;
                    break;
                }
            }
        }
        worst
    } else {
        Post::NotProbed
    };
    Outcome::Read(dr, post)
}

fn run_direct(body: &[u8], base: &Base, mode: Mode, pat: &Consume, sched: Sched, probe: bool) -> Outcome {
    let mut src = Src::new(body.to_vec(), sched);
    let cfg = match SymEncryptedProtectedDataConfig::try_from_reader(&mut src) {
        Ok(c) => c,
        Err(e) => return Outcome::Parse(e.to_string()),
    };
    let dec = match (cfg, base.cfg) {
        (SymEncryptedProtectedDataConfig::V1, Cfg::V1 { alg }) => {
            StreamDecryptor::v1(SymmetricKeyAlgorithm::from(alg), base.lib_mode(mode), &base.key, src)
        }
        (
            SymEncryptedProtectedDataConfig::V2 {
                sym_alg,
                aead,
                chunk_size,
                salt,
            },
            Cfg::V2 { .. },
        ) => StreamDecryptor::v2(sym_alg, aead, chunk_size, &salt, &base.key, src),
        _ => return Outcome::Skipped,
    };
    let mut dec = match dec {
        Ok(d) => d,
        Err(e) => return Outcome::Decrypt(e.to_string()),
    };
    let dr = drain(&mut dec, pat);
    let post = if probe && dr.err.is_some() {
        // up to four more calls (a retry loop): the strongest thing seen wins (data > clean end > error)
        let mut worst = Post::Err;
        for _ in 0..4 {
            match core::guard(|| {
                let mut b = [0u8; 64];
                dec.read(&mut b)
            }) {
                Ok(Ok(0)) => {
                    worst = Post::Eof;
                    break;
                }
                Ok(Ok(_)) => {
                    worst = Post::Data;
                    break;
                }
                Ok(Err(_)) => {}
                Err(_) => {
                    worst = Post::Panic;
                    break;
                }
            }
        }
        worst
    } else {
        Post::NotProbed
    };
    Outcome::Read(dr, post)
}

// ------------------------------------------------------------------------------------------
// accounting that is flushed into the Ctx once per group (keeps the hot loop allocation free)

#[derive(Default)]
struct Acc {
    t0: f64,
    td: BTreeMap<String, u64>,
    t: BTreeMap<&'static str, u64>,
    sets: BTreeSet<(&'static str, Cow<'static, str>)>,
    n: u64,
}

impl Acc {
    fn t(&mut self, k: &'static str) {
        *self.t.entry(k).or_insert(0) += 1;
    }
    fn s(&mut self, set: &'static str, item: impl Into<Cow<'static, str>>) {
        self.sets.insert((set, item.into()));
    }
    fn flush_as(&mut self, ctx: &mut Ctx, label: &str) {
        let now = core::thread_cpu_s();
        ctx.tally(&format!("cpu_ms.{label}"), ((now - self.t0) * 1000.0) as u64);
        self.t0 = now;
        self.flush(ctx);
    }
    fn flush(&mut self, ctx: &mut Ctx) {
        for (k, v) in std::mem::take(&mut self.t) {
            ctx.tally(k, v);
        }
        for (k, v) in std::mem::take(&mut self.td) {
            ctx.tally(&k, v);
        }
        for (s, i) in std::mem::take(&mut self.sets) {
            ctx.seen(s, i.into_owned());
        }
    }
}

fn err_class(s: &str) -> String {
    // stable class of an error text: cut at the first digit / quote, at most 60 chars
    let mut o = String::new();
    for ch in s.chars() {
        if ch.is_ascii_digit() || ch == '"' || ch == '[' || ch == '{' || o.len() >= 60 {
            break;
        }
        o.push(ch);
    }
    o.trim().to_string()
}

#[derive(Clone, Copy, PartialEq, Eq)]
enum Level {
    Msg,
    Direct,
}

impl Level {
    fn name(&self) -> &'static str {
        match self {
            Level::Msg => "message",
            Level::Direct => "stream-decryptor",
        }
    }
}

struct Trial<'a> {
    base: &'a Base,
    mode: Mode,
    kind: &'static str,
    /// tamper description (only rendered when something is reported)
    desc: &'a dyn Fn() -> String,
    pat: &'a Consume,
    probe: bool,
    /// the byte stream ends with the (truncated) SEIPD packet: packets behind it are cut off too
    cut: bool,
}

fn chunk_idx_name(i: u64) -> &'static str {
    match i {
        0 => "0",
        1 => "1",
        2 => "2",
        3 => "3",
        _ => "4+",
    }
}

/// Applies the oracle to one observed execution.
fn judge(ctx: &mut Ctx, acc: &mut Acc, t: &Trial, level: Level, data: &[u8], out: Outcome, ev: &[Ev]) {
    let base = t.base;
    let fam = base.fam();
    let replay = |what: &str| {
        json!({
            "config": base.cfg.label(), "size_class": base.size_class, "framing": format!("{:?}", base.framing),
            "base_id": base.id, "mode": t.base.mode_name(t.mode), "level": level.name(), "kind": t.kind, "tamper": (t.desc)(),
            "consumer": t.pat.name(), "session_key": hex::encode(&base.key),
            "input": hexs(data), "untampered": hexs(&if level == Level::Msg { base.wrap(&base.msg, false) } else { base.body.clone() }),
            "outer_form": base.forms.map(|f| f.0), "decrypted_stream_form": base.forms.map(|f| f.1), "password": base.password,
            "what": what,
        })
    };
    // input class of the signature: bases with packets around the container / the inner message
    let cls = if base.composed() { "/composed" } else { "" };
    acc.n += 1;
    let truth: &[u8] = if level == Level::Msg { &base.payload } else { &base.inner };
    let mut clean = false;
    let mut released = 0usize;
    match &out {
        Outcome::Skipped => return,
        Outcome::Parse(e) => {
            acc.t("outcome.parse-error");
            if acc.n % 8 == 0 {
                acc.s("error-classes", err_class(e));
            }
        }
        Outcome::Decrypt(e) => {
            acc.t("outcome.decrypt-call-error");
            if acc.n % 8 == 0 {
                acc.s("error-classes", err_class(e));
            }
        }
        Outcome::Read(d, post) => {
            released = d.data.len();
            match &d.err {
                None => {
                    clean = true;
                    ctx.violation(
                        format!("C03/{fam}/{}/clean-eof{cls}", t.kind),
                        format!(
                            "tampered container read to a clean end of stream ({} level, {}, {}, {}, consumer {}): {} bytes released, {}",
                            level.name(), base.label(), t.base.mode_name(t.mode), (t.desc)(), t.pat.name(), d.data.len(),
                            if d.data == truth { "equal to the true plaintext" } else if truth.starts_with(&d.data) { "a prefix of the true plaintext" } else { "NOT the true plaintext" }
                        ),
                        replay("clean-eof"),
                    );
                }
                Some(e) => {
                    acc.t("outcome.read-error");
                    if acc.n % 8 == 0 {
                        acc.s("error-classes", err_class(&e.to_string()));
                    }
                }
            }
            if !d.data.is_empty() && d.err.is_some() {
                match base.cfg {
                    Cfg::V1 { .. } if t.mode.check_first() => {
                        ctx.violation(
                            format!("C03/{fam}/{}/released-before-auth{cls}", t.kind),
                            format!(
                                "SEIPDv1 CheckFirst mode released {} plaintext bytes before the error ({} level, {}, {}, {}, consumer {})",
                                d.data.len(), level.name(), base.label(), t.base.mode_name(t.mode), (t.desc)(), t.pat.name()
                            ),
                            replay("released-before-auth"),
                        );
                    }
                    Cfg::V1 { .. } => {
                        // streaming mode: unauthenticated plaintext before the error is documented; out of scope
                        if truth.starts_with(&d.data) {
                            acc.t("v1-streaming.released-true-prefix-before-error");
                        } else {
                            acc.t("v1-streaming.released-garbage-before-error(out-of-scope)");
                        }
                    }
                    Cfg::V2 { .. } => {
                        if truth.starts_with(&d.data) {
                            acc.t("v2.released-true-prefix-before-error");
                        } else {
                            ctx.violation(
                                format!("C03/{fam}/{}/released-non-prefix{cls}", t.kind),
                                format!(
                                    "SEIPDv2 released {} bytes before the error that are not a prefix of the true plaintext ({} level, {}, {}, consumer {})",
                                    d.data.len(), level.name(), base.label(), (t.desc)(), t.pat.name()
                                ),
                                replay("released-non-prefix"),
                            );
                        }
                    }
                }
            }
            // CheckFirst mode authenticates everything before anything is handed out: a container whose check
            // failed must not hand out plaintext to a consumer that asks again either (a retry loop, `lines()`
            // with `filter_map(Result::ok)`): "not a single plaintext byte is released" has no time limit there.
            if *post == Post::Data && matches!(base.cfg, Cfg::V1 { .. }) && t.mode.check_first() {
                ctx.violation(
                    format!("C03/{fam}/{}/released-after-failure{cls}", t.kind),
                    format!(
                        "SEIPDv1 CheckFirst mode reported the failure and then released plaintext of the tampered container to the next read ({} level, {}, {}, {}, consumer {})",
                        level.name(), base.label(), t.base.mode_name(t.mode), (t.desc)(), t.pat.name()
                    ),
                    replay("released-after-failure"),
                );
            }
            if *post != Post::NotProbed {
                // what a consumer sees that calls read() once more after the error (observation only:
                // the property does not speak about reads after a reported failure)
                let k = format!(
                    "post-error-read(observation).{}.{}.{}.{}",
                    fam,
                    t.base.mode_name(t.mode),
                    level.name(),
                    match post {
                        Post::Err => "error-again",
                        Post::Data => "DATA",
                        Post::Eof => "CLEAN-EOF",
                        Post::Panic => "PANIC",
                        Post::NotProbed => "",
                    }
                );
                *acc.td.entry(k).or_insert(0) += 1;
                if matches!(post, Post::Eof | Post::Data | Post::Panic) && level == Level::Msg {
                    let first_err = d.err.as_ref().map(|e| err_class(&e.to_string())).unwrap_or_default();
                    acc.s(
                        "post-error-read(observation).message-level-classes",
                        format!("{fam}/{}/{}: first error '{}', next read: {:?}, consumer {}", t.base.mode_name(t.mode), t.kind, first_err, post, t.pat.name()),
                    );
                }
            }
        }
    }
    // hook invariants and state coverage
    if !ev.is_empty() {
        let mut mdc_ok = false;
        let mut fin = false;
        let mut max_written = 0u64;
        let mut any_chunk = false;
        for e in ev {
            match e.site {
                "cfb.dec.mdc_ok" => mdc_ok = true,
                "cfb.dec.avail" => {
                    acc.s(
                        "hook.cfb.dec.avail(mode,is_last)",
                        match (e.a, e.c) {
                            (0, 0) => "checkfirst-notlast",
                            (0, _) => "checkfirst-last",
                            (1, 0) => "streaming-notlast",
                            (1, _) => "streaming-last",
                            _ => "sed",
                        },
                    );
                    if e.a == 0 && e.b > 0 && !mdc_ok {
                        ctx.violation(
                            "C03/v1/hook/avail-before-mdc",
                            format!(
                                "CheckFirst decryptor made {} plaintext bytes available before the MDC was verified ({}, {}, {})",
                                e.b, base.label(), t.base.mode_name(t.mode), (t.desc)()
                            ),
                            replay("hook I-1"),
                        );
                    }
                }
                "aead.dec.chunk" => {
                    any_chunk = true;
                    max_written = max_written.max(e.c);
                    acc.s("hook.aead.dec.chunk.index", chunk_idx_name(e.a));
                }
                "aead.dec.final" => fin = true,
                _ => {}
            }
        }
        if let Cfg::V2 { .. } = base.cfg {
            if clean && !fin {
                ctx.violation(
                    "C03/v2/hook/clean-eof-without-final",
                    format!("SEIPDv2 stream ended cleanly without the final tag having been verified ({}, {})", base.label(), (t.desc)()),
                    replay("hook I-2"),
                );
            }
            // (a compressed inner message may expand: released octets are not container plaintext octets)
            let expanding = base.forms.is_some_and(|f| f.1.starts_with("compressed"));
            if released as u64 > max_written && (any_chunk || released > 0) && !expanding {
                ctx.violation(
                    "C03/v2/hook/released-exceeds-authenticated",
                    format!(
                        "{} bytes released but only {} bytes had been authenticated chunk-wise ({}, {})",
                        released, max_written, base.label(), (t.desc)()
                    ),
                    replay("hook I-2"),
                );
            }
        }
    }
}

fn sched_for(v: u64, c: usize) -> Sched {
    match v % 5 {
        0 => Sched::All,
        1 => Sched::Fixed(1),
        2 => Sched::Fixed(7),
        3 => Sched::Cycle(vec![c + 15, 1, 17]),
        _ => Sched::Random(v, 64),
    }
}

/// Message level trial; `tampered` is the SEIPD packet, the other packets of the message are kept
fn try_msg(ctx: &mut Ctx, acc: &mut Acc, t: &Trial, tampered: &[u8], v: u64) {
    if tampered == &t.base.msg[..] {
        acc.t("skipped.identical-to-original");
        return;
    }
    let wrapped;
    let whole: &[u8] = if t.base.pre.is_empty() && (t.cut || t.base.post.is_empty()) {
        tampered
    } else {
        wrapped = t.base.wrap(tampered, t.cut);
        &wrapped
    };
    // every third variant is delivered through a fragmenting source
    let sched = if v % 3 == 2 { Some(sched_for(v / 3 + 1, t.base.cfg.chunk())) } else { None };
    if sched.is_some() {
        acc.t("trials.message-level.fragmented-source");
    }
    // messages with an SKESK: session key found through the password for every other variant
    let use_pw = t.base.password.is_some() && (v / 3) % 2 == 1;
    if use_pw {
        acc.t("trials.message-level.by-password");
    }
    let sigp = format!("C03/{}/{}", t.base.fam(), t.kind);
    let r = ctx.guarded(
        &sigp,
        || json!({"config": t.base.cfg.label(), "mode": t.base.mode_name(t.mode), "level": "message", "tamper": (t.desc)(), "consumer": t.pat.name(), "source": sched.as_ref().map(|s| s.name()), "session_key": hex::encode(&t.base.key), "password": if use_pw { t.base.password.clone() } else { None }, "input": hexs(whole)}),
        || hooks::record(|| run_message(whole, t.base, t.mode, t.pat, t.probe, sched.clone(), use_pw)),
    );
    ctx.eval();
    acc.t("trials.message-level");
    if t.base.composed() {
        acc.t("trials.message-level.composed");
    }
    if let Some((out, ev)) = r {
        judge(ctx, acc, t, Level::Msg, whole, out, &ev);
    }
}

/// StreamDecryptor level trial
fn try_direct(ctx: &mut Ctx, acc: &mut Acc, t: &Trial, body: &[u8], v: u64) {
    if body == &t.base.body[..] {
        acc.t("skipped.identical-to-original");
        return;
    }
    let sched = sched_for(v, t.base.cfg.chunk());
    let sigp = format!("C03/{}/{}", t.base.fam(), t.kind);
    let r = ctx.guarded(
        &sigp,
        || json!({"config": t.base.cfg.label(), "mode": t.base.mode_name(t.mode), "level": "stream-decryptor", "tamper": (t.desc)(), "consumer": t.pat.name(), "source": sched.name(), "session_key": hex::encode(&t.base.key), "input": hexs(body)}),
        || hooks::record(|| run_direct(body, t.base, t.mode, t.pat, sched.clone(), t.probe)),
    );
    if let Some((out, ev)) = r {
        if !matches!(out, Outcome::Skipped) {
            ctx.eval();
            acc.t("trials.stream-decryptor-level");
        }
        judge(ctx, acc, t, Level::Direct, body, out, &ev);
    }
}

/// Frames a (tampered) body as the SEIPD packet of the message.
fn reframe(body: &[u8]) -> Vec<u8> {
    rfc::frame::frame(18, body, &LenForm::NewMin).expect("frame")
}

// ------------------------------------------------------------------------------------------
// baseline: the untampered message must decrypt (else the base is unusable => inconclusive)

fn baseline_ok(base: &Base, pats: &[Consume]) -> Result<(), String> {
    for mode in base.modes() {
        for (i, pat) in pats.iter().enumerate() {
            if base.framing != Framing::DirectOnly {
                let whole = base.wrap(&base.msg, false);
                // (composed bases with an SKESK: both ways of finding the session key)
                let use_pw = base.password.is_some() && i % 2 == 0;
                match core::guard(|| run_message(&whole, base, *mode, pat, false, if i % 2 == 1 { Some(sched_for(i as u64, base.cfg.chunk())) } else { None }, use_pw)) {
                    Ok(Outcome::Read(d, _)) if d.err.is_none() && d.data == base.payload => {}
                    Ok(Outcome::Read(d, _)) => {
                        return Err(format!("untampered message: {:?} / {} bytes ({} {})", d.err.map(|e| e.to_string()), d.data.len(), mode.name(), pat.name()))
                    }
                    Ok(Outcome::Parse(e)) | Ok(Outcome::Decrypt(e)) => return Err(format!("untampered message rejected: {e}")),
                    Ok(Outcome::Skipped) => return Err("skipped".into()),
                    Err(p) => return Err(format!("untampered message panics: {} at {}", p.msg, p.loc)),
                }
            }
            match core::guard(|| run_direct(&base.body, base, *mode, pat, sched_for(i as u64, base.cfg.chunk()), false)) {
                Ok(Outcome::Read(d, _)) if d.err.is_none() && d.data == base.inner => {}
                Ok(Outcome::Read(d, _)) => {
                    return Err(format!("untampered container (StreamDecryptor): {:?} / {} bytes ({} {})", d.err.map(|e| e.to_string()), d.data.len(), mode.name(), pat.name()))
                }
                Ok(Outcome::Parse(e)) | Ok(Outcome::Decrypt(e)) => return Err(format!("untampered container rejected: {e}")),
                Ok(Outcome::Skipped) => return Err("skipped".into()),
                Err(p) => return Err(format!("untampered container panics: {} at {}", p.msg, p.loc)),
            }
        }
    }
    Ok(())
}

/// Records the hook states the untampered message reaches (coverage only) and checks the
/// hook invariants on the clean run.
fn baseline_hooks(ctx: &mut Ctx, acc: &mut Acc, base: &Base, pats: &[Consume]) {
    for mode in base.modes() {
        for (i, pat) in pats.iter().enumerate() {
            let (out, ev) = hooks::record(|| {
                core::guard(|| run_direct(&base.body, base, *mode, pat, sched_for(i as u64, base.cfg.chunk()), false))
            });
            ctx.eval();
            acc.t("trials.untampered");
            let Ok(Outcome::Read(d, _)) = out else { continue };
            let mut mdc_ok = false;
            let mut fin = false;
            for e in &ev {
                match e.site {
                    "cfb.dec.mdc_ok" => mdc_ok = true,
                    "aead.dec.final" => fin = true,
                    "aead.dec.chunk" => acc.s("hook.aead.dec.chunk.index", chunk_idx_name(e.a)),
                    "cfb.dec.avail" => {
                        acc.s(
                            "hook.cfb.dec.avail(mode,is_last)",
                            match (e.a, e.c) {
                                (0, 0) => "checkfirst-notlast",
                                (0, _) => "checkfirst-last",
                                (1, 0) => "streaming-notlast",
                                (1, _) => "streaming-last",
                                _ => "sed",
                            },
                        );
                        if e.a == 0 && e.b > 0 && !mdc_ok {
                            ctx.violation(
                                "C03/v1/hook/avail-before-mdc",
                                format!("CheckFirst decryptor made {} plaintext bytes available before the MDC was verified (untampered {})", e.b, base.label()),
                                json!({"base": base.label(), "input": hexs(&base.body), "session_key": hex::encode(&base.key)}),
                            );
                        }
                    }
                    _ => {}
                }
            }
            if hooks::available() && d.err.is_none() {
                match base.cfg {
                    Cfg::V1 { .. } => {
                        if mdc_ok {
                            acc.s("hook.cfb.dec.mdc_ok", "seen");
                        }
                    }
                    Cfg::V2 { .. } => {
                        if fin {
                            acc.s("hook.aead.dec.final", "seen");
                        } else {
                            ctx.violation(
                                "C03/v2/hook/clean-eof-without-final",
                                format!("untampered SEIPDv2 stream ended cleanly without the final-tag probe firing ({})", base.label()),
                                json!({"base": base.label(), "input": hexs(&base.body), "session_key": hex::encode(&base.key)}),
                            );
                        }
                    }
                }
            }
        }
    }
}

// ------------------------------------------------------------------------------------------
// workload plans

struct Plan {
    /// exhaustive flips with every consumer pattern up to this container size
    all_pats_upto: usize,
    /// exhaustive flips / truncations (rotating pattern) up to this container size; sampled above
    exhaustive_upto: usize,
    /// random extra positions for sampled containers
    random_positions: usize,
}

/// byte offsets of `len` to visit: everything if small, otherwise windows around the structural
/// boundaries, the head, the tail and a seeded random sample.
fn positions(len: usize, exhaustive_upto: usize, boundaries: &[usize], rng: &mut ChaCha8Rng, nrand: usize, win: usize) -> Vec<usize> {
    if len <= exhaustive_upto {
        return (0..len).collect();
    }
    let mut s = BTreeSet::new();
    for b in boundaries.iter().copied().chain([0usize, len]) {
        let lo = b.saturating_sub(win);
        let hi = (b + win).min(len);
        for p in lo..hi {
            s.insert(p);
        }
    }
    for _ in 0..nrand {
        s.insert(rng.gen_range(0..len));
    }
    s.into_iter().collect()
}

fn boundaries_of(base: &Base, in_msg: bool) -> Vec<usize> {
    let off = if in_msg { base.hdr_len } else { 0 };
    let mut v: Vec<usize> = base.regions.iter().map(|(s, _, _)| s + off).collect();
    if let Cfg::V1 { alg } = base.cfg {
        // internal 8192-byte buffer of the CFB decryptor (counted from the end of the prefix)
        let bs = rfc::sym::block_size(alg).unwrap_or(16);
        let start = 1 + bs + 2 + off;
        let mut p = start + 8192;
        while p < base.body.len() + off {
            v.push(p);
            v.push(p - 22);
            p += 8192 - 22;
            v.push(p);
            p += 22;
        }
    }
    // outer PacketBodyReader / partial chunk edges
    let mut p = 512;
    while p < base.msg.len() && v.len() < 64 {
        v.push(p);
        p *= 2;
    }
    v
}

fn all_perms(n: usize) -> Vec<Vec<usize>> {
    fn rec(cur: &mut Vec<usize>, used: &mut Vec<bool>, n: usize, out: &mut Vec<Vec<usize>>) {
        if cur.len() == n {
            out.push(cur.clone());
            return;
        }
        for i in 0..n {
            if !used[i] {
                used[i] = true;
                cur.push(i);
                rec(cur, used, n, out);
                cur.pop();
                used[i] = false;
            }
        }
    }
    let mut out = vec![];
    rec(&mut vec![], &mut vec![false; n], n, &mut out);
    out
}

/// v2 chunk-level tampers: (description, new body)
fn chunk_ops(base: &Base) -> Vec<(String, Vec<u8>)> {
    let mut out = vec![];
    if base.chunks.is_empty() {
        return out;
    }
    let b = &base.body;
    let head = &b[..36];
    let n = base.chunks.len() - 1; // data chunks
    let rec: Vec<&[u8]> = base.chunks[..n].iter().map(|(s, e)| &b[*s..*e]).collect();
    let fin = &b[base.chunks[n].0..base.chunks[n].1];
    let asm = |parts: &[&[u8]], fin: &[u8]| {
        let mut v = head.to_vec();
        for p in parts {
            v.extend_from_slice(p);
        }
        v.extend_from_slice(fin);
        v
    };
    // permutations
    if (2..=4).contains(&n) {
        for p in all_perms(n) {
            if p.iter().enumerate().all(|(i, j)| i == *j) {
                continue;
            }
            let parts: Vec<&[u8]> = p.iter().map(|i| rec[*i]).collect();
            out.push((format!("permute chunks {p:?}"), asm(&parts, fin)));
        }
    }
    for i in 0..n {
        // drop
        let parts: Vec<&[u8]> = (0..n).filter(|j| *j != i).map(|j| rec[j]).collect();
        out.push((format!("drop chunk {i} of {n}"), asm(&parts, fin)));
        // duplicate in place
        let mut parts: Vec<&[u8]> = vec![];
        for j in 0..n {
            parts.push(rec[j]);
            if j == i {
                parts.push(rec[j]);
            }
        }
        out.push((format!("duplicate chunk {i} of {n} in place"), asm(&parts, fin)));
        // duplicate at the end
        let mut parts: Vec<&[u8]> = rec.clone();
        parts.push(rec[i]);
        out.push((format!("append a copy of chunk {i} of {n}"), asm(&parts, fin)));
        // keep only the first i chunks, final tag kept
        out.push((format!("keep first {i} of {n} chunks + final tag"), asm(&rec[..i], fin)));
        // tag games
        let l = rec[i].len();
        let ctag = &rec[i][l - 16..];
        {
            // final tag <-> tag of chunk i
            let mut v = b.clone();
            let (s, e) = base.chunks[i];
            v[e - 16..e].copy_from_slice(fin);
            let (fs, fe) = base.chunks[n];
            v[fs..fe].copy_from_slice(ctag);
            let _ = s;
            out.push((format!("swap final tag with tag of chunk {i}"), v));
        }
        out.push((format!("final tag := tag of chunk {i}"), asm(&rec, ctag)));
        {
            let mut v = b.clone();
            let (_, e) = base.chunks[i];
            v[e - 16..e].copy_from_slice(fin);
            out.push((format!("tag of chunk {i} := final tag"), v));
        }
        if i + 1 < n {
            // tags of chunk i and i+1 swapped
            let mut v = b.clone();
            let (_, e1) = base.chunks[i];
            let (_, e2) = base.chunks[i + 1];
            let t1 = b[e1 - 16..e1].to_vec();
            let t2 = b[e2 - 16..e2].to_vec();
            v[e1 - 16..e1].copy_from_slice(&t2);
            v[e2 - 16..e2].copy_from_slice(&t1);
            out.push((format!("swap tags of chunks {i} and {}", i + 1), v));
        }
        if l > 16 {
            // last chunk shortened by one plaintext octet, tag kept
            let mut parts: Vec<Vec<u8>> = rec.iter().map(|r| r.to_vec()).collect();
            parts[i].remove(l - 17);
            let pr: Vec<&[u8]> = parts.iter().map(|p| &p[..]).collect();
            out.push((format!("remove last ciphertext octet of chunk {i}"), asm(&pr, fin)));
        }
    }
    // final tag: dropped, duplicated, zeroed, moved to front
    out.push(("drop final tag".into(), asm(&rec, &[])));
    {
        let mut f2 = fin.to_vec();
        f2.extend_from_slice(fin);
        out.push(("duplicate final tag".into(), asm(&rec, &f2)));
    }
    out.push(("final tag := 0".into(), asm(&rec, &[0u8; 16])));
    if n > 0 {
        let mut parts: Vec<&[u8]> = vec![fin];
        parts.extend(rec.iter());
        out.push(("move final tag to the front".into(), asm(&parts, &[])));
        // rotations are among the permutations for n <= 4; for larger n add the two rotations
        if n > 4 {
            let mut l: Vec<&[u8]> = rec[1..].to_vec();
            l.push(rec[0]);
            out.push(("rotate chunks left".into(), asm(&l, fin)));
            let mut r: Vec<&[u8]> = vec![rec[n - 1]];
            r.extend(&rec[..n - 1]);
            out.push(("rotate chunks right".into(), asm(&r, fin)));
            let mut s: Vec<&[u8]> = rec.clone();
            s.swap(0, 1);
            out.push(("swap chunks 0 and 1".into(), asm(&s, fin)));
            let mut s: Vec<&[u8]> = rec.clone();
            s.swap(n - 2, n - 1);
            out.push(("swap the last two chunks".into(), asm(&s, fin)));
        }
    }
    out.push(("drop all chunks (header + final tag only)".into(), asm(&[], fin)));
    out
}

/// v1 block-level tampers on the ciphertext
fn cfb_splices(base: &Base, rng: &mut ChaCha8Rng) -> Vec<(String, Vec<u8>)> {
    let Cfg::V1 { alg } = base.cfg else { return vec![] };
    let bs = rfc::sym::block_size(alg).unwrap_or(16);
    let b = &base.body;
    let ct = &b[1..];
    let nb = ct.len() / bs;
    let mut out = vec![];
    let mut idx: Vec<usize> = vec![0, 1, 2, nb / 2, nb.saturating_sub(4), nb.saturating_sub(3), nb.saturating_sub(2), nb.saturating_sub(1)];
    idx.sort();
    idx.dedup();
    for i in idx {
        if i >= nb {
            continue;
        }
        let (s, e) = (1 + i * bs, 1 + (i + 1) * bs);
        if i + 1 < nb && b[s..e] != b[e..e + bs] {
            let mut v = b.clone();
            let t = v[s..e].to_vec();
            v.copy_within(e..e + bs, s);
            v[e..e + bs].copy_from_slice(&t);
            out.push((format!("swap ciphertext blocks {i},{}", i + 1), v));
        }
        let mut v = b.clone();
        for x in &mut v[s..e] {
            *x = 0;
        }
        out.push((format!("zero ciphertext block {i}"), v));
        let mut v = b[..e].to_vec();
        v.extend_from_slice(&b[s..e]);
        v.extend_from_slice(&b[e..]);
        out.push((format!("duplicate ciphertext block {i}"), v));
        let mut v = b[..s].to_vec();
        v.extend_from_slice(&b[e..]);
        out.push((format!("delete ciphertext block {i}"), v));
    }
    let n = b.len();
    if n > 23 {
        let mut v = b.clone();
        for x in &mut v[n - 22..] {
            *x = 0;
        }
        out.push(("last 22 octets := 0".into(), v));
        let mut v = b.clone();
        rng.fill_bytes(&mut v[n - 22..]);
        out.push(("last 22 octets := random".into(), v));
        let mut v = b.clone();
        rng.fill_bytes(&mut v[n - 20..]);
        out.push(("last 20 octets := random".into(), v));
        // MDC moved: drop 22 octets before the MDC
        if n > 1 + bs + 2 + 22 + 22 {
            let mut v = b[..n - 44].to_vec();
            v.extend_from_slice(&b[n - 22..]);
            out.push(("delete the 22 octets in front of the MDC".into(), v));
        }
    }
    out
}

fn appendices(base: &Base, rng: &mut ChaCha8Rng) -> Vec<(String, Vec<u8>)> {
    let c = base.cfg.chunk();
    let b = &base.body;
    let mut out = vec![];
    let mut lens = vec![1usize, 2, 15, 16, 17, 22, 23, 64];
    if c > 0 {
        lens.extend([c, c + 16, c + 17, 2 * (c + 16)]);
    } else {
        lens.extend([8192 - 22, 8192]);
    }
    for l in lens {
        let mut v = b.clone();
        let mut x = vec![0u8; l];
        rng.fill_bytes(&mut x);
        v.extend(x);
        out.push((format!("append {l} random octets"), v));
    }
    for l in [1usize, 16] {
        let mut v = b.clone();
        v.extend(vec![0u8; l]);
        out.push((format!("append {l} zero octets"), v));
    }
    for l in [16usize, 22, 38] {
        if b.len() > l {
            let mut v = b.clone();
            v.extend_from_slice(&b[b.len() - l..]);
            out.push((format!("append a copy of the last {l} octets"), v));
        }
    }
    // a second copy of the whole encrypted stream
    let hl = if c > 0 { 36 } else { 1 };
    let mut v = b.clone();
    v.extend_from_slice(&b[hl..]);
    out.push(("append a copy of the whole ciphertext".into(), v));
    out
}

// ------------------------------------------------------------------------------------------

/// Consumer patterns for one tamper variant: all of them for small containers; for the others a
/// rotating one (on big containers the byte-wise patterns only for every 16th variant: in
/// streaming mode they cost one library call per plaintext octet).
fn pat_for<'a>(pats: &'a [Consume], all: bool, v: usize, big: bool) -> &'a [Consume] {
    if all {
        return pats;
    }
    let i = if big {
        const COARSE: [usize; 6] = [0, 3, 4, 7, 2, 8];
        const FINE: [usize; 3] = [1, 5, 6];
        if v % 16 == 15 {
            FINE[(v / 16) % 3]
        } else {
            COARSE[v % 6]
        }
    } else {
        v % pats.len()
    };
    &pats[i..i + 1]
}

/// Composed bases: every tamper variant is read with one pattern of each of the three classes the
/// property names (read_to_end, fixed-size read, BufRead), the member of the class rotating.
fn pats_for<'a>(pats: &'a [Consume], all: bool, v: usize, big: bool, composed: bool) -> Vec<&'a Consume> {
    if composed && !all && pats.len() == 9 {
        return vec![&pats[0], &pats[1 + v % 4], &pats[5 + (v / 4) % 4]];
    }
    pat_for(pats, all, v, big).iter().collect()
}

pub fn run(ctx: &mut Ctx) {
    let pats = Consume::all_basic();
    let quick = ctx.quick();
    let plan = Plan {
        all_pats_upto: ctx.qt(330, 1100),
        exhaustive_upto: ctx.qt(1400, 4200),
        random_positions: ctx.qt(96, 400),
    };

    // ---- configurations
    let v1_algs: Vec<u8> = if quick { vec![7, 9, 2, 3, 10, 12] } else { rfc::sym::ALL_CIPHERS.to_vec() };
    let v2_chunks: Vec<u8> = if quick { vec![0, 1, 2] } else { vec![0, 1, 2, 3, 4, 5, 6] };

    // ---- base messages (built identically in every shard; cheap)
    let mut specs: Vec<(Cfg, usize, Option<u32>, bool)> = vec![]; // (cfg, payload len | inner len, partial, reference-built)
    for &co in &v2_chunks {
        let c = 64usize << co;
        for sym in [7u8, 8, 9] {
            for aead in [1u8, 2, 3] {
                let cfg = Cfg::V2 { sym, aead, co };
                let mut targets = vec![8, 9, c - 1, c, c + 1, 2 * c - 1, 2 * c, 2 * c + 1, 3 * c, 3 * c + 1, 4 * c];
                if !quick {
                    targets.extend([c / 2 + 8, 3 * c - 1, 4 * c - 1, 4 * c + 1, 5 * c]);
                }
                // the big chunk sizes of the thorough tier: only the AES-128 row and the diagonal get every size
                let full = c <= 256 || sym == 7 || (sym - 7) == (aead - 1);
                targets.sort();
                targets.dedup();
                for (k, t) in targets.iter().enumerate() {
                    if !full && k % 3 != 0 {
                        continue;
                    }
                    if let Some(p) = payload_for_inner(*t) {
                        specs.push((cfg, p, None, false));
                    }
                }
                // partial outer framing (builder from a reader, 512-byte partial chunks)
                if (sym - 7) == (aead - 1) || !quick {
                    specs.push((cfg, (2 * c + 1).max(600), Some(512), false));
                }
                // reference-built containers of inner streams no message can have
                for l in [0usize, 1] {
                    specs.push((cfg, l, None, true));
                }
                if (sym - 7) == (aead - 1) {
                    specs.push((cfg, 2 * c, None, true));
                }
            }
        }
    }
    // the largest legal chunk-size octet (16 = 4 MiB): every altered value of that octet is out of range,
    // none may be folded back onto a legal size
    for (sym, aead) in [(7u8, 2u8), (9, 3), (8, 1)] {
        let cfg = Cfg::V2 { sym, aead, co: 16 };
        if let Some(p) = payload_for_inner(9) {
            specs.push((cfg, p, None, false));
        }
        if quick {
            break;
        }
    }
    for (ai, &alg) in v1_algs.iter().enumerate() {
        let cfg = Cfg::V1 { alg };
        let mut small = vec![0usize, 1, 2, 15, 16, 17, 64];
        if !quick {
            small.extend([7, 8, 9, 31, 32, 33, 255, 700]);
        }
        for p in small {
            specs.push((cfg, p, None, false));
        }
        // around the internal 8192-byte buffer (data + 22 MDC octets)
        let mut big = vec![8192 - 22 - 1, 8192 - 22, 8192 - 22 + 1, 8192, 2 * 8192 - 22, 2 * 8192];
        if !quick {
            big.extend([8192 - 1, 8192 + 1, 2 * 8192 - 44, 2 * 8192 - 22 - 1, 2 * 8192 - 22 + 1, 3 * 8192 - 66, 3 * 8192]);
        }
        for (k, t) in big.iter().enumerate() {
            // quick: AES-128 gets every size, AES-256 three of them, the (slow, table-driven) others
            // two sizes around the first buffer edge
            if quick {
                let keep = match ai {
                    0 => true,
                    1 => k % 2 == 1,
                    _ => k < 4 && (k + ai) % 2 == 0,
                };
                if !keep {
                    continue;
                }
            }
            if let Some(p) = payload_for_inner(*t) {
                specs.push((cfg, p, None, false));
            }
        }
        specs.push((cfg, 700, Some(512), false));
        if ai < 2 || !quick {
            specs.push((cfg, 2 * 8192 + 100, Some(4096), false));
        }
        for l in [0usize, 1] {
            specs.push((cfg, l, None, true));
        }
    }

    // ---- composed bases: outer message form x form of the decrypted stream (ids continue behind `specs`)
    let mut cspecs: Vec<(Cfg, usize, usize, usize)> = vec![]; // (cfg, outer form, inner form, literal packet length)
    for o in 0..OUTER_FORMS.len() {
        // SEIPDv2: the full product with the small-tail forms; configurations and the position of the end of
        // the literal packet relative to the chunk edge rotate
        for i in 0..8usize {
            let k = o * 8 + i;
            let reps: &[u8] = if quick { &[0] } else { &[0, 1, 2] };
            for &r in reps {
                let k = k + r as usize * 5;
                let co = if quick { u8::from(k % 7 == 3) } else { (k % 3) as u8 };
                let c = 64usize << co;
                let cfg = Cfg::V2 { sym: 7 + (k % 3) as u8, aead: 1 + ((k / 3) % 3) as u8, co };
                let lit = [22, c, c + 1, 2 * c - 1, c - 1, 2 * c][(k + o) % if quick { 4 } else { 6 }];
                cspecs.push((cfg, o, i, lit));
            }
        }
        if !quick && o < 2 {
            cspecs.push((Cfg::V2 { sym: 7 + o as u8, aead: 2 + o as u8, co: 0 }, o, 8, 22));
        }
        // SEIPDv1: three (quick) / all (thorough) small-tail forms per outer form, at least one of them with a
        // tail; plus the tail that is longer than the decryptor's buffer
        let inner_forms: Vec<usize> = if quick { vec![o % 8, (o + 3) % 8, (o + 5) % 8] } else { (0..8).collect() };
        for (n, i) in inner_forms.into_iter().enumerate() {
            let alg = v1_algs[(o * 3 + n) % v1_algs.len()];
            cspecs.push((Cfg::V1 { alg }, o, i, [8, 22, 77][(o + n) % 3]));
        }
        cspecs.push((Cfg::V1 { alg: if o % 2 == 0 { 7 } else { 9 } }, o, 8, 22));
    }

    let mut bases: Vec<Base> = vec![];
    let mut build_failures: Vec<String> = vec![];
    for (j, (cfg, o, i, lit)) in cspecs.iter().enumerate() {
        let r = make_composed_base(ctx, (specs.len() + j) as u32, *cfg, *o, *i, *lit);
        match r.and_then(|b| baseline_ok(&b, &pats).map(|_| b)) {
            Ok(b) => bases.push(b),
            Err(e) => build_failures.push(format!("{} outer[{}] inner[{}]: {}", cfg.label(), OUTER_FORMS[*o], INNER_FORMS[*i], e)),
        }
    }
    let composed_bases = std::mem::take(&mut bases);
    for (i, (cfg, len, partial, reference)) in specs.iter().enumerate() {
        let r = if *reference {
            make_ref_base(ctx, i as u32, *cfg, *len)
        } else {
            make_base(ctx, i as u32, *cfg, *len, *partial)
        };
        match r.and_then(|b| baseline_ok(&b, &pats[..3]).map(|_| b)) {
            Ok(b) => bases.push(b),
            Err(e) => build_failures.push(format!("{} len {} partial {:?}: {}", cfg.label(), len, partial, e)),
        }
    }
    bases.extend(composed_bases);
    if ctx.mine() {
        // reported once (by the shard owning case 0)
        for f in &build_failures {
            ctx.inconclusive(format!("base message unusable: {f}"));
        }
        ctx.tally("bases.built", bases.len() as u64);
        for b in &bases {
            if let Some(n) = &b.ref_note {
                ctx.inconclusive(format!("reference does not read the untampered container ({}): {}; ground truth taken from the library round trip", b.cfg.label(), n));
            }
        }
    }

    let mut acc = Acc::default();
    let mut sampled = 0;

    for base in &bases {
        let small = base.msg.len() <= plan.all_pats_upto;
        let big = base.msg.len() > 2000;
        let fam = base.fam();
        let c = base.cfg.chunk();
        let msg_level = base.framing != Framing::DirectOnly;
        // (the packets around the container do not reach the StreamDecryptor: one outer form is enough there)
        let direct_level = base.framing != Framing::Partial && base.pre.is_empty() && base.post.is_empty();
        let comp = base.composed();

        // ---- baseline coverage (once per base)
        if ctx.mine() {
            describe_case(&format!("C03 baseline {}", base.label()));
            baseline_hooks(ctx, &mut acc, base, &pats);
            acc.s("configs", base.cfg.label());
            acc.s(if fam == "v1" { "v1.size-classes" } else { "v2.size-classes" }, base.size_class.clone());
            acc.s("framings", format!("{:?}", base.framing));
            if let Some((o, i)) = base.forms {
                acc.s("composed.outer-forms", o);
                acc.s("composed.decrypted-stream-forms", format!("{fam}:{i}"));
                acc.s("composed.cells", format!("{fam}:{o} x {i}"));
                acc.t("composed.bases");
            }
            if let Cfg::V2 { .. } = base.cfg {
                acc.s("v2.data-chunks", chunk_idx_name((base.chunks.len() - 1) as u64));
            }
            acc.flush_as(ctx, &format!("{fam}.baseline.{}", if base.msg.len() > 2000 { "big" } else { "small" }));
        }

        for &mode in base.modes() {
            let probe_every = 16u64;

            // ---- A: single-bit flips over the whole message (header + body)
            {
                let mut rng = ctx.rng("flip-pos", base.id as u64);
                let pos = positions(base.msg.len(), plan.exhaustive_upto, &boundaries_of(base, true), &mut rng, plan.random_positions, if big { 12 } else { 20 });
                if pos.len() == base.msg.len() {
                    acc.s("flip.exhaustive", format!("{}/{}", base.cfg.label(), base.size_class));
                }
                let mut scratch = base.msg.clone();
                let mut bscratch = base.body.clone();
                for (gi, group) in pos.chunks(32).enumerate() {
                    // big containers: the exact-limit CheckFirst mode differs from the default one only in
                    // the length check; it gets every fourth group of positions
                    if big && mode == Mode::CheckFirstExact && gi % 4 != (base.id as usize) % 4 {
                        continue;
                    }
                    if !ctx.mine() {
                        continue;
                    }
                    describe_case(&format!("C03 flips {} {} bytes {}..", base.label(), mode.name(), group[0]));
                    for &p in group {
                        let region: &'static str = if p < base.hdr_len && base.framing != Framing::Partial {
                            "packet-header"
                        } else if base.framing == Framing::Partial {
                            "partial-framed"
                        } else {
                            base.region_of(p - base.hdr_len)
                        };
                        acc.s(if fam == "v1" { "v1.flip-regions" } else { "v2.flip-regions" }, region);
                        if let (Some(ts), Some((o, _))) = (base.tail_start, base.forms) {
                            // which outer forms had a flip in the part of the container that only carries
                            // packets behind the inner message (incl. MDC resp. final tag)
                            if p >= base.hdr_len + ts {
                                acc.s(if fam == "v1" { "composed.v1.flip-behind-inner-message" } else { "composed.v2.flip-behind-inner-message" }, o);
                            }
                        }
                        ctx.cover(&(base.id, mode, "flip", p));
                        for bit in 0..8u8 {
                            let v = p * 8 + bit as usize;
                            let desc = || format!("flip bit {bit} of message octet {p} ({region})");
                            for pat in pats_for(&pats, small, v, big, comp) {
                                let t = Trial { base, mode, kind: "flip", desc: &desc, pat, probe: v as u64 % probe_every == 0, cut: false };
                                if msg_level {
                                    scratch[p] ^= 1 << bit;
                                    try_msg(ctx, &mut acc, &t, &scratch, v as u64);
                                    scratch[p] ^= 1 << bit;
                                }
                                if direct_level && p >= base.hdr_len {
                                    let q = p - base.hdr_len;
                                    bscratch[q] ^= 1 << bit;
                                    try_direct(ctx, &mut acc, &t, &bscratch, v as u64);
                                    bscratch[q] ^= 1 << bit;
                                }
                            }
                        }
                    }
                    acc.flush_as(ctx, &format!("{fam}.flip.{}", if base.msg.len() > 2000 { "big" } else { "small" }));
                }
            }

            // ---- B: every other value of the one-octet header fields; salt octets
            if base.framing != Framing::Partial {
                let fields: &[(usize, &'static str)] = match base.cfg {
                    Cfg::V1 { .. } => &[(0, "version")],
                    Cfg::V2 { .. } => &[(0, "version"), (1, "cipher"), (2, "aead"), (3, "chunk-size")],
                };
                // all consumer patterns for three sizes per configuration, a rotating one elsewhere
                let all = small && (base.inner.len() <= 9 || base.inner.len() == c + 1 || base.inner.len() == 2 * c || fam == "v1");
                for (off, name) in fields {
                    if !ctx.mine() {
                        continue;
                    }
                    describe_case(&format!("C03 field {} {} {}", name, base.label(), mode.name()));
                    let mut b = base.body.clone();
                    for val in 0..=255u8 {
                        if val == base.body[*off] {
                            continue;
                        }
                        b[*off] = val;
                        ctx.cover(&(base.id, mode, "field", *off, val));
                        acc.s("field.values-swept", format!("{fam}.{name}"));
                        let desc = || format!("{name} octet {:#04x} -> {val:#04x}", base.body[*off]);
                        let m = reframe(&b);
                        for pat in pat_for(&pats, all, val as usize, big) {
                            let t = Trial { base, mode, kind: "field", desc: &desc, pat, probe: val % 16 == 0, cut: false };
                            if msg_level {
                                try_msg(ctx, &mut acc, &t, &m, val as u64);
                            }
                            try_direct(ctx, &mut acc, &t, &b, val as u64);
                        }
                    }
                    acc.flush_as(ctx, &format!("{fam}.field.{}", if base.msg.len() > 2000 { "big" } else { "small" }));
                }
                if let Cfg::V2 { .. } = base.cfg {
                    if ctx.mine() {
                        describe_case(&format!("C03 salt {} {}", base.label(), mode.name()));
                        let mut rng = ctx.rng("salt", base.id as u64);
                        let mut b = base.body.clone();
                        for off in 4..36 {
                            for k in 0..2 {
                                let mut val: u8 = rng.gen();
                                if val == base.body[off] {
                                    val = val.wrapping_add(1);
                                }
                                b[off] = val;
                                ctx.cover(&(base.id, mode, "salt", off, k));
                                let desc = || format!("salt octet {} -> {val:#04x}", off - 4);
                                let m = reframe(&b);
                                for pat in pat_for(&pats, false, off + k, big) {
                                    let t = Trial { base, mode, kind: "field", desc: &desc, pat, probe: false, cut: false };
                                    if msg_level {
                                        try_msg(ctx, &mut acc, &t, &m, (off + k) as u64);
                                    }
                                    try_direct(ctx, &mut acc, &t, &b, (off + k) as u64);
                                }
                                b[off] = base.body[off];
                            }
                        }
                        acc.flush_as(ctx, &format!("{fam}.salt.{}", if base.msg.len() > 2000 { "big" } else { "small" }));
                    }
                }
            }

            // ---- C: truncation at every offset: body re-framed, and the raw byte stream
            {
                let mut rng = ctx.rng("trunc-pos", base.id as u64);
                if base.framing != Framing::Partial {
                    let pos = positions(base.body.len(), plan.exhaustive_upto, &boundaries_of(base, false), &mut rng, plan.random_positions, if big { 16 } else { 24 });
                    if pos.len() == base.body.len() {
                        acc.s("trunc.exhaustive", format!("{}/{}", base.cfg.label(), base.size_class));
                    }
                    for group in pos.chunks(64) {
                        if !ctx.mine() {
                            continue;
                        }
                        describe_case(&format!("C03 trunc-reframed {} {} at {}..", base.label(), mode.name(), group[0]));
                        for &tl in group {
                            ctx.cover(&(base.id, mode, "trunc", tl));
                            let desc = || format!("container body truncated to {tl} of {} octets, packet re-framed", base.body.len());
                            let b = &base.body[..tl];
                            let m = reframe(b);
                            for pat in pats_for(&pats, small, tl, big, comp) {
                                let t = Trial { base, mode, kind: "trunc", desc: &desc, pat, probe: tl % 8 == 0, cut: false };
                                if msg_level {
                                    try_msg(ctx, &mut acc, &t, &m, tl as u64);
                                }
                                if tl >= 1 {
                                    try_direct(ctx, &mut acc, &t, b, tl as u64);
                                }
                            }
                        }
                        acc.flush_as(ctx, &format!("{fam}.trunc.{}", if base.msg.len() > 2000 { "big" } else { "small" }));
                    }
                }
                if msg_level {
                    let pos = positions(base.msg.len(), plan.exhaustive_upto, &boundaries_of(base, true), &mut rng, plan.random_positions, if big { 16 } else { 24 });
                    for group in pos.chunks(64) {
                        if !ctx.mine() {
                            continue;
                        }
                        describe_case(&format!("C03 trunc-raw {} {} at {}..", base.label(), mode.name(), group[0]));
                        for &tl in group {
                            ctx.cover(&(base.id, mode, "trunc-raw", tl));
                            let desc = || format!("raw message truncated to {tl} of {} octets", base.msg.len());
                            for pat in pats_for(&pats, small, tl, big, comp) {
                                let t = Trial { base, mode, kind: "trunc-raw", desc: &desc, pat, probe: tl % 8 == 0, cut: true };
                                try_msg(ctx, &mut acc, &t, &base.msg[..tl], tl as u64);
                            }
                        }
                        acc.flush_as(ctx, &format!("{fam}.trunc-raw.{}", if base.msg.len() > 2000 { "big" } else { "small" }));
                    }
                }
            }

            // ---- D: appended octets inside the re-framed container
            if base.framing != Framing::Partial && ctx.mine() {
                describe_case(&format!("C03 append {} {}", base.label(), mode.name()));
                let mut rng = ctx.rng("append", base.id as u64);
                for (k, (d, b)) in appendices(base, &mut rng).into_iter().enumerate() {
                    ctx.cover(&(base.id, mode, "append", k));
                    let desc = || d.clone();
                    let m = reframe(&b);
                    for pat in pats_for(&pats, !big, k, big, comp) {
                        let t = Trial { base, mode, kind: "append", desc: &desc, pat, probe: true, cut: false };
                        if msg_level {
                            try_msg(ctx, &mut acc, &t, &m, k as u64);
                        }
                        try_direct(ctx, &mut acc, &t, &b, k as u64);
                    }
                }
                acc.flush_as(ctx, &format!("{fam}.append.{}", if base.msg.len() > 2000 { "big" } else { "small" }));
            }

            // ---- E: AEAD chunk drop / duplicate / permute / tag swaps (v2); CFB block splices (v1)
            if base.framing != Framing::Partial && ctx.mine() {
                describe_case(&format!("C03 chunk/splice {} {}", base.label(), mode.name()));
                let mut rng = ctx.rng("splice", base.id as u64);
                let (kind, ops): (&'static str, Vec<(String, Vec<u8>)>) = match base.cfg {
                    Cfg::V2 { .. } => ("chunks", chunk_ops(base)),
                    Cfg::V1 { .. } => ("splice", cfb_splices(base, &mut rng)),
                };
                for (k, (d, b)) in ops.into_iter().enumerate() {
                    ctx.cover(&(base.id, mode, kind, k));
                    if d.starts_with("permute") {
                        acc.t("chunks.permutations");
                        acc.s("chunks.permuted-counts", chunk_idx_name((base.chunks.len() - 1) as u64));
                    }
                    let desc = || d.clone();
                    let m = reframe(&b);
                    for pat in pats_for(&pats, !big, k, big, comp) {
                        let t = Trial { base, mode, kind, desc: &desc, pat, probe: true, cut: false };
                        if msg_level {
                            try_msg(ctx, &mut acc, &t, &m, k as u64);
                        }
                        try_direct(ctx, &mut acc, &t, &b, k as u64);
                    }
                }
                acc.flush_as(ctx, &format!("{fam}.chunks-splice.{}", if base.msg.len() > 2000 { "big" } else { "small" }));
            }

            // ---- F: packet header: every other tag, wrong declared lengths; equivalent re-encodings as control
            if base.framing == Framing::Fixed && ctx.mine() {
                describe_case(&format!("C03 header {} {}", base.label(), mode.name()));
                for tag in 0..64u8 {
                    if tag == 18 {
                        continue;
                    }
                    let mut m = base.msg.clone();
                    m[0] = 0xC0 | tag;
                    ctx.cover(&(base.id, mode, "hdr-tag", tag));
                    let desc = || format!("packet tag 18 -> {tag}");
                    for pat in pats_for(&pats, false, tag as usize, big, comp) {
                        let t = Trial { base, mode, kind: "header", desc: &desc, pat, probe: false, cut: false };
                        try_msg(ctx, &mut acc, &t, &m, tag as u64);
                    }
                }
                let n = base.body.len() as i64;
                for d in [-23i64, -22, -17, -16, -2, -1, 1, 2, 16, 22, 8192] {
                    let decl = n + d;
                    if decl < 0 {
                        continue;
                    }
                    let mut m = vec![0xC0 | 18];
                    m.extend(rfc::frame::new_len(decl as u32, &LenForm::NewMin));
                    m.extend_from_slice(&base.body);
                    ctx.cover(&(base.id, mode, "hdr-len", d));
                    let desc = || format!("declared packet length {decl} instead of {n}");
                    for pat in pats_for(&pats, false, (d + 30) as usize, big, comp) {
                        let t = Trial { base, mode, kind: "header", desc: &desc, pat, probe: false, cut: false };
                        try_msg(ctx, &mut acc, &t, &m, (d + 30) as u64);
                    }
                }
                // control (NOT a tamper in the sense of the property): the same length written in the
                // 5-octet / 2-octet form leaves the container unchanged and must still decrypt
                let mut forms = vec![LenForm::New5];
                if (192..8384).contains(&base.body.len()) {
                    forms.push(LenForm::New2);
                }
                for f in forms {
                    if let Some(m) = rfc::frame::frame(18, &base.body, &f) {
                        if m == base.msg {
                            continue;
                        }
                        ctx.eval();
                        let m = base.wrap(&m, false);
                        match core::guard(|| run_message(&m, base, mode, &Consume::ToEnd, false, None, false)) {
                            Ok(Outcome::Read(d, _)) if d.err.is_none() && d.data == base.payload => acc.t("control.equivalent-length-encoding.decrypts"),
                            _ => {
                                acc.t("control.equivalent-length-encoding.rejected");
                                ctx.note(format!("control: {:?} length form of an untampered SEIPD packet was rejected ({})", f, base.label()));
                            }
                        }
                    }
                }
                acc.flush_as(ctx, &format!("{fam}.header.{}", if base.msg.len() > 2000 { "big" } else { "small" }));
                if sampled < 2 && mode != Mode::CheckFirstExact {
                    sampled += 1;
                    ctx.sample(json!({
                        "config": base.cfg.label(), "mode": base.mode_name(mode), "inner_stream_len": base.inner.len(), "size_class": base.size_class,
                        "message": hexs(&base.msg), "session_key": hex::encode(&base.key),
                        "tampers": "every bit flip, field value, truncation offset, append, chunk/block splice, header change of this message",
                        "regions": base.regions.iter().map(|(s, e, n)| format!("{n}:{s}..{e}")).collect::<Vec<_>>(),
                    }));
                }
            }
        }
    }
    acc.flush(ctx);
    ctx.seen("shard-cpu-s", format!("{}:{:.0}", ctx.shard, core::thread_cpu_s()));
    ctx.exhaustive = true;
}
