//! C15 — version alignment and criticality rules are enforced on every path.
//!
//! A rule table (R1..R6, DESIGN.md section 4); every rule is exercised on every public path
//! that implements it. Almost all artefacts are built by the independent reference (`rfc`),
//! because the library's own builders refuse to create them; signature values are made by
//! handing the *reference* digest to the raw `SigningKey::sign` primitive of a zoo key.

use std::io::Read;

use pgp::composed::{
    CleartextSignedMessage, DecryptionOptions, Deserializable, DetachedSignature, Esk, Message,
    PlainSessionKey, PublicOrSecret, SignedPublicKey, SignedSecretKey, TheRing, VerificationResult,
};
use pgp::crypto::hash::HashAlgorithm;
use pgp::crypto::sym::SymmetricKeyAlgorithm;
use pgp::packet::{
    PacketHeader, PublicKeyEncryptedSessionKey, Signature, SubpacketData, SubpacketType, UserId,
};
use pgp::ser::Serialize;
use pgp::types::{
    PacketHeaderVersion, Password, PkeskVersion, SignatureBytes, SigningKey,
    SkeskVersion, Tag, VerifyingKey,
};
use rand::RngCore;
use serde_json::json;

use crate::core::{describe_case, hexs, Ctx};
use crate::rfc;
use crate::rfc::frame::{deframe, frame, LenForm};
use crate::rfc::key::RefPub;
use crate::rfc::sig::{encode_subpacket, parse_sig, parse_subpackets, RefOps, RefSig};
use crate::rfc::sym::RefS2k;
use crate::zoo::{self, Alg, Spec};

/// RFC 9580 5.2.3.7 says a critical subpacket "unknown to the evaluating implementation" SHOULD
/// make the signature invalid. The library keeps ids 100..=110 in a named opaque variant
/// (`SubpacketData::Experimental`) and does *not* reject them when critical. DESIGN.md defines
/// "unknown" by the library's `Other` variant, so this cell is exercised and tallied but only
/// judged when this switch is on (reported to the maintainer as a potential finding).
const JUDGE_CRITICAL_EXPERIMENTAL: bool = true;
/// RFC 9580 10.1.1 also demands v4 subkeys under v4 primaries; the property text only states
/// the v6 direction. Exercised and tallied; judged only when this switch is on.
const JUDGE_V4_PRIMARY_V6_SUBKEY: bool = false;

const DATA: &[u8] = b"hello world";
const CTIME: u32 = 1_700_000_100;

type V = Result<(), String>;

fn es<E: std::fmt::Display>(e: E) -> String {
    e.to_string()
}

fn fr(tag: u8, body: &[u8]) -> Vec<u8> {
    frame(tag, body, &LenForm::NewMin).expect("frame")
}

fn sp(typ: u8, critical: bool, body: &[u8]) -> Vec<u8> {
    encode_subpacket(typ, critical, body, 0)
}

fn lit_packet(data: &[u8]) -> Vec<u8> {
    let mut b = vec![b'b', 0, 0, 0, 0, 0];
    b.extend_from_slice(data);
    fr(11, &b)
}

fn lib_sig(body: &[u8]) -> Result<Signature, String> {
    Signature::try_from_reader(PacketHeader::new_fixed(Tag::Signature, body.len() as u32), body)
        .map_err(|e| format!("parse: {e}"))
}

fn raw_sign(sk: &dyn SigningKey, hash_id: u8, digest: &[u8]) -> Result<Vec<u8>, String> {
    let sb = sk
        .sign(&Password::empty(), HashAlgorithm::from(hash_id), digest)
        .map_err(|e| format!("raw sign: {e}"))?;
    Ok(match sb {
        SignatureBytes::Mpis(m) => {
            let mut o = vec![];
            for x in m {
                o.extend(x.to_bytes().map_err(es)?);
            }
            o
        }
        SignatureBytes::Native(b) => b.to_vec(),
    })
}

fn hash_name(id: u8) -> Option<&'static str> {
    match id {
        8 => Some("SHA256"),
        10 => Some("SHA512"),
        _ => None,
    }
}

// ---------------------------------------------------------------------------------------------
// keys

struct Sub {
    pub_body: Vec<u8>,
    fp: Vec<u8>,
    kid: [u8; 8],
    alg: u8,
    v: u8,
    rp: RefPub,
    can_sign: bool,
}

struct K {
    name: String,
    ssk: SignedSecretKey,
    spk: SignedPublicKey,
    v: u8,
    alg: u8,
    pbody: Vec<u8>,
    fp: Vec<u8>,
    kid: [u8; 8],
    uid: Vec<u8>,
    subs: Vec<Sub>,
    /// hash algorithm used for this key's signatures, and one of the same digest size
    hash: u8,
    alt_hash: u8,
}

impl K {
    fn load(spec: &Spec, idx: u64) -> Result<K, String> {
        let ssk = zoo::key(spec, idx);
        Self::from_ssk(format!("{}#{}", spec.name(), idx), ssk)
    }
    fn from_ssk(name: String, ssk: SignedSecretKey) -> Result<K, String> {
        let spk = ssk.to_public_key();
        let pbody = ssk.primary_key.public_key().to_bytes().map_err(es)?;
        let (rp, n) = RefPub::parse_prefix(&pbody).ok_or("reference cannot parse primary")?;
        if n != pbody.len() {
            return Err("trailing bytes in primary".into());
        }
        let mut subs = vec![];
        for s in &ssk.secret_subkeys {
            let b = s.key.public_key().to_bytes().map_err(es)?;
            let (srp, _) = RefPub::parse_prefix(&b).ok_or("reference cannot parse subkey")?;
            subs.push(Sub {
                fp: srp.fingerprint(),
                kid: srp.key_id(),
                alg: srp.alg,
                v: srp.version,
                rp: srp,
                pub_body: b,
                can_sign: s.signatures.first().map(|x| x.key_flags().sign()).unwrap_or(false),
            });
        }
        let uid = ssk.details.users.first().map(|u| u.id.id().to_vec()).unwrap_or_default();
        // Ed448 needs a 512-bit digest
        let big_curve = rp.alg == 19
            && rp.material.first().is_some_and(|l| {
                let oid = rp.material.get(1..1 + *l as usize).unwrap_or(&[]);
                oid == rfc::key::OID_P384 || oid == rfc::key::OID_P521
            });
        let (hash, alt_hash) = if rp.alg == 28 || big_curve { (10, 14) } else { (8, 12) };
        Ok(K {
            hash,
            alt_hash,
            name,
            v: rp.version,
            alg: rp.alg,
            fp: rp.fingerprint(),
            kid: rp.key_id(),
            pbody,
            uid,
            subs,
            ssk,
            spk,
        })
    }
    fn enc_sub(&self) -> Option<usize> {
        self.subs.iter().position(|s| !s.can_sign)
    }
    fn sign_sub(&self) -> Option<usize> {
        self.subs.iter().position(|s| s.can_sign)
    }
}

// ---------------------------------------------------------------------------------------------
// reference-made signatures

#[derive(Clone, Copy, PartialEq, Eq, Debug, Hash)]
enum Kind {
    DocBin,
    DocText,
    Cert,
    SubBind,
    /// subkey binding of the signing subkey (key flags: sign) with embedded back signature
    SubBindSign,
    PrimBind,
    Direct,
}

#[derive(Clone, Debug)]
struct Scn {
    sig_v: u8,
    /// 0 = the key's default
    hash: u8,
    /// raw subpackets appended to the hashed area
    extra: Vec<u8>,
    issuer_fp: bool,
    issuer_kid: bool,
    /// replaces the body of the issuer fingerprint subpacket
    fp_body: Option<Vec<u8>>,
}

impl Scn {
    fn plain(sig_v: u8) -> Scn {
        Scn { sig_v, hash: 0, extra: vec![], issuer_fp: true, issuer_kid: false, fp_body: None }
    }
}

fn salt_for(hash: u8, tag: u8) -> Vec<u8> {
    let n = rfc::salt_len(hash).unwrap_or(16);
    (0..n).map(|i| (i as u8).wrapping_mul(7).wrapping_add(tag)).collect()
}

fn tmpl(v: u8, typ: u8, pub_alg: u8, hash: u8, hashed: Vec<u8>, unhashed: Vec<u8>, salt: Vec<u8>) -> RefSig {
    RefSig {
        version: v,
        typ,
        pub_alg,
        hash_alg: hash,
        created: 0,
        issuer: [0; 8],
        hashed,
        unhashed,
        left16: [0, 0],
        salt,
        sig_data: vec![],
        off_hashed: 0,
        off_unhashed: 0,
        off_left16: 0,
        off_salt: 0,
        off_sig: 0,
    }
}

/// Completes `rs` so that it carries `digest` (left16 + signature value made over it).
fn finish(sk: &dyn SigningKey, mut rs: RefSig, digest: &[u8], sign_hash: u8) -> Result<Vec<u8>, String> {
    rs.left16 = [digest[0], digest[1]];
    rs.sig_data = raw_sign(sk, sign_hash, digest)?;
    Ok(rs.encode())
}

fn make_sig(sk: &dyn SigningKey, rs: RefSig, content: &[&[u8]]) -> Result<Vec<u8>, String> {
    let d = rs.digest_over(content).ok_or("reference hash unsupported")?;
    let h = rs.hash_alg;
    finish(sk, rs, &d, h)
}

fn build_sig(k: &K, scn: &Scn, kind: Kind) -> Result<Vec<u8>, String> {
    let by_sub = kind == Kind::PrimBind;
    let si = k.sign_sub();
    let (sk, s_fp, s_kid, s_alg, s_v): (&dyn SigningKey, &[u8], [u8; 8], u8, u8) = if by_sub {
        let i = si.ok_or("no signing subkey")?;
        (&k.ssk.secret_subkeys[i].key, &k.subs[i].fp, k.subs[i].kid, k.subs[i].alg, k.subs[i].v)
    } else {
        (&k.ssk.primary_key, &k.fp, k.kid, k.alg, k.v)
    };
    let mut hashed = sp(2, false, &CTIME.to_be_bytes());
    if scn.issuer_fp {
        let body = scn.fp_body.clone().unwrap_or_else(|| {
            let mut b = vec![s_v];
            b.extend_from_slice(s_fp);
            b
        });
        hashed.extend(sp(33, false, &body));
    }
    if scn.issuer_kid {
        hashed.extend(sp(16, false, &s_kid));
    }
    let typ = match kind {
        Kind::DocBin => 0x00,
        Kind::DocText => 0x01,
        Kind::Cert => {
            hashed.extend(sp(27, false, &[0x03]));
            0x13
        }
        Kind::SubBind => {
            hashed.extend(sp(27, false, &[0x0C]));
            0x18
        }
        Kind::SubBindSign => {
            hashed.extend(sp(27, false, &[0x02]));
            let back = build_sig(k, &Scn::plain(k.subs[si.ok_or("no signing subkey")?].v), Kind::PrimBind)?;
            hashed.extend(sp(32, false, &back));
            0x18
        }
        Kind::PrimBind => 0x19,
        Kind::Direct => {
            hashed.extend(sp(27, false, &[0x03]));
            0x1F
        }
    };
    hashed.extend_from_slice(&scn.extra);
    let hash = if scn.hash == 0 { k.hash } else { scn.hash };
    let salt = if scn.sig_v == 6 { salt_for(hash, typ) } else { vec![] };
    let rs = tmpl(scn.sig_v, typ, s_alg, hash, hashed, vec![], salt);
    let kf = rfc::sig::key_hash_framing(&k.pbody);
    match kind {
        Kind::DocBin | Kind::DocText => make_sig(sk, rs, &[DATA]),
        Kind::Cert => {
            let uf = rfc::sig::uid_hash_framing(scn.sig_v, false, &k.uid);
            make_sig(sk, rs, &[&kf, &uf])
        }
        Kind::SubBind => {
            let i = k.enc_sub().ok_or("no encryption subkey")?;
            let sf = rfc::sig::key_hash_framing(&k.subs[i].pub_body);
            make_sig(sk, rs, &[&kf, &sf])
        }
        Kind::SubBindSign | Kind::PrimBind => {
            let i = si.ok_or("no signing subkey")?;
            let sf = rfc::sig::key_hash_framing(&k.subs[i].pub_body);
            make_sig(sk, rs, &[&kf, &sf])
        }
        Kind::Direct => make_sig(sk, rs, &[&kf]),
    }
}

fn ops_for(rs: &RefSig, k: &K) -> Vec<u8> {
    if rs.version == 6 {
        let mut issuer = k.fp.clone();
        issuer.resize(32, 0);
        RefOps { version: 6, typ: rs.typ, hash_alg: rs.hash_alg, pub_alg: rs.pub_alg, salt: rs.salt.clone(), issuer, last: 1 }.encode()
    } else {
        RefOps { version: 3, typ: rs.typ, hash_alg: rs.hash_alg, pub_alg: rs.pub_alg, salt: vec![], issuer: k.kid.to_vec(), last: 1 }.encode()
    }
}

// ---------------------------------------------------------------------------------------------
// verification paths

fn inline_verify(pk: &dyn VerifyingKey, bytes: &[u8], mode: u8) -> V {
    let mut m = Message::from_bytes(bytes).map_err(|e| format!("parse: {e}"))?;
    match mode {
        0 => m.verify_read(pk).map(|_| ()).map_err(es),
        1 => {
            let mut out = vec![];
            m.read_to_end(&mut out).map_err(|e| format!("read: {e}"))?;
            if out != DATA {
                return Err("payload differs".into());
            }
            m.verify(pk).map(|_| ()).map_err(es)
        }
        _ => {
            let mut out = vec![];
            m.read_to_end(&mut out).map_err(|e| format!("read: {e}"))?;
            let r = m.verify_nested(&[pk]).map_err(es)?;
            match r.first() {
                Some(VerificationResult::Valid(_)) => Ok(()),
                _ => Err("Invalid".into()),
            }
        }
    }
}

fn cleartext_doc(sig_body: &[u8], hash: u8, line_end: &str) -> String {
    let mut d = format!("-----BEGIN PGP SIGNED MESSAGE-----{line_end}");
    if let Some(h) = hash_name(hash) {
        d.push_str(&format!("Hash: {h}{line_end}"));
    }
    d.push_str(line_end);
    d.push_str(std::str::from_utf8(DATA).unwrap());
    d.push_str(line_end);
    d.push_str(&rfc::armor::armor_encode("PGP SIGNATURE", &[], &fr(2, sig_body), true, line_end));
    d
}

#[derive(Clone)]
struct Pk {
    tag: u8,
    body: Vec<u8>,
}

fn ser(p: &[Pk]) -> Vec<u8> {
    p.iter().flat_map(|x| fr(x.tag, &x.body)).collect()
}

fn tsk_packets(ssk: &SignedSecretKey) -> Result<Vec<Pk>, String> {
    let b = ssk.to_bytes().map_err(es)?;
    Ok(deframe(&b)?.into_iter().map(|p| Pk { tag: p.tag, body: p.body }).collect())
}

/// Reference re-framing secret -> public: tags 5->6, 7->14, body cut after the public part.
fn to_tpk(p: &[Pk]) -> Option<Vec<Pk>> {
    let mut o = vec![];
    for x in p {
        match x.tag {
            5 | 7 => {
                let (_, n) = RefPub::parse_prefix(&x.body)?;
                o.push(Pk { tag: if x.tag == 5 { 6 } else { 14 }, body: x.body[..n].to_vec() });
            }
            _ => o.push(x.clone()),
        }
    }
    Some(o)
}

/// index of the first signature packet following the n-th packet whose tag is in `anchors`
fn sig_after(p: &[Pk], anchors: &[u8], nth: usize) -> Option<usize> {
    let a = p.iter().enumerate().filter(|(_, x)| anchors.contains(&x.tag)).nth(nth)?.0;
    (p.get(a + 1)?.tag == 2).then_some(a + 1)
}

fn tpk_verdict(bytes: &[u8]) -> V {
    let k = SignedPublicKey::from_bytes(bytes).map_err(|e| format!("parse: {e}"))?;
    k.verify_bindings().map_err(es)
}
fn tsk_verdict(bytes: &[u8]) -> V {
    let k = SignedSecretKey::from_bytes(bytes).map_err(|e| format!("parse: {e}"))?;
    k.verify_bindings().map_err(es)
}

/// Runs every verification path for signatures made under `scn` by key `k`.
/// Returns (path, verdict) pairs; a path whose artefact could not be built is reported as
/// Err("build: ..") under path "build/<kind>".
fn run_sig_paths(k: &K, scn: &Scn, thorough: bool) -> Vec<(String, V)> {
    let mut out: Vec<(String, V)> = vec![];
    let pk = &k.spk.primary_key;
    // ---- document signatures
    match build_sig(k, scn, Kind::DocBin) {
        Err(e) => out.push(("build/doc".into(), Err(format!("build: {e}")))),
        Ok(body) => {
            out.push(("sig-verify".into(), lib_sig(&body).and_then(|s| s.verify(pk, DATA).map_err(es))));
            out.push((
                "detached".into(),
                DetachedSignature::from_bytes(&fr(2, &body)[..])
                    .map_err(|e| format!("parse: {e}"))
                    .and_then(|d| d.verify(pk, DATA).map_err(es)),
            ));
            let rs = parse_sig(&body).expect("own sig");
            let mut pre = fr(2, &body);
            pre.extend(lit_packet(DATA));
            let mut one = fr(4, &ops_for(&rs, k));
            one.extend(lit_packet(DATA));
            one.extend(fr(2, &body));
            for (name, bytes) in [("inline-prefixed", &pre), ("inline-onepass", &one)] {
                out.push((format!("{name}/verify_read"), inline_verify(pk, bytes, 0)));
                out.push((format!("{name}/verify"), inline_verify(pk, bytes, 1)));
                out.push((format!("{name}/verify_nested"), inline_verify(pk, bytes, 2)));
            }
            if thorough {
                let arm = rfc::armor::armor_encode("PGP MESSAGE", &[], &one, true, "\n");
                let r = Message::from_armor(arm.as_bytes())
                    .map_err(|e| format!("parse: {e}"))
                    .and_then(|(mut m, _)| m.verify_read(pk).map(|_| ()).map_err(es));
                out.push(("inline-onepass/armored".into(), r));
            }
        }
    }
    match build_sig(k, scn, Kind::DocText) {
        Err(e) => out.push(("build/text".into(), Err(format!("build: {e}")))),
        Ok(body) => {
            out.push(("sig-verify-text".into(), lib_sig(&body).and_then(|s| s.verify(pk, DATA).map_err(es))));
            for (n, le) in [("cleartext", "\n"), ("cleartext-crlf", "\r\n")] {
                if n == "cleartext-crlf" && !thorough {
                    continue;
                }
                let doc = cleartext_doc(&body, if scn.hash == 0 { k.hash } else { scn.hash }, le);
                out.push((
                    n.into(),
                    CleartextSignedMessage::from_string(&doc)
                        .map_err(|e| format!("parse: {e}"))
                        .and_then(|(m, _)| m.verify(pk).map(|_| ()).map_err(es)),
                ));
            }
        }
    }
    // ---- key signatures, low level
    let uid = UserId::from_str(PacketHeaderVersion::New, String::from_utf8_lossy(&k.uid)).expect("uid");
    let pkts = tsk_packets(&k.ssk);
    let cert_variant = |out: &mut Vec<(String, V)>, name: &str, f: &dyn Fn(&mut Vec<Pk>) -> Option<()>| {
        let Ok(p) = &pkts else {
            out.push((format!("build/{name}"), Err("build: cannot deframe key".into())));
            return;
        };
        let mut p = p.clone();
        if f(&mut p).is_none() {
            out.push((format!("build/{name}"), Err("build: cert layout".into())));
            return;
        }
        out.push((format!("{name}/tsk"), tsk_verdict(&ser(&p))));
        match to_tpk(&p) {
            Some(t) => out.push((format!("{name}/tpk"), tpk_verdict(&ser(&t)))),
            None => out.push((format!("build/{name}"), Err("build: to_tpk".into()))),
        }
    };
    match build_sig(k, scn, Kind::Cert) {
        Err(e) => out.push(("build/cert".into(), Err(format!("build: {e}")))),
        Ok(body) => {
            out.push(("certification".into(), lib_sig(&body).and_then(|s| s.verify_certification(pk, Tag::UserId, &uid).map_err(es))));
            cert_variant(&mut out, "cert-uid", &|p| {
                let i = sig_after(p, &[13], 0)?;
                p[i].body = body.clone();
                Some(())
            });
        }
    }
    match build_sig(k, scn, Kind::Direct) {
        Err(e) => out.push(("build/direct".into(), Err(format!("build: {e}")))),
        Ok(body) => {
            out.push(("direct-key".into(), lib_sig(&body).and_then(|s| s.verify_key(pk).map_err(es))));
            cert_variant(&mut out, "cert-direct", &|p| {
                match sig_after(p, &[5], 0) {
                    Some(i) => p[i].body = body.clone(),
                    None => p.insert(1, Pk { tag: 2, body: body.clone() }),
                }
                Some(())
            });
        }
    }
    if let Some(ei) = k.enc_sub() {
        match build_sig(k, scn, Kind::SubBind) {
            Err(e) => out.push(("build/subbind".into(), Err(format!("build: {e}")))),
            Ok(body) => {
                let sub = k.ssk.secret_subkeys[ei].key.public_key();
                out.push(("subkey-binding".into(), lib_sig(&body).and_then(|s| s.verify_subkey_binding(pk, sub).map_err(es))));
                cert_variant(&mut out, "cert-subkey", &|p| {
                    let i = sig_after(p, &[7], ei)?;
                    p[i].body = body.clone();
                    Some(())
                });
            }
        }
    }
    if let Some(si) = k.sign_sub() {
        let sub = k.ssk.secret_subkeys[si].key.public_key();
        match build_sig(k, scn, Kind::PrimBind) {
            Err(e) => out.push(("build/primbind".into(), Err(format!("build: {e}")))),
            Ok(back) => {
                out.push(("primary-key-binding".into(), lib_sig(&back).and_then(|s| s.verify_primary_key_binding(sub, pk).map_err(es))));
                // certificate whose signing subkey binding (aligned, valid) embeds this back signature
                let outer = (|| -> Result<Vec<u8>, String> {
                    let mut hashed = sp(2, false, &CTIME.to_be_bytes());
                    let mut fpb = vec![k.v];
                    fpb.extend_from_slice(&k.fp);
                    hashed.extend(sp(33, false, &fpb));
                    hashed.extend(sp(27, false, &[0x02]));
                    hashed.extend(sp(32, false, &back));
                    let salt = if k.v == 6 { salt_for(k.hash, 0x18) } else { vec![] };
                    let rs = tmpl(if k.v == 6 { 6 } else { 4 }, 0x18, k.alg, k.hash, hashed, vec![], salt);
                    make_sig(&k.ssk.primary_key, rs, &[&rfc::sig::key_hash_framing(&k.pbody), &rfc::sig::key_hash_framing(&k.subs[si].pub_body)])
                })();
                match outer {
                    Err(e) => out.push(("build/backsig-cert".into(), Err(format!("build: {e}")))),
                    Ok(ob) => cert_variant(&mut out, "cert-backsig", &|p| {
                        let i = sig_after(p, &[7], si)?;
                        p[i].body = ob.clone();
                        Some(())
                    }),
                }
            }
        }
        match build_sig(k, scn, Kind::SubBindSign) {
            Err(e) => out.push(("build/subbindsign".into(), Err(format!("build: {e}")))),
            Ok(body) => {
                out.push(("subkey-binding-sign".into(), lib_sig(&body).and_then(|s| s.verify_subkey_binding(pk, sub).map_err(es))));
                cert_variant(&mut out, "cert-signsubkey", &|p| {
                    let i = sig_after(p, &[7], si)?;
                    p[i].body = body.clone();
                    Some(())
                });
            }
        }
    }
    out
}

/// Judges the verdicts of one scenario. `expect_accept`: what every path must say.
/// `only`: restricts judged/recorded paths (prefix match), None = all.
fn judge_paths(
    ctx: &mut Ctx,
    rule: &str,
    case: &str,
    k: &K,
    res: Vec<(String, V)>,
    expect_accept: bool,
    replay: serde_json::Value,
) {
    for (path, v) in res {
        ctx.eval();
        if path.starts_with("build/") {
            ctx.inconclusive(format!("{rule}: cannot build artefact {path} for {case}: {}", v.err().unwrap_or_default()));
            continue;
        }
        ctx.seen(&format!("{rule}.cells"), format!("{path}|{case}"));
        ctx.seen(&format!("{rule}.paths"), path.clone());
        ctx.cover(&(rule, &path, case, &k.name, replay.to_string()));
        match (&v, expect_accept) {
            (Ok(()), false) => ctx.violation(
                format!("C15/{rule}/{path}/{case}/accepted"),
                format!("{rule} {case}: path {path} accepted (key {})", k.name),
                json!({"rule": rule, "case": case, "path": path, "key": k.name, "detail": replay}),
            ),
            (Err(e), true) => ctx.violation(
                format!("C15/{rule}/{path}/{case}/rejected-unexpectedly"),
                format!("{rule} {case}: path {path} rejected a valid artefact: {e} (key {})", k.name),
                json!({"rule": rule, "case": case, "path": path, "key": k.name, "detail": replay}),
            ),
            (Err(e), false) => {
                let short: String = e.chars().take(48).collect();
                ctx.seen(&format!("{rule}.why"), format!("{case}|{path}|{short}"));
            }
            _ => {}
        }
    }
}

// ---------------------------------------------------------------------------------------------
// R1 / R5: ESK x container x options

#[derive(Clone, Copy, PartialEq, Eq, Debug, Hash)]
enum EskK {
    P3,
    P6,
    S4,
    S5,
    S6,
}
const ESKS: [EskK; 5] = [EskK::P3, EskK::P6, EskK::S4, EskK::S5, EskK::S6];

#[derive(Clone, Copy, PartialEq, Eq, Debug, Hash)]
enum Cont {
    Sed,
    V1,
    V2,
    G20,
}
const CONTS: [Cont; 4] = [Cont::Sed, Cont::V1, Cont::V2, Cont::G20];

#[derive(Clone, Copy, PartialEq, Eq, Debug, Hash)]
struct Opts {
    legacy: bool,
    gnupg: bool,
}
const OPTS: [Opts; 4] = [
    Opts { legacy: false, gnupg: false },
    Opts { legacy: true, gnupg: false },
    Opts { legacy: false, gnupg: true },
    Opts { legacy: true, gnupg: true },
];

impl EskK {
    fn name(self) -> &'static str {
        match self {
            EskK::P3 => "pkesk3",
            EskK::P6 => "pkesk6",
            EskK::S4 => "skesk4",
            EskK::S5 => "skesk5",
            EskK::S6 => "skesk6",
        }
    }
    fn is_pk(self) -> bool {
        matches!(self, EskK::P3 | EskK::P6)
    }
}
impl Cont {
    fn name(self) -> &'static str {
        match self {
            Cont::Sed => "sed",
            Cont::V1 => "seipd1",
            Cont::V2 => "seipd2",
            Cont::G20 => "gnupg20",
        }
    }
}
impl Opts {
    fn name(self) -> &'static str {
        match (self.legacy, self.gnupg) {
            (false, false) => "opt-default",
            (true, false) => "opt-legacy",
            (false, true) => "opt-gnupg",
            (true, true) => "opt-legacy+gnupg",
        }
    }
    fn lib(self) -> DecryptionOptions {
        let mut o = DecryptionOptions::new();
        if self.legacy {
            o = o.enable_legacy();
        }
        if self.gnupg {
            o = o.enable_gnupg_aead();
        }
        o
    }
}

/// RFC 9580 10.3.2.1 (+ the documented GnuPG extension): Some(true) aligned, Some(false)
/// must be discarded, None = not specified by either document (SKESK v4 in front of a
/// LibrePGP OCB packet) -> only the opt-in is judged.
fn aligned(e: EskK, c: Cont) -> Option<bool> {
    Some(match (c, e) {
        (Cont::Sed | Cont::V1, EskK::P3 | EskK::S4) => true,
        (Cont::Sed | Cont::V1, _) => false,
        (Cont::V2, EskK::P6 | EskK::S6) => true,
        (Cont::V2, _) => false,
        (Cont::G20, EskK::P3 | EskK::S5) => true,
        (Cont::G20, EskK::S4) => return None,
        (Cont::G20, _) => false,
    })
}

fn optin_ok(e: EskK, c: Cont, o: Opts) -> bool {
    (c != Cont::Sed || o.legacy) && (c != Cont::G20 || o.gnupg) && (e != EskK::S5 || o.gnupg)
}

/// LibrePGP (draft-koch-librepgp) OCB encrypted data packet body, version 1.
fn gnupg_aead_encrypt(sym: u8, chunk_octet: u8, iv: &[u8; 15], key: &[u8], data: &[u8]) -> Option<Vec<u8>> {
    let cs = 1usize << (chunk_octet as usize + 6);
    let mut out = vec![1u8, sym, 2, chunk_octet];
    out.extend_from_slice(iv);
    let nonce_for = |idx: u64| {
        let mut n = iv.to_vec();
        for (i, b) in idx.to_be_bytes().iter().enumerate() {
            n[7 + i] ^= b;
        }
        n
    };
    let ad_for = |idx: u64| {
        let mut ad = vec![0xD4u8, 1, sym, 2, chunk_octet];
        ad.extend(idx.to_be_bytes());
        ad
    };
    let mut idx = 0u64;
    for c in data.chunks(cs) {
        out.extend(rfc::sym::aead_seal(sym, 2, key, &nonce_for(idx), &ad_for(idx), c)?);
        idx += 1;
    }
    let mut ad = ad_for(idx);
    ad.extend((data.len() as u64).to_be_bytes());
    out.extend(rfc::sym::aead_seal(sym, 2, key, &nonce_for(idx), &ad, &[])?);
    Some(out)
}

fn gnupg_aead_decrypt(body: &[u8], key: &[u8]) -> Option<Vec<u8>> {
    if body.len() < 19 + 16 || body[0] != 1 || body[2] != 2 {
        return None;
    }
    let (sym, co) = (body[1], body[3]);
    let iv: [u8; 15] = body[4..19].try_into().ok()?;
    let cs = 1usize << (co as usize + 6);
    let ct = &body[19..];
    let (chunks, fin) = ct.split_at(ct.len() - 16);
    let nonce_for = |idx: u64| {
        let mut n = iv.to_vec();
        for (i, b) in idx.to_be_bytes().iter().enumerate() {
            n[7 + i] ^= b;
        }
        n
    };
    let mut out = vec![];
    let mut idx = 0u64;
    for c in chunks.chunks(cs + 16) {
        let mut ad = vec![0xD4u8, 1, sym, 2, co];
        ad.extend(idx.to_be_bytes());
        out.extend(rfc::sym::aead_open(sym, 2, key, &nonce_for(idx), &ad, c)?.ok()?);
        idx += 1;
    }
    let mut ad = vec![0xD4u8, 1, sym, 2, co];
    ad.extend(idx.to_be_bytes());
    ad.extend((out.len() as u64).to_be_bytes());
    rfc::sym::aead_open(sym, 2, key, &nonce_for(idx), &ad, fin)?.ok()?;
    Some(out)
}

/// LibrePGP v5 SKESK body: 5, cipher, mode(2), S2K, IV, AEAD(key = S2K output, ad = C3 05 cipher mode).
fn skesk_v5_encode(sym: u8, s2k: &RefS2k, pw: &[u8], iv: &[u8; 15], sk: &[u8]) -> Option<Vec<u8>> {
    let kek = s2k.derive(pw, rfc::sym::key_size(sym)?)?;
    let ad = [0xC3u8, 5, sym, 2];
    let mut o = vec![5u8, sym, 2];
    o.extend(s2k.encode());
    o.extend_from_slice(iv);
    o.extend(rfc::sym::aead_seal(sym, 2, &kek, iv, &ad, sk)?);
    Some(o)
}

/// Anchors the two LibrePGP encoders on the sample of draft-koch-librepgp ("complete OCB
/// encrypted packet sequence", password "password").
fn librepgp_selfcheck() -> Result<(), String> {
    let skesk5 = hex::decode("c33d050702030 89f0b7da3e5ea64779099e326e5400a90936cefb4e8eba08c6773716d1f2714540a38fcac529949dac529d3de31e15b4aeb729e330033dbed".replace(' ', "")).map_err(es)?;
    let ocb = hex::decode("d4490107020e5ed2bc1e470abe8f1d644c7a6c8a567b0f7701196611a154ba9c2574cd056284a8ef68035c623d93cc708a43211bb6eaf2b27f7c18d571bcd83b20add3a08b73af15b9a098").map_err(es)?;
    let cek = hex::decode("d1f01ba30e130aa7d2582c16e050ae44").map_err(es)?;
    let s2k = RefS2k::Iterated { hash: 8, salt: [0x9f, 0x0b, 0x7d, 0xa3, 0xe5, 0xea, 0x64, 0x77], count: 144 };
    let iv: [u8; 15] = skesk5[16..31].try_into().map_err(|_| "iv")?;
    let mine = skesk_v5_encode(7, &s2k, b"password", &iv, &cek).ok_or("skesk5 encode")?;
    if mine != skesk5[2..] {
        return Err("reference SKESK v5 differs from the LibrePGP sample".into());
    }
    let body = &ocb[2..];
    let pt = gnupg_aead_decrypt(body, &cek).ok_or("reference cannot open the LibrePGP OCB sample")?;
    let iv2: [u8; 15] = body[4..19].try_into().map_err(|_| "iv")?;
    let again = gnupg_aead_encrypt(body[1], body[3], &iv2, &cek, &pt).ok_or("ocb encode")?;
    if again != body {
        return Err("reference OCB packet differs from the LibrePGP sample".into());
    }
    Ok(())
}

/// One recipient for PKESK packets
struct Rcpt {
    k: K,
    sub: usize,
}

fn build_pkesk(r: &Rcpt, v6: bool, sym: u8, sk: &[u8], seed: &[u8; 32], rng: &mut rand_chacha::ChaCha8Rng) -> Result<Vec<u8>, String> {
    let s = &r.k.subs[r.sub];
    let mut body = if v6 {
        let mut b = vec![6u8, 1 + s.fp.len() as u8, s.v];
        b.extend_from_slice(&s.fp);
        b
    } else {
        let mut b = vec![3u8];
        b.extend_from_slice(&s.kid);
        b
    };
    match s.alg {
        25 => {
            body.push(25);
            let rp: [u8; 32] = s.rp.material[..].try_into().map_err(|_| "x25519 material")?;
            let (eph, wrapped) = rfc::key::x25519_wrap(&rp, seed, sk).ok_or("x25519 wrap")?;
            body.extend(eph);
            if v6 {
                body.push(wrapped.len() as u8);
            } else {
                body.push(1 + wrapped.len() as u8);
                body.push(sym);
            }
            body.extend(wrapped);
            Ok(body)
        }
        18 => {
            body.push(18);
            let ep = rfc::key::parse_ecdh_material(&s.rp.material).ok_or("ecdh material")?;
            let plain = if v6 { rfc::sym::session_key_v6(sk) } else { rfc::sym::session_key_v3(sym, sk) };
            body.extend(rfc::key::ecdh_wrap(&ep, &s.fp, seed, &plain).ok_or("ecdh wrap")?);
            Ok(body)
        }
        _ => {
            // RSA (no independent big-number arithmetic in the harness): library encoder
            let enc = r.k.ssk.secret_subkeys[r.sub].key.public_key();
            let raw: pgp::composed::RawSessionKey = sk.into();
            let p = if v6 {
                PublicKeyEncryptedSessionKey::from_session_key_v6(&mut *rng, &raw, enc)
            } else {
                PublicKeyEncryptedSessionKey::from_session_key_v3(&mut *rng, &raw, SymmetricKeyAlgorithm::from(sym), enc)
            };
            p.map_err(es)?.to_bytes().map_err(es)
        }
    }
}

const PW: &[u8] = b"correct horse";

struct R1Params {
    sym: u8,
    aead: u8,
    chunk: u8,
    payload: Vec<u8>,
}

fn build_esk(e: EskK, r: &Rcpt, p: &R1Params, sk: &[u8], rng: &mut rand_chacha::ChaCha8Rng) -> Result<Vec<u8>, String> {
    let mut seed = [0u8; 32];
    rng.fill_bytes(&mut seed);
    let mut salt8 = [0u8; 8];
    rng.fill_bytes(&mut salt8);
    let s2k = RefS2k::Iterated { hash: 8, salt: salt8, count: 16 };
    Ok(match e {
        EskK::P3 => fr(1, &build_pkesk(r, false, p.sym, sk, &seed, rng)?),
        EskK::P6 => fr(1, &build_pkesk(r, true, p.sym, sk, &seed, rng)?),
        EskK::S4 => fr(3, &rfc::sym::skesk_v4_encode(p.sym, &s2k, PW, Some((p.sym, sk))).ok_or("skesk4")?),
        EskK::S5 => {
            let iv: [u8; 15] = seed[..15].try_into().unwrap();
            fr(3, &skesk_v5_encode(p.sym, &s2k, PW, &iv, sk).ok_or("skesk5")?)
        }
        EskK::S6 => {
            let n = rfc::sym::aead_nonce_len(p.aead).ok_or("aead")?;
            fr(3, &rfc::sym::skesk_v6_encode(p.sym, p.aead, &s2k, PW, &seed[..n], sk).ok_or("skesk6")?)
        }
    })
}

fn build_cont(c: Cont, p: &R1Params, sk: &[u8], rng: &mut rand_chacha::ChaCha8Rng) -> Result<Vec<u8>, String> {
    let inner = lit_packet(&p.payload);
    let bs = rfc::sym::block_size(p.sym).ok_or("cipher")?;
    let mut prefix = vec![0u8; bs];
    rng.fill_bytes(&mut prefix);
    let mut salt = [0u8; 32];
    rng.fill_bytes(&mut salt);
    Ok(match c {
        Cont::Sed => fr(9, &rfc::sym::sed_encrypt(p.sym, sk, &prefix, &inner).ok_or("sed")?),
        Cont::V1 => {
            let mut b = vec![1u8];
            b.extend(rfc::sym::seipd_v1_encrypt(p.sym, sk, &prefix, &inner).ok_or("seipd1")?);
            fr(18, &b)
        }
        Cont::V2 => fr(18, &rfc::sym::seipd_v2_encrypt(p.sym, p.aead, p.chunk, &salt, sk, &inner).ok_or("seipd2")?),
        Cont::G20 => {
            let iv: [u8; 15] = salt[..15].try_into().unwrap();
            fr(20, &gnupg_aead_encrypt(p.sym, p.chunk, &iv, sk, &inner).ok_or("gnupg20")?)
        }
    })
}

#[derive(Debug, Clone, PartialEq, Eq)]
enum Dec {
    Plain(Vec<u8>),
    Fail { stage: &'static str, err: String, missing_key: bool },
}

impl Dec {
    fn brief(&self) -> String {
        match self {
            Dec::Plain(p) => format!("plaintext({} bytes)", p.len()),
            Dec::Fail { stage, err, .. } => format!("{stage}: {err}"),
        }
    }
}

enum How<'a> {
    Key(&'a SignedSecretKey),
    KeyLegacy(&'a SignedSecretKey),
    Pw,
    Session(PlainSessionKey),
    Ring { ssk: Option<&'a SignedSecretKey>, pw: bool, sess: Option<PlainSessionKey>, opts: Opts, abort_early: bool },
}

fn run_decrypt(bytes: &[u8], how: How<'_>) -> (Dec, Option<Vec<String>>) {
    let m = match Message::from_bytes(bytes) {
        Ok(m) => m,
        Err(e) => return (Dec::Fail { stage: "parse", err: e.to_string(), missing_key: false }, None),
    };
    let esk_versions = match &m {
        Message::Encrypted { esk, .. } => Some(
            esk.iter()
                .map(|e| match e {
                    Esk::PublicKeyEncryptedSessionKey(p) => match p.version() {
                        PkeskVersion::V3 => "pkesk3".to_string(),
                        PkeskVersion::V6 => "pkesk6".to_string(),
                        o => format!("pkesk{o:?}"),
                    },
                    Esk::SymKeyEncryptedSessionKey(s) => match s.version() {
                        SkeskVersion::V4 => "skesk4".to_string(),
                        SkeskVersion::V5 => "skesk5".to_string(),
                        SkeskVersion::V6 => "skesk6".to_string(),
                        o => format!("skesk{o:?}"),
                    },
                })
                .collect::<Vec<_>>(),
        ),
        _ => None,
    };
    let empty = Password::empty();
    let pw = Password::from(PW);
    let r = match how {
        How::Key(k) => m.decrypt(&empty, k),
        How::KeyLegacy(k) => m.decrypt_legacy(&empty, k),
        How::Pw => m.decrypt_with_password(&pw),
        How::Session(s) => m.decrypt_with_session_key(s),
        How::Ring { ssk, pw: use_pw, sess, opts, abort_early } => {
            let ring = TheRing {
                secret_keys: ssk.into_iter().collect(),
                key_passwords: vec![&empty],
                message_password: if use_pw { vec![&pw] } else { vec![] },
                session_keys: sess.into_iter().collect(),
                decrypt_options: opts.lib(),
            };
            m.decrypt_the_ring(ring, abort_early).map(|(m, _)| m)
        }
    };
    let d = match r {
        Err(e) => Dec::Fail { stage: "decrypt", missing_key: matches!(e, pgp::errors::Error::MissingKey), err: e.to_string() },
        Ok(mut m) => match m.as_data_vec() {
            Ok(d) => Dec::Plain(d),
            Err(e) => Dec::Fail { stage: "read", err: e.to_string(), missing_key: false },
        },
    };
    (d, esk_versions)
}

fn session_for(e: EskK, sym: u8, sk: &[u8]) -> PlainSessionKey {
    match e {
        EskK::P3 | EskK::S4 => PlainSessionKey::V3_4 { sym_alg: SymmetricKeyAlgorithm::from(sym), key: sk.into() },
        EskK::S5 => PlainSessionKey::V5 { key: sk.into() },
        EskK::P6 | EskK::S6 => PlainSessionKey::V6 { key: sk.into() },
    }
}

/// Judges one decryption outcome of the R1/R5 table.
#[allow(clippy::too_many_arguments)]
fn judge_r1(
    ctx: &mut Ctx,
    path: &str,
    e: EskK,
    c: Cont,
    o: Opts,
    payload: &[u8],
    d: &Dec,
    baseline: Option<&Dec>,
    replay: &serde_json::Value,
) {
    ctx.eval();
    let case = format!("{}+{}/{}", e.name(), c.name(), o.name());
    ctx.seen("R1.cells", format!("{path}|{case}"));
    ctx.seen("R1.paths", path);
    let al = aligned(e, c);
    let opt = optin_ok(e, c, o);
    let optin_cell = c == Cont::Sed || c == Cont::G20 || e == EskK::S5;
    if optin_cell {
        ctx.seen("R5.cells", format!("{path}|{case}"));
    }
    let rp = || json!({"path": path, "case": case, "outcome": d.brief(), "input": replay});
    match d {
        Dec::Plain(p) if p != payload => {
            ctx.violation(format!("C15/R1/{path}/{case}/wrong-plaintext"), "decryption released a different plaintext", rp());
        }
        Dec::Plain(_) => {
            if al == Some(false) {
                ctx.violation(
                    format!("C15/R1/{path}/{case}/accepted"),
                    format!("{} in front of {} must be discarded (RFC 9580 10.3.2.1) but the message decrypted", e.name(), c.name()),
                    rp(),
                );
            } else if !opt {
                ctx.violation(
                    format!("C15/R5/{path}/{case}/accepted-without-optin"),
                    format!("{} / {} decrypted although the required DecryptionOptions opt-in is absent", e.name(), c.name()),
                    rp(),
                );
            } else if al.is_none() {
                ctx.tally("R1.unspecified-pairing.accepted", 1);
            }
        }
        Dec::Fail { missing_key, .. } => {
            if al == Some(true) && opt {
                let rule = if optin_cell { "R5" } else { "R1" };
                ctx.violation(
                    format!("C15/{rule}/{path}/{case}/rejected-unexpectedly"),
                    format!("aligned {} + {} with the needed opt-in failed: {}", e.name(), c.name(), d.brief()),
                    rp(),
                );
            } else if al == Some(false) {
                // "ignored": the message must behave exactly like the same message without the ESK
                if let Some(b) = baseline {
                    if b != d || !missing_key {
                        ctx.violation(
                            format!("C15/R1/{path}/{case}/not-ignored"),
                            format!("misaligned ESK is not discarded: outcome '{}' but the message without that ESK gives '{}'", d.brief(), b.brief()),
                            rp(),
                        );
                    }
                }
            } else if al.is_none() {
                ctx.tally("R1.unspecified-pairing.rejected", 1);
            } else if e == EskK::S5 && !o.gnupg {
                // documented: v5 SKESK support is part of the gnupg opt-in; without it the packet
                // must not be used at all, i.e. the message behaves as if it were absent
                if let Some(b) = baseline {
                    if b != d || !missing_key {
                        ctx.violation(
                            format!("C15/R5/{path}/{case}/skesk5-used-without-optin"),
                            format!("v5 SKESK processed without enable_gnupg_aead: outcome '{}' but without the packet '{}'", d.brief(), b.brief()),
                            rp(),
                        );
                    }
                }
            }
        }
    }
}

fn r1_params(ctx: &Ctx) -> Vec<R1Params> {
    let mut v = vec![R1Params { sym: 7, aead: 2, chunk: 0, payload: (0..150u8).collect() }];
    if !ctx.quick() {
        v.push(R1Params { sym: 9, aead: 1, chunk: 1, payload: (0..=255u8).cycle().take(700).collect() });
        v.push(R1Params { sym: 8, aead: 3, chunk: 6, payload: b"x".to_vec() });
    }
    v
}

fn run_r1(ctx: &mut Ctx, rcpts: &[Rcpt]) {
    let params = r1_params(ctx);
    let mut gi = 0u64;
    for (pi, p) in params.iter().enumerate() {
        for r in rcpts {
            for c in CONTS {
                // ---- single ESK table
                for e in ESKS {
                    gi += 1;
                    if !ctx.mine() {
                        continue;
                    }
                    describe_case(&format!("R1 single {} {} {} p{pi}", r.k.name, e.name(), c.name()));
                    let mut rng = ctx.rng("R1", gi);
                    let ks = rfc::sym::key_size(p.sym).unwrap();
                    let mut sk = vec![0u8; ks];
                    rng.fill_bytes(&mut sk);
                    let (esk, cont) = match (build_esk(e, r, p, &sk, &mut rng), build_cont(c, p, &sk, &mut rng)) {
                        (Ok(a), Ok(b)) => (a, b),
                        (a, b) => {
                            ctx.inconclusive(format!("R1 generator: {:?} {:?}", a.err(), b.err()));
                            continue;
                        }
                    };
                    let mut msg = esk.clone();
                    msg.extend_from_slice(&cont);
                    let replay = json!({"key": r.k.name, "msg": hexs(&msg), "session_key": hexs(&sk), "password": String::from_utf8_lossy(PW)});
                    ctx.cover(&("R1", &r.k.name, e, c, pi));
                    if gi % 7 == 0 {
                        ctx.sample(json!({"rule": "R1", "esk": e.name(), "container": c.name(), "msg": hexs(&msg)}));
                    }
                    // direct observation of the filter
                    let (_, versions) = run_decrypt(&msg, How::Session(session_for(e, p.sym, &sk)));
                    ctx.eval();
                    ctx.seen("R1.paths", "parsed-esk-list");
                    match (&versions, aligned(e, c)) {
                        (Some(v), Some(false)) if !v.is_empty() => ctx.violation(
                            format!("C15/R1/parsed-esk-list/{}+{}/not-ignored", e.name(), c.name()),
                            format!("Message::Encrypted keeps misaligned ESK(s) {v:?} in front of {}", c.name()),
                            replay.clone(),
                        ),
                        (Some(v), Some(true)) if v.len() != 1 => ctx.violation(
                            format!("C15/R1/parsed-esk-list/{}+{}/rejected-unexpectedly", e.name(), c.name()),
                            format!("aligned ESK dropped by the parser: {v:?}"),
                            replay.clone(),
                        ),
                        (None, _) => ctx.inconclusive("R1: reference-built message does not parse as encrypted"),
                        _ => {}
                    }
                    for o in OPTS {
                        for abort_early in [true, false] {
                            let path = if abort_early { "ring-abort-early" } else { "ring-compare-all" };
                            let (base, _) = run_decrypt(&cont, How::Ring { ssk: Some(&r.k.ssk), pw: true, sess: None, opts: o, abort_early });
                            let (d, _) = run_decrypt(&msg, How::Ring { ssk: Some(&r.k.ssk), pw: true, sess: None, opts: o, abort_early });
                            judge_r1(ctx, path, e, c, o, &p.payload, &d, Some(&base), &replay);
                        }
                        // convenience entry points have fixed options
                        if e.is_pk() && !o.gnupg {
                            let (path, how, bhow) = if o.legacy {
                                ("decrypt_legacy", How::KeyLegacy(&r.k.ssk), How::KeyLegacy(&r.k.ssk))
                            } else {
                                ("decrypt", How::Key(&r.k.ssk), How::Key(&r.k.ssk))
                            };
                            let (base, _) = run_decrypt(&cont, bhow);
                            let (d, _) = run_decrypt(&msg, how);
                            judge_r1(ctx, path, e, c, o, &p.payload, &d, Some(&base), &replay);
                        }
                        if !e.is_pk() && !o.gnupg && !o.legacy {
                            let (base, _) = run_decrypt(&cont, How::Pw);
                            let (d, _) = run_decrypt(&msg, How::Pw);
                            judge_r1(ctx, "decrypt_with_password", e, c, o, &p.payload, &d, Some(&base), &replay);
                        }
                        // explicit session key of the ESK's generation against the bare container
                        let (d, _) = run_decrypt(&cont, How::Ring { ssk: None, pw: false, sess: Some(session_for(e, p.sym, &sk)), opts: o, abort_early: true });
                        judge_r1(ctx, "session-key", e, c, o, &p.payload, &d, None, &replay);
                        if !o.gnupg && !o.legacy {
                            let (d, _) = run_decrypt(&cont, How::Session(session_for(e, p.sym, &sk)));
                            judge_r1(ctx, "decrypt_with_session_key", e, c, o, &p.payload, &d, None, &replay);
                        }
                    }
                }
                // ---- a misaligned ESK next to an aligned one: the message must still decrypt
                for m in ESKS {
                    for a in ESKS {
                        if aligned(m, c) != Some(false) || aligned(a, c) != Some(true) {
                            continue;
                        }
                        gi += 1;
                        if !ctx.mine() {
                            continue;
                        }
                        describe_case(&format!("R1 pair {} {}+{} {} p{pi}", r.k.name, m.name(), a.name(), c.name()));
                        let mut rng = ctx.rng("R1pair", gi);
                        let mut sk = vec![0u8; rfc::sym::key_size(p.sym).unwrap()];
                        rng.fill_bytes(&mut sk);
                        let (em, ea, cont) = match (build_esk(m, r, p, &sk, &mut rng), build_esk(a, r, p, &sk, &mut rng), build_cont(c, p, &sk, &mut rng)) {
                            (Ok(x), Ok(y), Ok(z)) => (x, y, z),
                            _ => {
                                ctx.inconclusive("R1 pair generator failed");
                                continue;
                            }
                        };
                        ctx.cover(&("R1pair", &r.k.name, m, a, c, pi));
                        for (order, first, second) in [("misaligned-first", &em, &ea), ("aligned-first", &ea, &em)] {
                            let mut msg = first.clone();
                            msg.extend_from_slice(second);
                            msg.extend_from_slice(&cont);
                            let replay = json!({"key": r.k.name, "msg": hexs(&msg), "order": order});
                            for o in OPTS {
                                for abort_early in [true, false] {
                                    ctx.eval();
                                    let path = if abort_early { "ring-abort-early" } else { "ring-compare-all" };
                                    let case = format!("{}-beside-{}+{}/{}", m.name(), a.name(), c.name(), o.name());
                                    ctx.seen("R1.pair-cells", format!("{path}|{order}|{case}"));
                                    let (d, _) = run_decrypt(&msg, How::Ring { ssk: Some(&r.k.ssk), pw: true, sess: None, opts: o, abort_early });
                                    let want = optin_ok(a, c, o);
                                    match (&d, want) {
                                        (Dec::Plain(x), true) if x == &p.payload => {}
                                        (Dec::Fail { .. }, false) => {}
                                        (Dec::Plain(_), false) => ctx.violation(
                                            format!("C15/R5/{path}/{case}/accepted-without-optin"),
                                            "decrypted although the required opt-in is absent",
                                            replay.clone(),
                                        ),
                                        (Dec::Plain(_), true) => ctx.violation(format!("C15/R1/{path}/{case}/wrong-plaintext"), "different plaintext", replay.clone()),
                                        (Dec::Fail { .. }, true) => ctx.violation(
                                            format!("C15/R1/{path}/{case}/not-ignored"),
                                            format!("a misaligned {} beside an aligned {} ({order}) must be discarded and the message decrypt; got {}", m.name(), a.name(), d.brief()),
                                            replay.clone(),
                                        ),
                                    }
                                }
                            }
                        }
                    }
                }
            }
        }
    }
}

// ---------------------------------------------------------------------------------------------
// R3: one-pass header vs trailing signature

fn run_r3(ctx: &mut Ctx, keys: &[&K]) {
    for k in keys {
        if !ctx.mine() {
            continue;
        }
        describe_case(&format!("R3 {}", k.name));
        let sv = if k.v == 6 { 6 } else { 4 };
        let sk: &dyn SigningKey = &k.ssk.primary_key;
        let (honest, honest_text) = match (build_sig(k, &Scn::plain(sv), Kind::DocBin), build_sig(k, &Scn::plain(sv), Kind::DocText)) {
            (Ok(a), Ok(b)) => (a, b),
            _ => {
                ctx.inconclusive("R3: cannot build base signature");
                continue;
            }
        };
        let rs = parse_sig(&honest).expect("own");
        let ops0 = rfc::sig::parse_ops(&ops_for(&rs, k)).expect("own ops");
        let tail = rs.hashed_tail();
        let other_hash = if k.hash == 8 { 10 } else { 8 };
        let other_salt: Vec<u8> = rs.salt.iter().map(|b| b ^ 0x5A).collect();
        let mut fp32 = k.fp.clone();
        fp32.resize(32, 0);
        // (case, ops, signature body, expect valid, judged)
        let mut cases: Vec<(&str, RefOps, Vec<u8>, bool, bool)> = vec![];
        cases.push(("control", ops0.clone(), honest.clone(), true, true));
        cases.push(("ops-type", RefOps { typ: 1, ..ops0.clone() }, honest.clone(), false, true));
        cases.push(("ops-type-text", RefOps { typ: 0, ..ops0.clone() }, honest_text.clone(), false, true));
        cases.push(("ops-hash", RefOps { hash_alg: other_hash, salt: if sv == 6 { salt_for(other_hash, 0) } else { vec![] }, ..ops0.clone() }, honest.clone(), false, true));
        cases.push(("ops-pubalg", RefOps { pub_alg: if k.alg == 1 { 22 } else { 1 }, ..ops0.clone() }, honest.clone(), false, true));
        // signature whose value is valid under the *header's* hash algorithm (same digest size)
        {
            let mut parts: Vec<&[u8]> = vec![];
            if sv == 6 {
                parts.push(&rs.salt);
            }
            parts.push(DATA);
            parts.push(&tail);
            let d = rfc::hash(k.alt_hash, &parts).expect("sha3");
            match finish(sk, rs.clone(), &d, k.hash) {
                Ok(b) => cases.push(("ops-hash-crafted", RefOps { hash_alg: k.alt_hash, ..ops0.clone() }, b, false, true)),
                Err(e) => ctx.inconclusive(format!("R3 crafted hash: {e}")),
            }
        }
        if sv == 4 {
            let s1 = salt_for(k.hash, 1);
            let o6 = RefOps { version: 6, salt: s1.clone(), issuer: fp32.clone(), ..ops0.clone() };
            cases.push(("ops-version", o6.clone(), honest.clone(), false, true));
            let d = rfc::hash(k.hash, &[&s1, DATA, &tail]).unwrap();
            match finish(sk, rs.clone(), &d, k.hash) {
                Ok(b) => cases.push(("ops-version-crafted", o6, b, false, true)),
                Err(e) => ctx.inconclusive(format!("R3 crafted version: {e}")),
            }
        } else {
            let o3 = RefOps { version: 3, salt: vec![], issuer: k.kid.to_vec(), ..ops0.clone() };
            cases.push(("ops-version", o3.clone(), honest.clone(), false, true));
            let d = rfc::hash(k.hash, &[DATA, &tail]).unwrap();
            match finish(sk, rs.clone(), &d, k.hash) {
                Ok(b) => cases.push(("ops-version-crafted", o3, b, false, true)),
                Err(e) => ctx.inconclusive(format!("R3 crafted version: {e}")),
            }
            cases.push(("ops-salt", RefOps { salt: other_salt.clone(), ..ops0.clone() }, honest.clone(), false, true));
            let d = rfc::hash(k.hash, &[&other_salt, DATA, &tail]).unwrap();
            match finish(sk, rs.clone(), &d, k.hash) {
                Ok(b) => cases.push(("ops-salt-crafted", RefOps { salt: other_salt.clone(), ..ops0.clone() }, b, false, true)),
                Err(e) => ctx.inconclusive(format!("R3 crafted salt: {e}")),
            }
            cases.push(("ops-salt-length", RefOps { salt: salt_for(other_hash, 3), ..ops0.clone() }, honest.clone(), false, true));
        }
        // advisory field: exercised, not judged
        let zero_issuer = vec![0u8; ops0.issuer.len()];
        let other_issuer: Vec<u8> = ops0.issuer.iter().map(|b| b ^ 0xFF).collect();
        cases.push(("ops-issuer-zero", RefOps { issuer: zero_issuer, ..ops0.clone() }, honest.clone(), true, false));
        cases.push(("ops-issuer-other", RefOps { issuer: other_issuer, ..ops0.clone() }, honest.clone(), true, false));

        let pk = &k.spk.primary_key;
        for (case, ops, sig, expect, judged) in cases {
            let mut msg = fr(4, &ops.encode());
            msg.extend(lit_packet(DATA));
            msg.extend(fr(2, &sig));
            let mut res = vec![
                ("inline-onepass/verify_read".to_string(), inline_verify(pk, &msg, 0)),
                ("inline-onepass/verify".to_string(), inline_verify(pk, &msg, 1)),
                ("inline-onepass/verify_nested".to_string(), inline_verify(pk, &msg, 2)),
            ];
            if !ctx.quick() {
                let arm = rfc::armor::armor_encode("PGP MESSAGE", &[], &msg, true, "\r\n");
                res.push((
                    "inline-onepass/armored".into(),
                    Message::from_armor(arm.as_bytes())
                        .map_err(|e| format!("parse: {e}"))
                        .and_then(|(mut m, _)| m.verify_read(pk).map(|_| ()).map_err(es)),
                ));
            }
            if judged {
                if case == "control" {
                    ctx.sample(json!({"rule": "R3", "case": case, "msg": hexs(&msg)}));
                }
                judge_paths(ctx, "R3", case, k, res, expect, json!({"msg": hexs(&msg)}));
            } else {
                for (p, v) in res {
                    ctx.eval();
                    ctx.seen("R3.advisory", format!("{p}|{case}"));
                    ctx.tally(&format!("R3.advisory.{case}.{}", if v.is_ok() { "valid" } else { "invalid" }), 1);
                }
            }
        }
    }
}

// ---------------------------------------------------------------------------------------------
// R2: key version x signature version

/// Binding signature (made by `p`, version = p's version) over a subkey that is not p's own.
fn bind_foreign(p: &K, sub_pub_body: &[u8]) -> Result<Vec<u8>, String> {
    let sv = if p.v == 6 { 6 } else { 4 };
    let mut hashed = sp(2, false, &CTIME.to_be_bytes());
    let mut fpb = vec![p.v];
    fpb.extend_from_slice(&p.fp);
    hashed.extend(sp(33, false, &fpb));
    hashed.extend(sp(27, false, &[0x0C]));
    let salt = if sv == 6 { salt_for(p.hash, 0x18) } else { vec![] };
    let rs = tmpl(sv, 0x18, p.alg, p.hash, hashed, vec![], salt);
    make_sig(&p.ssk.primary_key, rs, &[&rfc::sig::key_hash_framing(&p.pbody), &rfc::sig::key_hash_framing(sub_pub_body)])
}

/// TSK packets of `p` followed by the (secret) encryption subkey of `f` bound by `p`.
fn foreign_subkey_cert(p: &K, f: &K) -> Result<Vec<Pk>, String> {
    let mut pk = tsk_packets(&p.ssk)?;
    let fi = f.enc_sub().ok_or("no enc subkey")?;
    let fp = tsk_packets(&f.ssk)?;
    let sub = fp.iter().filter(|x| x.tag == 7).nth(fi).ok_or("layout")?.clone();
    let sig = bind_foreign(p, &f.subs[fi].pub_body)?;
    pk.push(sub);
    pk.push(Pk { tag: 2, body: sig });
    Ok(pk)
}

fn run_r2(ctx: &mut Ctx, keys: &[&K], k4: &K, k6: &K) {
    let thorough = !ctx.quick();
    for k in keys {
        if !ctx.mine() {
            continue;
        }
        describe_case(&format!("R2 {}", k.name));
        let aligned_v = if k.v == 6 { 6 } else { 4 };
        let wrong_v = if k.v == 6 { 4 } else { 6 };
        for with_fp in [true, false] {
            let mut s = Scn::plain(aligned_v);
            s.issuer_fp = with_fp;
            let r = run_sig_paths(k, &s, thorough);
            judge_paths(ctx, "R2", "control", k, r, true, json!({"sig_version": aligned_v, "issuer_fp": with_fp}));
        }
        let case = if k.v == 6 { "v4sig-by-v6key" } else { "v6sig-by-v4key" };
        // without issuer subpackets (isolates the alignment rule), and with an issuer key id
        for with_kid in [false, true] {
            let mut s = Scn::plain(wrong_v);
            s.issuer_fp = false;
            s.issuer_kid = with_kid;
            let r = run_sig_paths(k, &s, thorough);
            judge_paths(ctx, "R2", case, k, r, false, json!({"sig_version": wrong_v, "issuer_kid": with_kid}));
        }
    }
    // ---- subkey version vs primary version
    for (p, f, case, judged) in [(k6, k4, "v6primary-v4subkey", true), (k4, k6, "v4primary-v6subkey", JUDGE_V4_PRIMARY_V6_SUBKEY)] {
        if !ctx.mine() {
            continue;
        }
        describe_case(&format!("R2 {case}"));
        let pk = match foreign_subkey_cert(p, f) {
            Ok(x) => x,
            Err(e) => {
                ctx.inconclusive(format!("R2 {case}: {e}"));
                continue;
            }
        };
        let tsk = ser(&pk);
        let Some(tp) = to_tpk(&pk) else {
            ctx.inconclusive("R2: to_tpk");
            continue;
        };
        let tpk = ser(&tp);
        // control: the same construction with a subkey of the right version must be accepted
        let res = vec![("cert-foreign-subkey/tsk".to_string(), tsk_verdict(&tsk)), ("cert-foreign-subkey/tpk".to_string(), tpk_verdict(&tpk))];
        if judged {
            judge_paths(ctx, "R2", case, p, res, false, json!({"tsk": hexs(&tsk)}));
        } else {
            for (path, v) in res {
                ctx.eval();
                ctx.seen("R2.advisory", format!("{path}|{case}"));
                ctx.tally(&format!("R2.advisory.{case}.{}", if v.is_ok() { "accepted" } else { "rejected" }), 1);
                if v.is_ok() {
                    ctx.note(format!("R2 advisory: {case} accepted on {path} (RFC 9580 10.1.1 demands v4 subkeys for v4 primaries; outside the property text, not judged)"));
                }
            }
        }
    }
    // control for the foreign-subkey construction: same-version donor
    for (p, spec_v6) in [(k4, false), (k6, true)] {
        if !ctx.mine() {
            continue;
        }
        let donor = if spec_v6 {
            K::load(&Spec { sign_sub: None, ..Spec::simple(true, Alg::Ed25519, Some(Alg::X25519)) }, 5)
        } else {
            K::load(&Spec { sign_sub: None, ..Spec::simple(false, Alg::Ed25519Legacy, Some(Alg::X25519)) }, 5)
        };
        let r = donor.and_then(|d| foreign_subkey_cert(p, &d));
        match r {
            Ok(pk) => {
                let tsk = ser(&pk);
                let tpk = ser(&to_tpk(&pk).unwrap_or_default());
                let res = vec![("cert-foreign-subkey/tsk".to_string(), tsk_verdict(&tsk)), ("cert-foreign-subkey/tpk".to_string(), tpk_verdict(&tpk))];
                judge_paths(ctx, "R2", "control-foreign-subkey", p, res, true, json!({"tsk": hexs(&tsk)}));
            }
            Err(e) => ctx.inconclusive(format!("R2 foreign control: {e}")),
        }
    }
}

// ---------------------------------------------------------------------------------------------
// R4: hashed subpacket ids x critical bit; issuer fingerprint version

/// A well-formed body for subpacket `id` (of that kind where the library knows the id).
fn subpacket_body(id: u8, k: &K, embedded: &[u8]) -> Vec<u8> {
    match id {
        2 => CTIME.to_be_bytes().to_vec(),
        3 | 9 => vec![0, 0, 0, 0],
        4 | 7 | 25 => vec![1],
        5 => vec![1, 60],
        6 => b"<[^>]+[@.]example\\.org>$\0".to_vec(),
        11 => vec![9, 7],
        12 => {
            let mut b = vec![0x80, 22];
            b.extend_from_slice(&[0x11; 20]);
            b
        }
        16 => k.kid.to_vec(),
        20 => {
            let mut b = vec![0x80, 0, 0, 0, 0, 11, 0, 2];
            b.extend_from_slice(b"a@b.example");
            b.extend_from_slice(b"xy");
            b
        }
        21 => vec![8, 10],
        22 => vec![2, 1],
        23 => vec![0x80],
        24 => b"hkps://keys.example".to_vec(),
        26 => b"https://example.org/policy".to_vec(),
        27 => vec![0x0C],
        28 => b"alice@example.org".to_vec(),
        29 => vec![0, b'x'],
        30 => vec![0x01],
        31 => {
            let mut b = vec![22, 8];
            b.extend_from_slice(&[0x22; 32]);
            b
        }
        32 => embedded.to_vec(),
        33 | 35 => {
            let mut b = vec![k.v];
            b.extend_from_slice(&k.fp);
            b
        }
        34 => vec![2],
        39 => vec![9, 2],
        _ => vec![0x01, 0x02, id],
    }
}

#[derive(Clone, Copy, PartialEq, Eq, Debug)]
enum SpClass {
    Known,
    Experimental,
    Other,
}

/// How the *library's parser* classifies the last hashed subpacket of this signature.
fn classify_last(body: &[u8]) -> Result<(SpClass, bool), String> {
    let s = lib_sig(body)?;
    let c = s.config().ok_or("unknown signature version")?;
    let last = c.hashed_subpackets.last().ok_or("no hashed subpackets")?;
    let cls = match (&last.data, last.typ()) {
        (SubpacketData::Other(..), _) | (_, SubpacketType::Other(_)) => SpClass::Other,
        (SubpacketData::Experimental(..), _) => SpClass::Experimental,
        _ => SpClass::Known,
    };
    Ok((cls, last.is_critical))
}

fn run_r4(ctx: &mut Ctx, keys: &[&K]) {
    let thorough = !ctx.quick();
    for (ki, k) in keys.iter().enumerate() {
        let sv = if k.v == 6 { 6 } else { 4 };
        let embedded = build_sig(k, &Scn::plain(sv), Kind::DocBin).unwrap_or_default();
        // quick: the complete id sweep on the first v4 and the first v6 key, a sample of ids
        // (unknown, known, experimental, boundaries) on the other algorithms
        let full = thorough || ki < 2;
        for id in 0u8..128 {
            if !full && ![0u8, 1, 2, 10, 16, 33, 40, 99, 100, 110, 111, 127].contains(&id) {
                continue;
            }
            if !ctx.mine() {
                continue;
            }
            describe_case(&format!("R4 {} id {id}", k.name));
            for critical in [false, true] {
                let mut s = Scn::plain(sv);
                s.extra = sp(id, critical, &subpacket_body(id, k, &embedded));
                let probe = match build_sig(k, &s, Kind::DocBin) {
                    Ok(b) => b,
                    Err(e) => {
                        ctx.inconclusive(format!("R4 build: {e}"));
                        continue;
                    }
                };
                // the reference view of what was built
                let rs = parse_sig(&probe).expect("own");
                let subs = parse_subpackets(&rs.hashed).expect("own area");
                let l = subs.last().expect("own extra");
                assert!(l.typ == id && l.critical == critical);
                let (cls, crit_seen) = match classify_last(&probe) {
                    Ok(x) => x,
                    Err(e) => {
                        // the library refuses the packet at parse time: a rejection. Only a
                        // violation if it had to be accepted, which needs the class: ids the
                        // reference table marks well-formed must parse.
                        ctx.seen("R4.ids", format!("{id}"));
                        ctx.eval();
                        ctx.violation(
                            format!("C15/R4/sig-parse/{}/rejected-unexpectedly", if critical { "critical" } else { "noncritical" }),
                            format!("signature with an extra well-formed hashed subpacket id {id} does not parse: {e}"),
                            json!({"id": id, "critical": critical, "sig": hexs(&probe), "key": k.name}),
                        );
                        continue;
                    }
                };
                if crit_seen != critical {
                    ctx.violation("C15/R4/sig-parse/critical-bit/lost", format!("critical bit of subpacket {id} parsed as {crit_seen}"), json!({"id": id, "sig": hexs(&probe)}));
                }
                ctx.seen("R4.ids", format!("{id}"));
                ctx.seen("R4.classes", format!("{cls:?}-{}", if critical { "critical" } else { "noncritical" }));
                let case = match (critical, cls) {
                    (true, SpClass::Other) => "critical-unknown",
                    (false, SpClass::Other) => "noncritical-unknown",
                    (true, SpClass::Experimental) => "critical-experimental",
                    (false, SpClass::Experimental) => "noncritical-experimental",
                    (true, SpClass::Known) => "critical-known",
                    (false, SpClass::Known) => "noncritical-known",
                };
                let res = run_sig_paths(k, &s, thorough);
                if case == "critical-experimental" && !JUDGE_CRITICAL_EXPERIMENTAL {
                    for (p, v) in res {
                        ctx.eval();
                        ctx.seen("R4.advisory", format!("{p}|{case}"));
                        ctx.tally(&format!("R4.advisory.{case}.{}", if v.is_ok() { "accepted" } else { "rejected" }), 1);
                    }
                    ctx.note("R4 advisory: critical subpackets in the private/experimental range 100..=110 are parsed to SubpacketData::Experimental and are not rejected (RFC 9580 5.2.3.7 SHOULD); tallied, not judged");
                    continue;
                }
                let expect = !(critical && cls != SpClass::Known);
                if id == 77 || id == 2 {
                    ctx.sample(json!({"rule": "R4", "id": id, "critical": critical, "class": format!("{cls:?}"), "sig": hexs(&probe)}));
                }
                // keep the id in the replay, not in the signature
                let res2: Vec<(String, V)> = res;
                judge_paths_r4(ctx, case, k, res2, expect, id, critical);
            }
        }
        // ---- issuer fingerprint whose key version octet differs from the signature version
        if !ctx.mine() {
            continue;
        }
        describe_case(&format!("R4 issuer-fp {}", k.name));
        let mut ctl = Scn::plain(sv);
        ctl.issuer_kid = true;
        let r = run_sig_paths(k, &ctl, thorough);
        judge_paths(ctx, "R4", "control-issuer-fp", k, r, true, json!({}));
        let mut fp32 = k.fp.clone();
        fp32.resize(32, 0xAB);
        let variants: Vec<(&str, Vec<u8>)> = if sv == 4 {
            vec![("issuer-fp-v6-in-v4sig", [vec![6u8], fp32.clone()].concat()), ("issuer-fp-v5-in-v4sig", [vec![5u8], fp32.clone()].concat())]
        } else {
            vec![("issuer-fp-v4-in-v6sig", [vec![4u8], k.fp[..20].to_vec()].concat()), ("issuer-fp-v5-in-v6sig", [vec![5u8], k.fp.clone()].concat())]
        };
        for (case, body) in variants {
            let mut s = Scn::plain(sv);
            s.issuer_kid = true;
            s.fp_body = Some(body.clone());
            let r = run_sig_paths(k, &s, thorough);
            judge_paths(ctx, "R4", case, k, r, false, json!({"issuer_fp_subpacket": hexs(&body)}));
            // several issuer fingerprint subpackets: every one of them has to match the signature version,
            // whatever its position (matching one first / last, mismatching one in front, behind or between)
            let good = [vec![k.v], k.fp.clone()].concat();
            let orders: [(&str, Vec<&[u8]>); 4] = [
                ("good-then-bad", vec![&good, &body]),
                ("bad-then-good", vec![&body, &good]),
                ("good-bad-good", vec![&good, &body, &good]),
                ("good-good-bad", vec![&good, &good, &body]),
            ];
            for (oname, seq) in orders {
                let mut s = Scn::plain(sv);
                s.issuer_kid = true;
                s.fp_body = Some(seq[0].to_vec());
                s.extra = seq[1..].iter().flat_map(|b| sp(33, false, b)).collect();
                let r = run_sig_paths(k, &s, thorough);
                ctx.cover(&("R4fp-multi", oname, sv));
                judge_paths(ctx, "R4", &format!("{case}/{oname}"), k, r, false, json!({"issuer_fp_subpackets": seq.iter().map(|b| hexs(b)).collect::<Vec<_>>()}));
            }
        }
        // control: two matching issuer fingerprint subpackets are fine
        {
            let good = [vec![k.v], k.fp.clone()].concat();
            let mut s = Scn::plain(sv);
            s.issuer_kid = true;
            s.extra = sp(33, false, &good);
            let r = run_sig_paths(k, &s, thorough);
            judge_paths(ctx, "R4", "control-issuer-fp-twice", k, r, true, json!({}));
        }
    }
}

fn judge_paths_r4(ctx: &mut Ctx, case: &str, k: &K, res: Vec<(String, V)>, expect: bool, id: u8, critical: bool) {
    ctx.cover(&("R4id", id, critical, &k.name));
    judge_paths(ctx, "R4", case, k, res, expect, json!({"subpacket_id": id, "critical": critical}));
}

// ---------------------------------------------------------------------------------------------
// R6: the same certificate as TPK and as TSK

fn flip_sig_value(body: &[u8]) -> Option<Vec<u8>> {
    let mut rs = parse_sig(body).ok()?;
    let n = rs.sig_data.len();
    if n == 0 {
        return None;
    }
    rs.sig_data[n - 1] ^= 0x01;
    Some(rs.encode())
}

/// Subkey binding for the signing subkey made by the primary; `back`: embedded signature or none.
fn sign_sub_binding(k: &K, si: usize, back: Option<&[u8]>) -> Result<Vec<u8>, String> {
    let sv = if k.v == 6 { 6 } else { 4 };
    let mut hashed = sp(2, false, &CTIME.to_be_bytes());
    let mut fpb = vec![k.v];
    fpb.extend_from_slice(&k.fp);
    hashed.extend(sp(33, false, &fpb));
    hashed.extend(sp(27, false, &[0x02]));
    if let Some(b) = back {
        hashed.extend(sp(32, false, b));
    }
    let salt = if sv == 6 { salt_for(k.hash, 0x18) } else { vec![] };
    let rs = tmpl(sv, 0x18, k.alg, k.hash, hashed, vec![], salt);
    make_sig(&k.ssk.primary_key, rs, &[&rfc::sig::key_hash_framing(&k.pbody), &rfc::sig::key_hash_framing(&k.subs[si].pub_body)])
}

fn run_r6(ctx: &mut Ctx, keys: &[&K], k4: &K, k6: &K) {
    let thorough = !ctx.quick();
    // (case, key, packets, expected acceptance, judged expectation)
    let mut cases: Vec<(String, &K, Vec<Pk>, bool, bool)> = vec![];
    for k in keys {
        let Ok(base) = tsk_packets(&k.ssk) else {
            ctx.inconclusive("R6: cannot deframe key");
            continue;
        };
        let (Some(si), Some(ei)) = (k.sign_sub(), k.enc_sub()) else {
            ctx.inconclusive("R6: key lacks subkeys");
            continue;
        };
        let (Some(i_sign), Some(i_enc), Some(i_uid)) = (sig_after(&base, &[7], si), sig_after(&base, &[7], ei), sig_after(&base, &[13], 0)) else {
            ctx.inconclusive("R6: unexpected certificate layout");
            continue;
        };
        cases.push(("valid".into(), *k, base.clone(), true, true));
        let good_back = build_sig(k, &Scn::plain(k.subs[si].v), Kind::PrimBind);
        match sign_sub_binding(k, si, None) {
            Ok(b) => {
                let mut p = base.clone();
                p[i_sign].body = b;
                cases.push(("no-backsig".into(), *k, p, false, true));
            }
            Err(e) => ctx.inconclusive(format!("R6 no-backsig: {e}")),
        }
        match good_back.as_ref().map_err(|e| e.clone()).and_then(|g| sign_sub_binding(k, si, Some(g))) {
            Ok(b) => {
                let mut p = base.clone();
                p[i_sign].body = b;
                cases.push(("rebuilt-backsig".into(), *k, p, true, true));
            }
            Err(e) => ctx.inconclusive(format!("R6 rebuilt-backsig: {e}")),
        }
        match good_back.as_ref().ok().and_then(|g| flip_sig_value(g)).ok_or("flip".to_string()).and_then(|bad| sign_sub_binding(k, si, Some(&bad))) {
            Ok(b) => {
                let mut p = base.clone();
                p[i_sign].body = b;
                cases.push(("bad-backsig".into(), *k, p, false, true));
            }
            Err(e) => ctx.inconclusive(format!("R6 bad-backsig: {e}")),
        }
        for (name, idx) in [("bad-subkey-binding", i_enc), ("bad-uid-cert", i_uid)] {
            match flip_sig_value(&base[idx].body) {
                Some(b) => {
                    let mut p = base.clone();
                    p[idx].body = b;
                    cases.push((name.into(), *k, p, false, true));
                }
                None => ctx.inconclusive(format!("R6 {name}: cannot tamper")),
            }
        }
    }
    match foreign_subkey_cert(k6, k4) {
        Ok(p) => cases.push(("v6primary-v4subkey".into(), k6, p, false, true)),
        Err(e) => ctx.inconclusive(format!("R6 foreign: {e}")),
    }
    match foreign_subkey_cert(k4, k6) {
        Ok(p) => cases.push(("v4primary-v6subkey".into(), k4, p, false, JUDGE_V4_PRIMARY_V6_SUBKEY)),
        Err(e) => ctx.inconclusive(format!("R6 foreign: {e}")),
    }

    for (case, k, pk, expect, judged) in cases {
        if !ctx.mine() {
            continue;
        }
        describe_case(&format!("R6 {case} {}", k.name));
        let tsk = ser(&pk);
        let mut forms: Vec<(String, V)> = vec![];
        forms.push(("tsk-bytes".into(), tsk_verdict(&tsk)));
        match to_tpk(&pk) {
            Some(t) => forms.push(("tpk-reframed".into(), tpk_verdict(&ser(&t)))),
            None => ctx.inconclusive("R6: to_tpk"),
        }
        // TSK whose subkeys are carried as public subkey packets
        let mixed: Option<Vec<Pk>> = pk
            .iter()
            .map(|x| {
                if x.tag == 7 {
                    let (_, n) = RefPub::parse_prefix(&x.body)?;
                    Some(Pk { tag: 14, body: x.body[..n].to_vec() })
                } else {
                    Some(x.clone())
                }
            })
            .collect();
        if let Some(m) = mixed {
            forms.push(("tsk-public-subkeys".into(), tsk_verdict(&ser(&m))));
        }
        // library conversion secret -> public, as struct and re-serialised
        match SignedSecretKey::from_bytes(&tsk[..]) {
            Ok(s) => {
                let p = s.to_public_key();
                forms.push(("tpk-to_public_key".into(), p.verify_bindings().map_err(es)));
                match p.to_bytes() {
                    Ok(b) => forms.push(("tpk-to_public_key-bytes".into(), tpk_verdict(&b))),
                    Err(e) => ctx.inconclusive(format!("R6: cannot serialise public key: {e}")),
                }
                // struct built through the public fields (no parser involved)
                let s2 = SignedSecretKey {
                    primary_key: s.primary_key.clone(),
                    details: s.details.clone(),
                    public_subkeys: s.public_subkeys.clone(),
                    secret_subkeys: s.secret_subkeys.clone(),
                };
                forms.push(("tsk-struct".into(), s2.verify_bindings().map_err(es)));
                if thorough {
                    if let Ok(a) = s.to_armored_string(Default::default()) {
                        forms.push(("tsk-armored".into(), SignedSecretKey::from_string(&a).map_err(|e| format!("parse: {e}")).and_then(|(k, _)| k.verify_bindings().map_err(es))));
                    }
                    if let Ok(a) = p.to_armored_string(Default::default()) {
                        forms.push(("tpk-armored".into(), SignedPublicKey::from_string(&a).map_err(|e| format!("parse: {e}")).and_then(|(k, _)| k.verify_bindings().map_err(es))));
                    }
                }
            }
            Err(e) => {
                // the secret form does not even parse: every derived form counts as rejected
                forms.push(("tpk-to_public_key".into(), Err(format!("parse: {e}"))));
            }
        }
        if thorough {
            let a = rfc::armor::armor_encode("PGP PRIVATE KEY BLOCK", &[], &tsk, true, "\n");
            forms.push(("tsk-ref-armored".into(), SignedSecretKey::from_string(&a).map_err(|e| format!("parse: {e}")).and_then(|(k, _)| k.verify_bindings().map_err(es))));
            if let Some(t) = to_tpk(&pk) {
                let a = rfc::armor::armor_encode("PGP PUBLIC KEY BLOCK", &[], &ser(&t), true, "\r\n");
                forms.push(("tpk-ref-armored".into(), SignedPublicKey::from_string(&a).map_err(|e| format!("parse: {e}")).and_then(|(k, _)| k.verify_bindings().map_err(es))));
            }
        }
        ctx.cover(&("R6", &case, &k.name));
        if case == "no-backsig" {
            ctx.sample(json!({"rule": "R6", "case": case, "tsk": hexs(&tsk)}));
        }
        let reference = forms.iter().find(|(n, _)| n == "tpk-reframed").map(|(_, v)| v.is_ok());
        for (form, v) in &forms {
            ctx.eval();
            ctx.seen("R6.cells", format!("{form}|{case}"));
            ctx.seen("R6.paths", form.clone());
            let replay = json!({"rule": "R6", "case": case, "form": form, "key": k.name, "tsk": hexs(&tsk), "verdict": format!("{v:?}")});
            if let Some(r) = reference {
                if v.is_ok() != r {
                    ctx.violation(
                        format!("C15/R6/{form}/{case}/paths-disagree"),
                        format!("certificate case {case}: form {form} says {:?} but the public form (reference re-framing) says accepted={r}", v),
                        replay.clone(),
                    );
                }
            }
            if judged {
                match (v, expect) {
                    (Ok(()), false) => ctx.violation(format!("C15/R6/{form}/{case}/accepted"), format!("{case} accepted as {form}"), replay),
                    (Err(e), true) => ctx.violation(format!("C15/R6/{form}/{case}/rejected-unexpectedly"), format!("{case} rejected as {form}: {e}"), replay),
                    _ => {}
                }
            } else {
                ctx.tally(&format!("R6.advisory.{case}.{}", if v.is_ok() { "accepted" } else { "rejected" }), 1);
            }
        }
    }
}

// ---------------------------------------------------------------------------------------------
// R6 (multi-signature family): the same certificate through every import path, when a component
// carries MORE THAN ONE signature and exactly one of them is unacceptable.
//
// Certificates made by the library's own builder (and almost all fixtures) carry one signature
// per component, so "every stored signature is judged" and "one particular signature is judged"
// coincide on them, and two import paths that differ in *which* signatures they look at cannot
// be told apart. Here every component of the certificate in turn (user id, user attribute,
// direct-key signatures, key revocations, encryption subkey, signing subkey, subkey
// revocations) receives n signatures with pairwise different creation times, in ascending and
// in descending packet order; exactly one of them - the oldest, a middle one, the latest - is
// made unacceptable for one reason of the rule table. The deciding oracle is agreement: all
// import forms (secret / public; parsed / converted / re-serialised; binary / armored;
// SignedSecretKey / SignedPublicKey / PublicOrSecret parser) must give the same
// `verify_bindings()` verdict. The documented contract ("Verifies all stored bindings") is
// judged in addition (switch below).

/// `SignedPublicKey::verify_bindings` / `SignedSecretKey::verify_bindings` are documented as
/// "Verifies all stored bindings", `SignedUser::verify_bindings` as "Verify all signatures": a
/// certificate holding one unacceptable signature must be refused wherever that signature sits.
/// Agreement between the import forms is judged regardless of this switch.
const JUDGE_ALL_STORED_SIGNATURES: bool = true;

#[derive(Clone, Copy, PartialEq, Eq, Debug, Hash)]
enum MComp {
    Uid,
    UserAttr,
    Direct,
    KeyRev,
    SubEnc,
    SubSign,
    SubRev,
}

impl MComp {
    const ALL: [MComp; 7] = [MComp::Uid, MComp::UserAttr, MComp::Direct, MComp::KeyRev, MComp::SubEnc, MComp::SubSign, MComp::SubRev];
    fn name(self) -> &'static str {
        match self {
            MComp::Uid => "uid-certifications",
            MComp::UserAttr => "user-attribute-certifications",
            MComp::Direct => "direct-key-signatures",
            MComp::KeyRev => "key-revocations",
            MComp::SubEnc => "enc-subkey-bindings",
            MComp::SubSign => "sign-subkey-bindings",
            MComp::SubRev => "subkey-binding+revocations",
        }
    }
}

#[derive(Clone, Copy, PartialEq, Eq, Debug, Hash)]
enum MBad {
    /// control: every signature is good
    None,
    /// signature value does not verify
    Crypto,
    /// the two digest check octets are wrong (signature value itself is right)
    Left16,
    /// an unknown hashed subpacket with the critical bit
    CritUnknown,
    /// v4 signature by a v6 key / v6 signature by a v4 key
    Misversioned,
    /// issuer fingerprint subpacket whose key version octet differs from the signature version
    FpVersion,
    // signing-capable subkey only:
    NoBacksig,
    BadBacksig,
    BacksigMisversioned,
    BacksigCritUnknown,
}

impl MBad {
    const COMMON: [MBad; 5] = [MBad::Crypto, MBad::Left16, MBad::CritUnknown, MBad::Misversioned, MBad::FpVersion];
    const BACKSIG: [MBad; 4] = [MBad::NoBacksig, MBad::BadBacksig, MBad::BacksigMisversioned, MBad::BacksigCritUnknown];
    fn name(self) -> &'static str {
        match self {
            MBad::None => "control",
            MBad::Crypto => "crypto-invalid",
            MBad::Left16 => "digest-prefix-wrong",
            MBad::CritUnknown => "critical-unknown-subpacket",
            MBad::Misversioned => "version-misaligned",
            MBad::FpVersion => "issuer-fp-version-mismatch",
            MBad::NoBacksig => "no-backsig",
            MBad::BadBacksig => "bad-backsig",
            MBad::BacksigMisversioned => "backsig-version-misaligned",
            MBad::BacksigCritUnknown => "backsig-critical-unknown-subpacket",
        }
    }
}

/// A user attribute packet body (one image subpacket, v1 JPEG header, 4 octets of image data).
fn attr_body() -> Vec<u8> {
    let mut sub = vec![1u8, 0x10, 0x00, 0x01, 0x01];
    sub.extend_from_slice(&[0u8; 12]);
    sub.extend_from_slice(&[0xFF, 0xD8, 0xFF, 0xD9]);
    let mut b = vec![sub.len() as u8];
    b.extend(sub);
    b
}

fn other_version(v: u8) -> u8 {
    if v == 6 {
        4
    } else {
        6
    }
}

/// Back signature (0x19) by the signing subkey `si`, created at `ctime`.
fn m_backsig(k: &K, si: usize, ctime: u32, bad: MBad, unknown_id: u8) -> Result<Vec<u8>, String> {
    let sub = &k.subs[si];
    let aligned = if sub.v == 6 { 6 } else { 4 };
    let sv = if bad == MBad::BacksigMisversioned { other_version(aligned) } else { aligned };
    let mut hashed = sp(2, false, &ctime.to_be_bytes());
    if sv == aligned {
        let mut fpb = vec![sub.v];
        fpb.extend_from_slice(&sub.fp);
        hashed.extend(sp(33, false, &fpb));
    }
    if bad == MBad::BacksigCritUnknown {
        hashed.extend(sp(unknown_id, true, &[1, 2, 3]));
    }
    let salt = if sv == 6 { salt_for(k.hash, (ctime & 0xFF) as u8) } else { vec![] };
    let rs = tmpl(sv, 0x19, sub.alg, k.hash, hashed, vec![], salt);
    let body = make_sig(&k.ssk.secret_subkeys[si].key, rs, &[&rfc::sig::key_hash_framing(&k.pbody), &rfc::sig::key_hash_framing(&sub.pub_body)])?;
    if bad == MBad::BadBacksig {
        return flip_sig_value(&body).ok_or_else(|| "flip".to_string());
    }
    Ok(body)
}

/// One self-signature of the primary key over component `comp`, created at `ctime`, of age rank
/// `age` (0 = oldest), acceptable unless `bad` says otherwise.
fn m_sig(k: &K, comp: MComp, bad: MBad, ctime: u32, age: usize, unknown_id: u8) -> Result<Vec<u8>, String> {
    let aligned = if k.v == 6 { 6 } else { 4 };
    let sv = if bad == MBad::Misversioned { other_version(aligned) } else { aligned };
    let mut hashed = sp(2, false, &ctime.to_be_bytes());
    match bad {
        // no issuer subpackets: isolates the alignment rule (as in R2)
        MBad::Misversioned => {}
        MBad::FpVersion => {
            // as in R4: a version octet (and length) of the other key version; the issuer key id
            // keeps the signature attributable
            let body = if sv == 4 {
                let mut fp32 = k.fp.clone();
                fp32.resize(32, 0xAB);
                [vec![6u8], fp32].concat()
            } else {
                [vec![4u8], k.fp[..20].to_vec()].concat()
            };
            hashed.extend(sp(33, false, &body));
            hashed.extend(sp(16, false, &k.kid));
        }
        _ => {
            let mut fpb = vec![k.v];
            fpb.extend_from_slice(&k.fp);
            hashed.extend(sp(33, false, &fpb));
        }
    }
    let (ei, si) = (k.enc_sub(), k.sign_sub());
    let typ = match comp {
        MComp::Uid | MComp::UserAttr => {
            hashed.extend(sp(27, false, &[0x03]));
            // several certification types beside each other
            [0x10u8, 0x12, 0x13, 0x11][age % 4]
        }
        MComp::Direct => {
            hashed.extend(sp(27, false, &[0x03]));
            0x1F
        }
        MComp::KeyRev => {
            hashed.extend(sp(29, false, &[0x00]));
            0x20
        }
        MComp::SubEnc => {
            hashed.extend(sp(27, false, &[0x0C]));
            0x18
        }
        MComp::SubSign => {
            hashed.extend(sp(27, false, &[0x02]));
            let si = si.ok_or("no signing subkey")?;
            let inner = match bad {
                MBad::NoBacksig => None,
                MBad::BadBacksig | MBad::BacksigMisversioned | MBad::BacksigCritUnknown => Some(m_backsig(k, si, ctime, bad, unknown_id)?),
                _ => Some(m_backsig(k, si, ctime, MBad::None, unknown_id)?),
            };
            if let Some(b) = inner {
                hashed.extend(sp(32, false, &b));
            }
            0x18
        }
        MComp::SubRev => {
            hashed.extend(sp(29, false, &[0x00]));
            0x28
        }
    };
    if bad == MBad::CritUnknown {
        hashed.extend(sp(unknown_id, true, &[1, 2, 3]));
    }
    let salt = if sv == 6 { salt_for(k.hash, typ ^ (ctime & 0xFF) as u8) } else { vec![] };
    let rs = tmpl(sv, typ, k.alg, k.hash, hashed, vec![], salt);
    let kf = rfc::sig::key_hash_framing(&k.pbody);
    let body = match comp {
        MComp::Uid => make_sig(&k.ssk.primary_key, rs, &[&kf, &rfc::sig::uid_hash_framing(sv, false, &k.uid)])?,
        MComp::UserAttr => make_sig(&k.ssk.primary_key, rs, &[&kf, &rfc::sig::uid_hash_framing(sv, true, &attr_body())])?,
        MComp::Direct | MComp::KeyRev => make_sig(&k.ssk.primary_key, rs, &[&kf])?,
        MComp::SubEnc | MComp::SubRev => {
            let i = ei.ok_or("no encryption subkey")?;
            make_sig(&k.ssk.primary_key, rs, &[&kf, &rfc::sig::key_hash_framing(&k.subs[i].pub_body)])?
        }
        MComp::SubSign => {
            let i = si.ok_or("no signing subkey")?;
            make_sig(&k.ssk.primary_key, rs, &[&kf, &rfc::sig::key_hash_framing(&k.subs[i].pub_body)])?
        }
    };
    match bad {
        MBad::Crypto => flip_sig_value(&body).ok_or_else(|| "flip".to_string()),
        MBad::Left16 => {
            let mut rs = parse_sig(&body).map_err(|e| format!("reparse: {e}"))?;
            rs.left16[0] ^= 0xFF;
            Ok(rs.encode())
        }
        _ => Ok(body),
    }
}

/// The TSK packets of `k` in which component `comp` carries the signatures `sigs` (in that order).
fn m_assemble(k: &K, comp: MComp, sigs: &[Vec<u8>]) -> Result<Vec<Pk>, String> {
    let base = tsk_packets(&k.ssk)?;
    let run_after = |p: &[Pk], a: usize| -> usize { p[a + 1..].iter().take_while(|x| x.tag == 2).count() };
    let nth = |p: &[Pk], tag: u8, n: usize| p.iter().enumerate().filter(|(_, x)| x.tag == tag).nth(n).map(|(i, _)| i);
    let new: Vec<Pk> = sigs.iter().map(|b| Pk { tag: 2, body: b.clone() }).collect();
    let mut p = base;
    match comp {
        MComp::Uid => {
            let a = nth(&p, 13, 0).ok_or("layout: no user id")?;
            let n = run_after(&p, a);
            p.splice(a + 1..a + 1 + n, new);
        }
        MComp::UserAttr => {
            // new user attribute packet with its certifications, after the user id's signatures
            let a = nth(&p, 13, 0).ok_or("layout: no user id")?;
            let n = run_after(&p, a);
            let mut ins = vec![Pk { tag: 17, body: attr_body() }];
            ins.extend(new);
            p.splice(a + 1 + n..a + 1 + n, ins);
        }
        MComp::Direct => {
            let n = run_after(&p, 0);
            p.splice(1..1 + n, new);
        }
        MComp::KeyRev => {
            // in front of the direct-key signatures (which are kept)
            p.splice(1..1, new);
        }
        MComp::SubEnc | MComp::SubSign | MComp::SubRev => {
            let i = if comp == MComp::SubSign { k.sign_sub() } else { k.enc_sub() }.ok_or("no such subkey")?;
            let a = nth(&p, 7, i).ok_or("layout: subkey")?;
            let n = run_after(&p, a);
            p.splice(a + 1..a + 1 + n, new);
        }
    }
    Ok(p)
}

fn first_of<T>(mut it: Box<dyn Iterator<Item = pgp::errors::Result<T>> + '_>) -> Result<T, String> {
    match it.next() {
        Some(Ok(k)) => Ok(k),
        Some(Err(e)) => Err(format!("parse: {e}")),
        None => Err("parse: no key".into()),
    }
}

/// `verify_bindings()` of the certificate `pk` (TSK packets) through every import form
/// (`full`), or through one form per implementation (secret parser, public parser, secret key
/// holding public subkey packets, the parser of both kinds, the library's secret -> public
/// conversion).
fn m_forms(ctx: &mut Ctx, pk: &[Pk], full: bool) -> Vec<(String, V)> {
    let tsk = ser(pk);
    let mut forms: Vec<(String, V)> = vec![];
    forms.push(("tsk-bytes".into(), tsk_verdict(&tsk)));
    let tpk = to_tpk(pk).map(|t| ser(&t));
    match &tpk {
        Some(t) => forms.push(("tpk-reframed".into(), tpk_verdict(t))),
        None => ctx.inconclusive("R6 multi: to_tpk"),
    }
    let mixed: Option<Vec<Pk>> = pk
        .iter()
        .map(|x| {
            if x.tag == 7 {
                let (_, n) = RefPub::parse_prefix(&x.body)?;
                Some(Pk { tag: 14, body: x.body[..n].to_vec() })
            } else {
                Some(x.clone())
            }
        })
        .collect();
    if let Some(m) = mixed {
        forms.push(("tsk-public-subkeys".into(), tsk_verdict(&ser(&m))));
    }
    // the parser that accepts both kinds
    let pos = |b: &[u8]| -> V {
        let k = PublicOrSecret::from_bytes_many(b).map_err(|e| format!("parse: {e}")).and_then(first_of)?;
        k.verify_bindings().map_err(es)
    };
    if let Some(t) = &tpk {
        forms.push(("tpk-public-or-secret".into(), pos(t)));
    }
    if full {
        forms.push(("tsk-public-or-secret".into(), pos(&tsk)));
        if let Some(t) = &tpk {
            forms.push(("tpk-from_bytes_many".into(), SignedPublicKey::from_bytes_many(&t[..]).map_err(|e| format!("parse: {e}")).and_then(first_of).and_then(|k| k.verify_bindings().map_err(es))));
        }
        forms.push(("tsk-from_bytes_many".into(), SignedSecretKey::from_bytes_many(&tsk[..]).map_err(|e| format!("parse: {e}")).and_then(first_of).and_then(|k| k.verify_bindings().map_err(es))));
        // armored by the reference
        let a = rfc::armor::armor_encode("PGP PRIVATE KEY BLOCK", &[], &tsk, true, "\n");
        forms.push(("tsk-ref-armored".into(), SignedSecretKey::from_string(&a).map_err(|e| format!("parse: {e}")).and_then(|(k, _)| k.verify_bindings().map_err(es))));
        if let Some(t) = &tpk {
            let a = rfc::armor::armor_encode("PGP PUBLIC KEY BLOCK", &[], t, true, "\r\n");
            forms.push(("tpk-ref-armored".into(), SignedPublicKey::from_string(&a).map_err(|e| format!("parse: {e}")).and_then(|(k, _)| k.verify_bindings().map_err(es))));
        }
    }
    // library conversions of the parsed secret key
    match SignedSecretKey::from_bytes(&tsk[..]) {
        Ok(s) => {
            let p = s.to_public_key();
            forms.push(("tpk-to_public_key".into(), p.verify_bindings().map_err(es)));
            if full {
                match p.to_bytes() {
                    Ok(b) => forms.push(("tpk-to_public_key-bytes".into(), tpk_verdict(&b))),
                    Err(e) => ctx.inconclusive(format!("R6 multi: cannot serialise public key: {e}")),
                }
                let p2: SignedPublicKey = s.clone().into();
                forms.push(("tpk-from-secret".into(), p2.verify_bindings().map_err(es)));
                match s.to_bytes() {
                    Ok(b) => forms.push(("tsk-reserialised".into(), tsk_verdict(&b))),
                    Err(e) => ctx.inconclusive(format!("R6 multi: cannot serialise secret key: {e}")),
                }
                let s2 = SignedSecretKey {
                    primary_key: s.primary_key.clone(),
                    details: s.details.clone(),
                    public_subkeys: s.public_subkeys.clone(),
                    secret_subkeys: s.secret_subkeys.clone(),
                };
                forms.push(("tsk-struct".into(), s2.verify_bindings().map_err(es)));
                let p3 = SignedPublicKey { primary_key: p.primary_key.clone(), details: p.details.clone(), public_subkeys: p.public_subkeys.clone() };
                forms.push(("tpk-struct".into(), p3.verify_bindings().map_err(es)));
                if let Ok(a) = s.to_armored_string(Default::default()) {
                    forms.push(("tsk-armored".into(), SignedSecretKey::from_string(&a).map_err(|e| format!("parse: {e}")).and_then(|(k, _)| k.verify_bindings().map_err(es))));
                }
                if let Ok(a) = p.to_armored_string(Default::default()) {
                    forms.push(("tpk-armored".into(), SignedPublicKey::from_string(&a).map_err(|e| format!("parse: {e}")).and_then(|(k, _)| k.verify_bindings().map_err(es))));
                }
            }
        }
        Err(e) => forms.push(("tpk-to_public_key".into(), Err(format!("parse: {e}")))),
    }
    forms
}

fn run_r6_multi(ctx: &mut Ctx, keys: &[&K]) {
    let thorough = !ctx.quick();
    // ids the library's own parser keeps as opaque `Other` (= "unknown"), taken from a probe
    let unknown_ids: Vec<u8> = {
        let k = keys[0];
        let sv = if k.v == 6 { 6 } else { 4 };
        (0u8..128)
            .filter(|id| {
                let mut s = Scn::plain(sv);
                s.extra = sp(*id, true, &[1, 2, 3]);
                build_sig(k, &s, Kind::DocBin).ok().and_then(|b| classify_last(&b).ok()).is_some_and(|(c, _)| c == SpClass::Other)
            })
            .collect()
    };
    if unknown_ids.is_empty() {
        ctx.inconclusive("R6 multi: no subpacket id is classified unknown by the library's parser");
        return;
    }
    let counts: &[usize] = if thorough { &[2, 3, 4] } else { &[3] };
    let mut group = 0u64;
    for (ki, k) in keys.iter().enumerate() {
        // quick: every import form on the first v4 and the first v6 key, one form per
        // implementation on the other algorithms
        let full = thorough || ki < 2;
        if k.enc_sub().is_none() || k.sign_sub().is_none() {
            ctx.inconclusive("R6 multi: key lacks subkeys");
            continue;
        }
        for comp in MComp::ALL {
            let mut bads = vec![MBad::None];
            bads.extend(MBad::COMMON);
            if comp == MComp::SubSign {
                bads.extend(MBad::BACKSIG);
            }
            for bad in bads {
                group += 1;
                // (all random choices are drawn whether or not the case is this shard's)
                let mut rng = ctx.rng("r6m", group);
                for &n in counts {
                    // pairwise different creation times, oldest first
                    let mut times = vec![];
                    let bind_time = CTIME + rng.next_u32() % 100_000;
                    let mut t = bind_time + 1 + rng.next_u32() % 100_000;
                    for _ in 0..n {
                        times.push(t);
                        t += 1 + rng.next_u32() % 1_000_000;
                    }
                    let positions: Vec<Option<usize>> = if bad == MBad::None { vec![None] } else { (0..n).map(Some).collect() };
                    for bad_at in positions {
                        let unknown_id = unknown_ids[(rng.next_u32() as usize) % unknown_ids.len()];
                        if !ctx.mine() {
                            continue;
                        }
                        describe_case(&format!("R6 multi {} {} {} n={n} at={bad_at:?}", k.name, comp.name(), bad.name()));
                        let built: Result<Vec<Vec<u8>>, String> = (0..n).map(|age| m_sig(k, comp, if Some(age) == bad_at { bad } else { MBad::None }, times[age], age, unknown_id)).collect();
                        // subkey revocations stand beside a binding that is older than all of them
                        let built = built.and_then(|mut s| {
                            if comp == MComp::SubRev {
                                s.insert(0, m_sig(k, MComp::SubEnc, MBad::None, bind_time, 0, unknown_id)?);
                            }
                            Ok(s)
                        });
                        let sigs = match built {
                            Ok(s) => s,
                            Err(e) => {
                                ctx.inconclusive(format!("R6 multi: cannot build {} {}: {e}", comp.name(), bad.name()));
                                continue;
                            }
                        };
                        let pos_name = match bad_at {
                            None => "none".to_string(),
                            Some(0) => "oldest".to_string(),
                            Some(i) if i + 1 == n => "latest".to_string(),
                            Some(i) => format!("middle{i}"),
                        };
                        for descending in [false, true] {
                            let ordered: Vec<Vec<u8>> = if descending { sigs.iter().rev().cloned().collect() } else { sigs.clone() };
                            let pk = match m_assemble(k, comp, &ordered) {
                                Ok(p) => p,
                                Err(e) => {
                                    ctx.inconclusive(format!("R6 multi: {e}"));
                                    continue;
                                }
                            };
                            let order = if descending { "newest-first" } else { "oldest-first" };
                            let forms = m_forms(ctx, &pk, full);
                            let cell = format!("{}|{}|n{n}|{pos_name}|{order}", comp.name(), bad.name());
                            ctx.seen("R6m.cells", cell.clone());
                            ctx.seen("R6m.components", comp.name());
                            ctx.seen("R6m.reasons", bad.name());
                            ctx.cover(&("R6m", &cell, &k.name));
                            let tsk = ser(&pk);
                            if bad == MBad::CritUnknown && bad_at == Some(0) && !descending {
                                ctx.sample(json!({"rule": "R6-multi", "cell": cell, "key": k.name, "tsk": hexs(&tsk)}));
                            }
                            let mut acc: Vec<&str> = vec![];
                            let mut rej: Vec<String> = vec![];
                            for (form, v) in &forms {
                                ctx.eval();
                                ctx.seen("R6m.forms", form.clone());
                                match v {
                                    Ok(()) => acc.push(form.as_str()),
                                    Err(e) => rej.push(format!("{form}: {}", e.chars().take(60).collect::<String>())),
                                }
                            }
                            let replay = json!({"rule": "R6-multi", "component": comp.name(), "reason": bad.name(), "signatures": n, "unacceptable": pos_name, "order": order,
                                "unknown_id": unknown_id, "key": k.name, "accepted_by": acc, "rejected_by": rej, "tsk": hexs(&tsk)});
                            if !acc.is_empty() && !rej.is_empty() {
                                // the TSK that carries public subkey packets is of neither kind
                                let side = |f: &str| if f.starts_with("tsk-public-subkeys") { None } else { Some(f.starts_with("tpk")) };
                                let a: Vec<bool> = acc.iter().filter_map(|f| side(f)).collect();
                                let r: Vec<bool> = rej.iter().filter_map(|f| side(f)).collect();
                                let split_by_kind = !a.is_empty() && !r.is_empty() && a.iter().all(|x| *x == a[0]) && r.iter().all(|x| *x != a[0]);
                                let symptom = if split_by_kind { "public-vs-secret-disagree" } else { "import-forms-disagree" };
                                ctx.violation(
                                    format!("C15/R6/multi-sig/{}/{}/{symptom}", comp.name(), bad.name()),
                                    format!(
                                        "certificate of {} whose {} hold {n} signatures ({order}), the {pos_name} one {}: verify_bindings() accepted by [{}] but refused by [{}]",
                                        k.name,
                                        comp.name(),
                                        bad.name(),
                                        acc.join(", "),
                                        rej.join("; ")
                                    ),
                                    replay.clone(),
                                );
                            }
                            if bad == MBad::None {
                                if !rej.is_empty() {
                                    ctx.violation(
                                        format!("C15/R6/multi-sig/{}/control/rejected-unexpectedly", comp.name()),
                                        format!("certificate of {} whose {} hold {n} valid signatures ({order}) refused: [{}]", k.name, comp.name(), rej.join("; ")),
                                        replay,
                                    );
                                }
                            } else if !acc.is_empty() {
                                if JUDGE_ALL_STORED_SIGNATURES {
                                    ctx.violation(
                                        format!("C15/R6/multi-sig/{}/{}/accepted", comp.name(), bad.name()),
                                        format!(
                                            "certificate of {} whose {} hold {n} signatures ({order}), the {pos_name} one {}: verify_bindings() (\"verifies all stored bindings\") accepted by [{}]",
                                            k.name,
                                            comp.name(),
                                            bad.name(),
                                            acc.join(", ")
                                        ),
                                        replay,
                                    );
                                } else {
                                    ctx.tally(&format!("R6m.advisory.accepted.{}.{pos_name}", comp.name()), 1);
                                }
                            }
                        }
                    }
                }
            }
        }
    }
}

// ---------------------------------------------------------------------------------------------

/// R2 on the third-party certification path: the version-alignment rule concerns the *signer* of a
/// certification, whatever the version of the certified key. Signer and signee of every version
/// pairing; signature version aligned with the signer (must verify) or not (must be refused).
fn run_r2_third_party(ctx: &mut Ctx, keys: &[&K]) {
    for signer in keys {
        for signee in keys {
            if signer.fp == signee.fp {
                continue;
            }
            if !ctx.mine() {
                continue;
            }
            let uid = UserId::from_str(PacketHeaderVersion::New, String::from_utf8_lossy(&signee.uid)).expect("uid");
            let uid_body = uid.to_bytes().unwrap_or_default();
            for sig_v in [4u8, 6] {
                let aligned = (sig_v == 6) == (signer.v == 6);
                let case = format!("signer-v{}-signee-v{}-sig-v{}", signer.v, signee.v, sig_v);
                let mut hashed = sp(2, false, &CTIME.to_be_bytes());
                // issuer fingerprint subpacket in the version that matches the signature version
                // (so that only the key/signature alignment rule decides)
                if (sig_v == 6) == (signer.v == 6) {
                    let mut fpb = vec![signer.v];
                    fpb.extend_from_slice(&signer.fp);
                    hashed.extend(sp(33, false, &fpb));
                }
                let salt = if sig_v == 6 { salt_for(signer.hash, 0x10) } else { vec![] };
                let rs = tmpl(sig_v, 0x10, signer.alg, signer.hash, hashed, vec![], salt);
                let content = [rfc::sig::key_hash_framing(&signee.pbody), rfc::sig::uid_hash_framing(sig_v, false, &uid_body)];
                let body = match make_sig(&signer.ssk.primary_key, rs, &[&content[0], &content[1]]) {
                    Ok(b) => b,
                    Err(e) => {
                        ctx.inconclusive(format!("third-party cert build: {e}"));
                        continue;
                    }
                };
                let res = lib_sig(&body).and_then(|s| {
                    s.verify_third_party_certification(&signee.spk.primary_key, &signer.spk.primary_key, Tag::UserId, &uid).map_err(es)
                });
                ctx.eval();
                ctx.cover(&("R2-third-party", &signer.name, &signee.name, sig_v));
                ctx.seen("R2.third-party", format!("signer-v{}-signee-v{}-{}", signer.v, signee.v, if aligned { "aligned" } else { "misaligned" }));
                let replay = json!({"rule": "R2", "path": "third-party-certification", "case": case, "signer": signer.name, "signee": signee.name, "sig": hexs(&body)});
                match (aligned, res) {
                    (true, Err(e)) => ctx.violation(
                        format!("C15/R2/third-party-certification/signer-v{}-signee-v{}/rejected-unexpectedly", signer.v, signee.v),
                        format!("a v{sig_v} certification by a v{} key over a v{} key was refused: {e}", signer.v, signee.v),
                        replay,
                    ),
                    (false, Ok(())) => ctx.violation(
                        format!("C15/R2/third-party-certification/signer-v{}-signee-v{}/accepted", signer.v, signee.v),
                        format!("a v{sig_v} certification by a v{} key (version-misaligned) over a v{} key was accepted", signer.v, signee.v),
                        replay,
                    ),
                    _ => {}
                }
            }
        }
    }
}

pub fn run(ctx: &mut Ctx) {
    ctx.exhaustive = true;
    if let Err(e) = librepgp_selfcheck() {
        ctx.inconclusive(format!("reference self-check (LibrePGP OCB / SKESK v5 sample) failed: {e}"));
        return;
    }
    let thorough = !ctx.quick();
    let t0 = crate::core::thread_cpu_s();

    // signer keys: primary + encryption subkey + signing subkey
    let mut specs: Vec<(Spec, u64)> = vec![
        (Spec { sign_sub: Some(Alg::Ed25519Legacy), ..Spec::simple(false, Alg::Ed25519Legacy, Some(Alg::EcdhCv25519)) }, 0),
        (Spec { sign_sub: Some(Alg::Ed25519), ..Spec::simple(true, Alg::Ed25519, Some(Alg::X25519)) }, 0),
        (Spec { sign_sub: Some(Alg::EcdsaP256), ..Spec::simple(false, Alg::EcdsaP256, Some(Alg::EcdhP256)) }, 0),
        (Spec { sign_sub: Some(Alg::EcdsaP256), ..Spec::simple(true, Alg::EcdsaP256, Some(Alg::EcdhP256)) }, 0),
        (Spec { sign_sub: Some(Alg::Ed25519), ..Spec::simple(false, Alg::Ed25519, Some(Alg::X25519)) }, 0),
        (Spec { sign_sub: Some(Alg::Ed448), ..Spec::simple(true, Alg::Ed448, Some(Alg::X448)) }, 0),
    ];
    if thorough {
        specs.push((Spec { sign_sub: Some(Alg::Rsa2048), ..Spec::simple(false, Alg::Rsa2048, Some(Alg::Rsa2048)) }, 0));
        specs.push((Spec { sign_sub: Some(Alg::EcdsaP384), ..Spec::simple(true, Alg::EcdsaP384, Some(Alg::EcdhP384)) }, 0));
        specs.push((Spec { sign_sub: Some(Alg::EcdsaP521), ..Spec::simple(false, Alg::EcdsaP521, Some(Alg::EcdhP521)) }, 0));
        specs.push((Spec { sign_sub: Some(Alg::EcdsaK256), ..Spec::simple(true, Alg::EcdsaK256, Some(Alg::X25519)) }, 0));
        specs.push((Spec { sign_sub: Some(Alg::Ed25519Legacy), ..Spec::simple(false, Alg::Ed25519Legacy, Some(Alg::EcdhCv25519)) }, 1));
        specs.push((Spec { sign_sub: Some(Alg::Ed25519), ..Spec::simple(true, Alg::Ed25519, Some(Alg::X25519)) }, 1));
    }
    let mut signers: Vec<K> = vec![];
    for (s, idx) in &specs {
        match K::load(s, *idx) {
            Ok(k) => signers.push(k),
            Err(e) => ctx.inconclusive(format!("zoo key {}: {e}", s.name())),
        }
    }
    if signers.len() < 2 {
        ctx.inconclusive("signer keys unavailable");
        return;
    }
    let refs: Vec<&K> = signers.iter().collect();
    let (k4, k6) = (&signers[0], &signers[1]);
    for k in &refs {
        ctx.seen("keys", k.name.clone());
    }

    // recipients for R1
    // (RSA recipients use index 0: that key is generated and cached by the setup command)
    let mut rspecs = vec![
        (Spec::simple(false, Alg::Ed25519Legacy, Some(Alg::EcdhCv25519)), 1),
        (Spec::simple(true, Alg::Ed25519, Some(Alg::X25519)), 1),
        (Spec::simple(false, Alg::Ed25519Legacy, Some(Alg::X25519)), 1),
        (Spec::simple(true, Alg::Ed25519, Some(Alg::EcdhP256)), 1),
        (Spec::simple(false, Alg::Rsa2048, Some(Alg::Rsa2048)), 0),
    ];
    if thorough {
        rspecs.push((Spec::simple(true, Alg::Rsa2048, Some(Alg::Rsa2048)), 0));
        rspecs.push((Spec::simple(false, Alg::Ed25519Legacy, Some(Alg::EcdhP384)), 1));
        rspecs.push((Spec::simple(true, Alg::Ed25519, Some(Alg::EcdhP521)), 1));
    }
    let mut rcpts = vec![];
    for (s, idx) in &rspecs {
        match K::load(s, *idx) {
            Ok(k) if !k.subs.is_empty() => {
                ctx.seen("recipients", k.name.clone());
                rcpts.push(Rcpt { k, sub: 0 })
            }
            Ok(_) => ctx.inconclusive("recipient without subkey"),
            Err(e) => ctx.inconclusive(format!("zoo key {}: {e}", s.name())),
        }
    }

    let mut t = t0;
    let mut lap = |ctx: &mut Ctx, name: &str| {
        let n = crate::core::thread_cpu_s();
        ctx.extra.insert(format!("cpu_s.{name}"), json!(n - t));
        t = n;
    };
    lap(ctx, "keys");
    run_r1(ctx, &rcpts);
    lap(ctx, "R1");
    run_r2(ctx, &refs, k4, k6);
    run_r2_third_party(ctx, &refs);
    lap(ctx, "R2");
    run_r3(ctx, &refs);
    lap(ctx, "R3");
    run_r4(ctx, &refs);
    lap(ctx, "R4");
    run_r6(ctx, &refs, k4, k6);
    lap(ctx, "R6");
    run_r6_multi(ctx, &refs);
    lap(ctx, "R6m");
}
