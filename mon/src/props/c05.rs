//! C05 — wire fidelity: parse and serialize are mutually inverse, canonical input re-serialises to
//! identical bytes, announced lengths equal written lengths (also after API mutation), and the
//! public accessors report the field values that are on the wire.
//!
//! Inputs come from a reference encoder (`gen_*` below, fields chosen independently by the
//! harness), from API-built / API-mutated objects, and from the repository's fixtures.

use std::collections::BTreeMap;
use std::io::Read;

use pgp::composed::{
    ArmorOptions, Deserializable, DetachedSignature, MessageBuilder, SignedPublicKey, SignedSecretKey,
};
use pgp::crypto::hash::HashAlgorithm;
use pgp::crypto::sym::SymmetricKeyAlgorithm;
use pgp::packet::{
    Packet, PacketParser, PacketTrait, Subpacket, SubpacketData,
};
use pgp::ser::Serialize;
use pgp::types::{KeyDetails, Password, S2kParams, StringToKey};
use rand::{Rng, RngCore};
use rand_chacha::ChaCha8Rng;
use serde_json::json;

use crate::core::{describe_case, hexs, Ctx};
use crate::rfc;
use crate::rfc::frame::{deframe, frame, LenForm};
use crate::rfc::key::{RefProtection, RefPub, RefSecret};
use crate::rfc::sig::{encode_subpacket, RefOps, RefSig};
use crate::rfc::sym::RefS2k;
use crate::zoo::{self, Alg, Spec};

type Acc = BTreeMap<&'static str, String>;

struct Gen {
    tag: u8,
    body: Vec<u8>,
    /// every field is encoded canonically (minimal lengths, canonical MPIs, known layout)
    canonical: bool,
    label: String,
    /// accessor name -> value the generator put on the wire
    expect: Acc,
}

fn rnd_bytes(rng: &mut ChaCha8Rng, n: usize) -> Vec<u8> {
    let mut v = vec![0u8; n];
    rng.fill_bytes(&mut v);
    v
}

/// canonical MPI with exactly `bits` bits (bits >= 1)
fn rnd_mpi(rng: &mut ChaCha8Rng, bits: usize) -> Vec<u8> {
    let bytes = bits.div_ceil(8).max(1);
    let mut v = rnd_bytes(rng, bytes);
    let top = bits % 8;
    if top != 0 {
        v[0] &= (1u8 << top) - 1;
        v[0] |= 1 << (top - 1);
    } else {
        v[0] |= 0x80;
    }
    rfc::mpi(&v)
}

/// one-octet id: mostly interesting values, sometimes anything
fn any_id(rng: &mut ChaCha8Rng, common: &[u8], sweep: u64) -> u8 {
    if sweep < 256 {
        sweep as u8
    } else if rng.gen_bool(0.8) {
        common[rng.gen_range(0..common.len())]
    } else {
        rng.gen()
    }
}

fn len_class(n: usize) -> &'static str {
    if n < 192 {
        "<192"
    } else if n < 8384 {
        "<8384"
    } else {
        ">=8384"
    }
}

const SYMS: [u8; 11] = [1, 2, 3, 4, 7, 8, 9, 10, 11, 12, 13];
const HASHS: [u8; 9] = [1, 2, 3, 8, 9, 10, 11, 12, 14];
const PKALGS: [u8; 12] = [1, 2, 3, 16, 17, 18, 19, 22, 25, 26, 27, 28];

fn gen_s2k(rng: &mut ChaCha8Rng, sweep: u64) -> (Vec<u8>, bool) {
    let kind = any_id(rng, &[0, 1, 3, 4], if sweep < 256 { sweep } else { 999 });
    match kind {
        0 => (vec![0, any_id(rng, &HASHS, 999)], true),
        1 => {
            let mut o = vec![1, any_id(rng, &HASHS, 999)];
            o.extend(rnd_bytes(rng, 8));
            (o, true)
        }
        3 => {
            let mut o = vec![3, any_id(rng, &HASHS, 999)];
            o.extend(rnd_bytes(rng, 8));
            o.push(rng.gen());
            (o, true)
        }
        4 => {
            let mut o = vec![4];
            o.extend(rnd_bytes(rng, 16));
            o.extend([rng.gen_range(1..4), rng.gen_range(1..4), rng.gen_range(3..20)]);
            (o, true)
        }
        t => {
            // unknown / reserved / private S2K: swallows the rest of its container
            let mut o = vec![t];
            let n = rng.gen_range(0..12);
            o.extend(rnd_bytes(rng, n));
            (o, false)
        }
    }
}

fn gen_pkesk(rng: &mut ChaCha8Rng, i: u64) -> Gen {
    let v6 = i % 2 == 1;
    let alg = any_id(rng, &[1, 2, 16, 18, 25, 26], i / 2);
    let mut fields = vec![];
    let mut known = true;
    match alg {
        1 | 2 | 3 => fields.extend(rnd_mpi(rng, [2048usize, 2047, 1, 9, 4096][(i % 5) as usize])),
        16 => {
            fields.extend(rnd_mpi(rng, 1024));
            fields.extend(rnd_mpi(rng, 1023));
        }
        18 => {
            let mut p = vec![0x04u8];
            p.extend(rnd_bytes(rng, 64));
            fields.extend(rfc::mpi(&p));
            let wl = [40usize, 48, 8, 0, 255][(i % 5) as usize];
            fields.push(wl as u8);
            fields.extend(rnd_bytes(rng, wl));
        }
        25 | 26 => {
            fields.extend(rnd_bytes(rng, if alg == 25 { 32 } else { 56 }));
            let wl = [24usize, 40, 8][(i % 3) as usize];
            if v6 {
                fields.push(wl as u8);
            } else {
                fields.push(wl as u8 + 1);
                fields.push(SYMS[(i % 11) as usize]);
            }
            fields.extend(rnd_bytes(rng, wl));
        }
        _ => {
            known = false;
            let n = rng.gen_range(0..40);
            fields.extend(rnd_bytes(rng, n));
        }
    }
    let mut body;
    let mut expect = Acc::new();
    if v6 {
        body = vec![6u8];
        match i % 3 {
            0 => body.push(0), // anonymous
            1 => {
                body.push(33);
                body.push(6);
                body.extend(rnd_bytes(rng, 32));
            }
            _ => {
                body.push(21);
                body.push(4);
                body.extend(rnd_bytes(rng, 20));
            }
        }
        expect.insert("version", "6".into());
    } else {
        body = vec![3u8];
        body.extend(rnd_bytes(rng, 8));
        expect.insert("version", "3".into());
    }
    body.push(alg);
    expect.insert("pk_alg", alg.to_string());
    body.extend(fields);
    Gen { tag: 1, body, canonical: known, label: format!("pkesk-v{}-alg{}", if v6 { 6 } else { 3 }, if known { alg.to_string() } else { "unknown".into() }), expect }
}

fn gen_skesk(rng: &mut ChaCha8Rng, i: u64) -> Gen {
    let ver = [4u8, 6, 5, 4, 6][(i % 5) as usize];
    let sym = any_id(rng, &SYMS, i / 5);
    let aead = any_id(rng, &[1, 2, 3], 999);
    let (s2k, s2k_known) = gen_s2k(rng, if i % 7 == 0 { i / 7 } else { 999 });
    let mut expect = Acc::new();
    expect.insert("version", ver.to_string());
    let mut body = vec![ver];
    let mut canonical = s2k_known;
    match ver {
        4 => {
            body.push(sym);
            body.extend(&s2k);
            if i % 2 == 0 {
                let n = rng.gen_range(1..40);
                body.extend(rnd_bytes(rng, n));
            }
            expect.insert("sym", sym.to_string());
        }
        5 => {
            // LibrePGP v5: cipher, mode (2 = OCB), S2K, 15-octet IV, encrypted key (key size) + 16-octet tag
            let sym = if i % 10 < 8 { SYMS[(i / 5 % 11) as usize] } else { sym };
            let mode = if i % 10 < 9 { 2 } else { aead };
            body.push(sym);
            body.push(mode);
            body.extend(&s2k);
            body.extend(rnd_bytes(rng, 15));
            let n = rfc::sym::key_size(sym).unwrap_or(16) + 16;
            body.extend(rnd_bytes(rng, n));
            expect.insert("sym", sym.to_string());
            if mode != 2 || rfc::sym::key_size(sym).is_none() {
                canonical = false;
            }
        }
        _ => {
            let ivl = rfc::sym::aead_nonce_len(aead).unwrap_or(0);
            body.push((3 + s2k.len() + ivl) as u8);
            body.push(sym);
            body.push(aead);
            body.push(s2k.len() as u8);
            body.extend(&s2k);
            body.extend(rnd_bytes(rng, ivl));
            let n = rng.gen_range(16..60);
            body.extend(rnd_bytes(rng, n));
            expect.insert("sym", sym.to_string());
            if ivl == 0 {
                canonical = false;
            }
        }
    }
    Gen { tag: 3, body, canonical, label: format!("skesk-v{ver}"), expect }
}

fn gen_subpacket_area(rng: &mut ChaCha8Rng, i: u64, max_total: usize, canonical: &mut bool) -> Vec<u8> {
    let mut a = vec![];
    let n = [0usize, 1, 2, 5, 12][(i % 5) as usize];
    for j in 0..n {
        let critical = rng.gen_bool(0.15);
        let choice = rng.gen_range(0..28);
        let (typ, body): (u8, Vec<u8>) = match choice {
            0 => (2, rnd_bytes(rng, 4)),
            1 => (3, rnd_bytes(rng, 4)),
            2 => (9, rnd_bytes(rng, 4)),
            3 => (16, rnd_bytes(rng, 8)),
            4 => (11, (0..rng.gen_range(0..6)).map(|_| SYMS[rng.gen_range(0..11)]).collect()),
            5 => (21, (0..rng.gen_range(0..6)).map(|_| HASHS[rng.gen_range(0..9)]).collect()),
            6 => (22, (0..rng.gen_range(0..4)).map(|_| rng.gen_range(0..4)).collect()),
            7 => (23, vec![0x80]),
            8 => {
                let n = [1usize, 2, 4][rng.gen_range(0..3)];
                (27, rnd_bytes(rng, n))
            }
            9 => (30, vec![rng.gen_range(0..16)]),
            10 => (25, vec![rng.gen_range(0..2)]),
            11 => (7, vec![rng.gen_range(0..2)]),
            12 => (4, vec![rng.gen_range(0..2)]),
            13 => (5, vec![rng.gen(), rng.gen()]),
            14 => {
                let mut b = vec![4u8];
                b.extend(rnd_bytes(rng, 20));
                (33, b)
            }
            15 => {
                let mut b = vec![6u8];
                b.extend(rnd_bytes(rng, 32));
                (33, b)
            }
            16 => {
                // notation: flags(4) name len(2) value len(2) name value
                let nl = rng.gen_range(1..20usize);
                let vl = [0usize, 5, 150, 200, 16400][(i as usize + j) % 5].min(max_total.saturating_sub(a.len() + 40));
                let mut b = vec![if rng.gen() { 0x80 } else { 0 }, 0, 0, 0];
                b.extend((nl as u16).to_be_bytes());
                b.extend((vl as u16).to_be_bytes());
                b.extend((0..nl).map(|k| b'a' + (k % 26) as u8));
                b.extend(rnd_bytes(rng, vl));
                (20, b)
            }
            17 => (26, b"https://example.org/p".to_vec()),
            18 => (28, b"user@example.org".to_vec()),
            19 => (29, {
                let mut b = vec![rng.gen_range(0..4)];
                b.extend(b"because");
                b
            }),
            20 => {
                let n = rng.gen_range(0..30);
                (rng.gen_range(40..100), rnd_bytes(rng, n)) // unknown types
            }
            // issuer / intended recipient fingerprints naming keys of every version that has a fingerprint
            // format (4: 20 octets, 5 and 6: 32 octets)
            22 | 23 | 24 => {
                let v = [4u8, 5, 6][rng.gen_range(0..3)];
                let mut b = vec![v];
                b.extend(rnd_bytes(rng, if v == 4 { 20 } else { 32 }));
                ([33u8, 35, 35][choice - 22], b)
            }
            25 => {
                // revocation key: class, algorithm, v4 fingerprint
                let mut b = vec![[0x80u8, 0xC0][rng.gen_range(0..2)], [1u8, 17, 19, 22][rng.gen_range(0..4)]];
                b.extend(rnd_bytes(rng, 20));
                (12, b)
            }
            26 => {
                // signature target: public-key algorithm, hash algorithm, digest
                let mut b = vec![[1u8, 17, 22][rng.gen_range(0..3)], 8];
                b.extend(rnd_bytes(rng, 32));
                (31, b)
            }
            27 => (34, (0..rng.gen_range(0..4)).flat_map(|_| [[7u8, 8, 9][rng.gen_range(0..3)], [1u8, 2, 3][rng.gen_range(0..3)]]).collect()),
            _ => {
                let n = rng.gen_range(0..30);
                (rng.gen_range(100..111), rnd_bytes(rng, n)) // private
            }
        };
        let lo = if rng.gen_bool(0.1) {
            *canonical = false;
            if body.len() + 1 >= 192 { 5 } else { [2u8, 5][rng.gen_range(0..2)].max(5) }
        } else {
            0
        };
        let enc = encode_subpacket(typ, critical, &body, if lo == 2 { 5 } else { lo });
        if a.len() + enc.len() > max_total {
            break;
        }
        a.extend(enc);
    }
    a
}

fn gen_sig_value(rng: &mut ChaCha8Rng, alg: u8, i: u64) -> (Vec<u8>, bool) {
    match alg {
        1 | 3 => (rnd_mpi(rng, [2048usize, 2041, 1][(i % 3) as usize]), true),
        17 | 19 | 22 => {
            let mut v = rnd_mpi(rng, [256usize, 255, 249, 8][(i % 4) as usize]);
            v.extend(rnd_mpi(rng, [256usize, 250, 256, 1][(i % 4) as usize]));
            (v, true)
        }
        27 => (rnd_bytes(rng, 64), true),
        28 => (rnd_bytes(rng, 114), true),
        _ => {
            let n = rng.gen_range(0..40);
            (rnd_bytes(rng, n), false)
        }
    }
}

fn gen_signature(rng: &mut ChaCha8Rng, i: u64) -> Gen {
    let version = [4u8, 6, 4, 6, 3, 4, 6, 2][(i % 8) as usize];
    let typ = any_id(rng, &[0, 1, 0x10, 0x13, 0x18, 0x19, 0x1F, 0x20, 0x28, 0x30, 0x40, 0x50], if i % 3 == 0 { i / 3 } else { 999 });
    let pub_alg = any_id(rng, &[1, 17, 19, 22, 27, 28], if i % 3 == 1 { i / 3 } else { 999 });
    let hash_alg = any_id(rng, &HASHS, if i % 3 == 2 { i / 3 } else { 999 });
    let mut canonical = true;
    let (sig_data, known) = gen_sig_value(rng, pub_alg, i);
    canonical &= known;
    let max_area = if version == 4 { 60000 } else { 100000 };
    let hashed = if version >= 4 { gen_subpacket_area(rng, i, max_area, &mut canonical) } else { vec![] };
    let unhashed = if version >= 4 { gen_subpacket_area(rng, i / 5, 4000, &mut canonical) } else { vec![] };
    let salt = if version == 6 { rnd_bytes(rng, rfc::salt_len(hash_alg).unwrap_or([16usize, 0, 33][(i % 3) as usize])) } else { vec![] };
    let mut issuer = [0u8; 8];
    rng.fill_bytes(&mut issuer);
    let rs = RefSig {
        version,
        typ,
        pub_alg,
        hash_alg,
        created: rng.gen(),
        issuer,
        hashed,
        unhashed,
        left16: [rng.gen(), rng.gen()],
        salt,
        sig_data,
        off_hashed: 0,
        off_unhashed: 0,
        off_left16: 0,
        off_salt: 0,
        off_sig: 0,
    };
    let mut expect = Acc::new();
    expect.insert("version", version.to_string());
    expect.insert("typ", typ.to_string());
    expect.insert("pk_alg", pub_alg.to_string());
    expect.insert("hash_alg", hash_alg.to_string());
    expect.insert("left16", hex::encode(rs.left16));
    let body = rs.encode();
    Gen { tag: 2, body, canonical, label: format!("sig-v{version}-{}", if known { "known-alg" } else { "unknown-alg" }), expect }
}

fn gen_ops(rng: &mut ChaCha8Rng, i: u64) -> Gen {
    let v6 = i % 2 == 1;
    let typ = any_id(rng, &[0, 1], if i % 3 == 0 { i / 3 } else { 999 });
    let hash = any_id(rng, &HASHS, if i % 3 == 1 { i / 3 } else { 999 });
    let alg = any_id(rng, &PKALGS, if i % 3 == 2 { i / 3 } else { 999 });
    let ops = RefOps {
        version: if v6 { 6 } else { 3 },
        typ,
        hash_alg: hash,
        pub_alg: alg,
        salt: if v6 { rnd_bytes(rng, rfc::salt_len(hash).unwrap_or(16)) } else { vec![] },
        issuer: rnd_bytes(rng, if v6 { 32 } else { 8 }),
        last: [0u8, 1, 1, 0][(i % 4) as usize],
    };
    let mut expect = Acc::new();
    expect.insert("version", ops.version.to_string());
    expect.insert("typ", typ.to_string());
    expect.insert("hash_alg", hash.to_string());
    expect.insert("pk_alg", alg.to_string());
    expect.insert("last", ops.last.to_string());
    Gen { tag: 4, body: ops.encode(), canonical: true, label: format!("ops-v{}", ops.version), expect }
}

/// public material for algorithm `alg` with harness-chosen values (structurally valid)
fn gen_pub_material(rng: &mut ChaCha8Rng, alg: u8, i: u64) -> (Vec<u8>, bool) {
    use rfc::key::*;
    let oid_mpi = |oid: &[u8], point: Vec<u8>| {
        let mut m = vec![oid.len() as u8];
        m.extend(oid);
        m.extend(rfc::mpi(&point));
        m
    };
    match alg {
        1 | 2 | 3 => {
            let mut m = rnd_mpi(rng, [2048usize, 2047, 3072, 1025][(i % 4) as usize]);
            let l = m.len() - 1;
            m[l] |= 1;
            m.extend(rfc::mpi(&[1, 0, 1]));
            (m, true)
        }
        16 => {
            let mut m = vec![];
            for b in [1024usize, 3, 1020] {
                m.extend(rnd_mpi(rng, b));
            }
            (m, true)
        }
        17 => {
            let mut m = vec![];
            for b in [1024usize, 160, 1023, 1019] {
                m.extend(rnd_mpi(rng, b));
            }
            (m, true)
        }
        22 => {
            let mut p = vec![0x40u8];
            p.extend(rnd_bytes(rng, 32));
            (oid_mpi(OID_ED25519, p), true)
        }
        18 => {
            let mut p = vec![0x40u8];
            p.extend(rnd_bytes(rng, 32));
            let mut m = oid_mpi(OID_CV25519, p);
            m.extend([3, 1, [8u8, 9, 10][(i % 3) as usize], [7u8, 8, 9][(i % 3) as usize]]);
            (m, true)
        }
        25 | 27 => (rnd_bytes(rng, 32), true),
        26 => (rnd_bytes(rng, 56), true),
        28 => (rnd_bytes(rng, 57), true),
        _ => {
            let n = rng.gen_range(0..60);
            (rnd_bytes(rng, n), false)
        }
    }
}

fn gen_secret_material(rng: &mut ChaCha8Rng, alg: u8) -> Vec<u8> {
    match alg {
        1 | 2 | 3 => {
            let mut m = vec![];
            for b in [2046usize, 1024, 1023, 1020] {
                m.extend(rnd_mpi(rng, b));
            }
            m
        }
        16 | 17 => rnd_mpi(rng, 159),
        18 | 19 | 22 => rnd_mpi(rng, 253),
        25 | 27 => rnd_bytes(rng, 32),
        26 => rnd_bytes(rng, 56),
        28 => rnd_bytes(rng, 57),
        _ => rnd_bytes(rng, 20),
    }
}

fn gen_key(rng: &mut ChaCha8Rng, i: u64, real: &[(RefPub, Vec<u8>)]) -> Gen {
    let secret = i % 2 == 1;
    let sub = i % 4 >= 2;
    let tag = match (secret, sub) {
        (false, false) => 6,
        (false, true) => 14,
        (true, false) => 5,
        (true, true) => 7,
    };
    // half of the keys are re-dressed real keys (valid curve points etc.), half synthetic
    let (mut rp, material): (RefPub, Vec<u8>) = if i % 3 != 0 && !real.is_empty() {
        real[(i as usize / 3) % real.len()].clone()
    } else {
        let alg = any_id(rng, &[1, 16, 17, 18, 22, 25, 26, 27, 28], if i % 9 == 0 { i / 9 } else { 999 });
        let version = if matches!(alg, 18 | 22 | 16 | 17) { 4 } else { [4u8, 6, 4, 6, 3][(i % 5) as usize] };
        let version = if version == 3 && !matches!(alg, 1 | 2 | 3) { 4 } else { version };
        let (m, _) = gen_pub_material(rng, alg, i);
        let sm = gen_secret_material(rng, alg);
        (RefPub { version, created: 0, v3_expiry_days: 0, alg, material: m }, sm)
    };
    rp.created = rng.gen();
    rp.v3_expiry_days = rng.gen_range(0..1000);
    let known_alg = PKALGS.contains(&rp.alg);
    let mut expect = Acc::new();
    expect.insert("version", rp.version.to_string());
    expect.insert("pk_alg", rp.alg.to_string());
    expect.insert("created", rp.created.to_string());
    if !secret {
        return Gen { tag, body: rp.encode(), canonical: known_alg, label: format!("key-pub-v{}-alg{}", rp.version, if known_alg { rp.alg.to_string() } else { "unknown".into() }), expect };
    }
    // secret: choose the S2K usage octet from the whole range
    let usage = any_id(rng, &[0, 253, 254, 255, 7, 9], if i % 5 == 0 { i / 5 % 256 } else { 999 });
    let cipher = SYMS[(i % 11) as usize];
    let s2k = match i % 4 {
        0 => RefS2k::Simple { hash: 8 },
        1 => RefS2k::Salted { hash: 10, salt: [7; 8] },
        2 => RefS2k::Iterated { hash: 8, salt: [9; 8], count: (i % 256) as u8 },
        _ => RefS2k::Argon2 { salt: [3; 16], t: 1, p: 1, m: 6 },
    };
    let prot = match usage {
        0 => RefProtection::None,
        253 => RefProtection::Aead { cipher: [7u8, 8, 9][(i % 3) as usize], aead: [1u8, 2, 3][(i / 3 % 3) as usize], s2k, nonce: rnd_bytes(rng, [16usize, 15, 12][(i / 3 % 3) as usize]) },
        254 => RefProtection::Cfb { cipher, s2k, iv: rnd_bytes(rng, rfc::sym::block_size(cipher).unwrap()) },
        255 => RefProtection::MalleableCfb { cipher, s2k, iv: rnd_bytes(rng, rfc::sym::block_size(cipher).unwrap()) },
        c => match rfc::sym::block_size(c) {
            Some(bs) => RefProtection::LegacyCipher { cipher: c, iv: rnd_bytes(rng, bs) },
            None => RefProtection::LegacyCipher { cipher: c, iv: vec![] },
        },
    };
    let data = if usage == 0 {
        let mut d = material.clone();
        if rp.version != 6 {
            d.extend(rfc::sum16(&material).to_be_bytes());
        }
        d
    } else {
        let n = material.len() + 20;
        rnd_bytes(rng, n)
    };
    expect.insert("usage", usage.to_string());
    let canonical = known_alg && (usage == 0 || usage >= 253 || rfc::sym::block_size(usage).is_some());
    let rs = RefSecret { public: rp.clone(), protection: prot, data };
    Gen { tag, body: rs.encode(), canonical, label: format!("key-sec-v{}-u{}", rp.version, match usage { 0 => "0".to_string(), 253..=255 => usage.to_string(), _ => "legacy".into() }), expect }
}

fn gen_misc(rng: &mut ChaCha8Rng, i: u64) -> Gen {
    let mut expect = Acc::new();
    let sizes = [0usize, 1, 100, 191, 192, 193, 8383, 8384, 8385, 20000];
    let n = sizes[(i / 11 % 10) as usize];
    match i % 11 {
        0 => {
            // literal
            let mode = any_id(rng, &[b'b', b't', b'u', b'm'], if i % 22 == 0 { i / 22 } else { 999 });
            let nl = [0usize, 1, 8, 255][(i / 11 % 4) as usize];
            let name: Vec<u8> = (0..nl).map(|k| b'a' + (k % 26) as u8).collect();
            let mut body = vec![mode, nl as u8];
            body.extend(&name);
            let date: u32 = rng.gen();
            body.extend(date.to_be_bytes());
            body.extend(rnd_bytes(rng, n));
            expect.insert("mode", mode.to_string());
            expect.insert("name", hex::encode(&name));
            expect.insert("data_len", n.to_string());
            Gen { tag: 11, body, canonical: true, label: "literal".into(), expect }
        }
        1 => {
            let alg = any_id(rng, &[0, 1, 2, 3], if i % 22 == 1 { i / 22 } else { 999 });
            let mut body = vec![alg];
            body.extend(rnd_bytes(rng, n));
            Gen { tag: 8, body, canonical: true, label: "compressed".into(), expect }
        }
        2 => Gen { tag: 9, body: rnd_bytes(rng, n), canonical: true, label: "sed".into(), expect },
        3 => {
            let mut body = vec![1u8];
            body.extend(rnd_bytes(rng, n));
            expect.insert("version", "1".into());
            Gen { tag: 18, body, canonical: true, label: "seipd-v1".into(), expect }
        }
        4 => {
            let sym = any_id(rng, &[7, 8, 9], if i % 33 == 4 { i / 33 } else { 999 });
            let aead = any_id(rng, &[1, 2, 3], if i % 33 == 15 { i / 33 } else { 999 });
            let chunk = any_id(rng, &[0, 6, 16], if i % 33 == 26 { i / 33 } else { 999 });
            let mut body = vec![2u8, sym, aead, chunk];
            body.extend(rnd_bytes(rng, 32));
            body.extend(rnd_bytes(rng, n));
            expect.insert("version", "2".into());
            Gen { tag: 18, body, canonical: true, label: "seipd-v2".into(), expect }
        }
        5 => {
            let sym = any_id(rng, &[7, 8, 9], 999);
            let aead = any_id(rng, &[1, 2], 999);
            let chunk = any_id(rng, &[0, 6, 16], 999);
            let mut body = vec![1u8, sym, aead, chunk];
            body.extend(rnd_bytes(rng, rfc::sym::aead_nonce_len(aead).unwrap_or(16)));
            body.extend(rnd_bytes(rng, n));
            Gen { tag: 20, body, canonical: true, label: "gnupg-aead".into(), expect }
        }
        6 => Gen { tag: 19, body: rnd_bytes(rng, 20), canonical: true, label: "mdc".into(), expect },
        7 => Gen { tag: 10, body: b"PGP".to_vec(), canonical: true, label: "marker".into(), expect },
        8 => Gen { tag: 12, body: rnd_bytes(rng, n.min(300)), canonical: true, label: "trust".into(), expect },
        9 => {
            let body: Vec<u8> = if i % 2 == 0 { (0..n.min(9000)).map(|k| b'A' + (k % 26) as u8).collect() } else { rnd_bytes(rng, n.min(9000)) };
            expect.insert("data_len", body.len().to_string());
            Gen { tag: 13, body, canonical: true, label: "userid".into(), expect }
        }
        _ => {
            if i % 2 == 0 {
                Gen { tag: 21, body: rnd_bytes(rng, n), canonical: true, label: "padding".into(), expect }
            } else {
                // user attribute: subpacket length, type, data
                let typ = any_id(rng, &[1, 2, 100], 999);
                let mut data = vec![];
                if typ == 1 {
                    // image header: len 16 LE, version 1, format 1, 12 zero
                    data.extend([0x10, 0x00, 0x01, 0x01]);
                    data.extend([0u8; 12]);
                }
                data.extend(rnd_bytes(rng, n.min(20000)));
                let len = data.len() + 1;
                let mut body = vec![];
                let nonmin = i % 6 == 1;
                if len < 192 && !nonmin {
                    body.push(len as u8);
                } else if len < 16320 && !nonmin {
                    let v = len - 192;
                    body.push((v >> 8) as u8 + 192);
                    body.push(v as u8);
                } else {
                    body.push(255);
                    body.extend((len as u32).to_be_bytes());
                }
                body.push(typ);
                body.extend(data);
                Gen { tag: 17, body, canonical: !nonmin, label: "userattr".into(), expect }
            }
        }
    }
}

fn accessors(p: &Packet) -> Acc {
    let mut a = Acc::new();
    fn key<K: KeyDetails>(a: &mut Acc, k: &K) {
        a.insert("version", u8::from(k.version()).to_string());
        a.insert("pk_alg", u8::from(k.algorithm()).to_string());
        a.insert("created", k.created_at().as_secs().to_string());
    }
    match p {
        Packet::PublicKey(k) => key(&mut a, k),
        Packet::PublicSubkey(k) => key(&mut a, k),
        Packet::SecretKey(k) => {
            key(&mut a, k);
            a.insert("usage", k.secret_params().string_to_key_id().to_string());
        }
        Packet::SecretSubkey(k) => {
            key(&mut a, k);
            a.insert("usage", k.secret_params().string_to_key_id().to_string());
        }
        Packet::Signature(s) => {
            a.insert("version", u8::from(s.version()).to_string());
            if let Some(c) = s.config() {
                a.insert("typ", u8::from(c.typ).to_string());
                a.insert("pk_alg", u8::from(c.pub_alg).to_string());
                a.insert("hash_alg", u8::from(c.hash_alg).to_string());
            }
            if let Some(l) = s.signed_hash_value() {
                a.insert("left16", hex::encode(l));
            }
        }
        Packet::OnePassSignature(o) => {
            a.insert("version", o.version().to_string());
            a.insert("typ", u8::from(o.typ()).to_string());
            a.insert("hash_alg", u8::from(o.hash_algorithm()).to_string());
            a.insert("pk_alg", u8::from(o.public_key_algorithm()).to_string());
            a.insert("last", if o.is_nested() { "0".into() } else { "1".into() });
        }
        Packet::PublicKeyEncryptedSessionKey(k) => {
            a.insert("version", u8::from(k.version()).to_string());
            if let Ok(alg) = k.algorithm() {
                a.insert("pk_alg", u8::from(alg).to_string());
            }
        }
        Packet::SymKeyEncryptedSessionKey(k) => {
            a.insert("version", u8::from(k.version()).to_string());
            if let Some(s) = k.sym_algorithm() {
                a.insert("sym", u8::from(s).to_string());
            }
        }
        Packet::SymEncryptedProtectedData(d) => {
            a.insert("version", d.version().to_string());
        }
        Packet::LiteralData(l) => {
            a.insert("name", hex::encode(l.file_name()));
            a.insert("data_len", l.data().len().to_string());
        }
        Packet::UserId(u) => {
            a.insert("data_len", u.id().len().to_string());
        }
        _ => {}
    }
    a
}

/// The generic oracle on one framed packet.
fn judge(ctx: &mut Ctx, g: &Gen, form: &LenForm, framing_canonical: bool) {
    let Some(wire) = frame(g.tag, &g.body, form) else { return };
    let label = &g.label;
    let replay = json!({"label": label, "tag": g.tag, "form": format!("{form:?}"), "wire": hexs(&wire)});
    describe_case(&format!("ref:{label}"));
    let parsed = ctx.guarded("C05/ref", || replay.clone(), || PacketParser::new(&wire[..]).collect::<Vec<_>>());
    ctx.eval();
    let Some(parsed) = parsed else { return };
    if parsed.len() != 1 || parsed[0].is_err() {
        ctx.tally(&format!("rejected.{label}"), 1);
        return;
    }
    let p = parsed.into_iter().next().unwrap().unwrap();
    ctx.tally(&format!("accepted.{label}"), 1);
    ctx.cover(&(label, g.body.first().copied(), len_class(g.body.len()), g.canonical, format!("{form:?}")));
    ctx.seen("labels", label.clone());
    ctx.seen("length_classes", len_class(g.body.len()));
    packet_checks(ctx, &p, Some((&wire, g.canonical && framing_canonical, &g.body)), label, &replay);
    // (d) accessors
    let acc = accessors(&p);
    for (k, v) in &g.expect {
        if let Some(got) = acc.get(k) {
            // SEIPD: data_len etc not all present
            if got != v {
                ctx.violation(
                    format!("C05/accessor-mismatch/{label}/{k}"),
                    format!("accessor {k} reports {got} but the wire carries {v}"),
                    replay.clone(),
                );
            }
        }
    }
}

/// (a) re-parse equality, (b) canonical => identical bytes, (c) length truthfulness
fn packet_checks(ctx: &mut Ctx, p: &Packet, wire: Option<(&[u8], bool, &[u8])>, label: &str, replay: &serde_json::Value) {
    let r = ctx.guarded("C05/serialise", || replay.clone(), || {
        let mut out = vec![];
        let res = p.to_writer(&mut out);
        (res.map_err(|e| e.to_string()), out, p.write_len())
    });
    ctx.eval();
    let Some((res, out, wl)) = r else { return };
    if let Err(e) = res {
        ctx.violation(format!("C05/accepted-but-not-serialisable/{label}"), e, replay.clone());
        return;
    }
    if wl != out.len() {
        ctx.violation(
            format!("C05/write_len-mismatch/{label}"),
            format!("write_len() (with header) = {wl} but {} bytes were written", out.len()),
            replay.clone(),
        );
    }
    // header announces the body length that follows
    match deframe(&out) {
        Ok(d) if d.len() == 1 && d[0].encoded_len == out.len() => {}
        Ok(_) | Err(_) => {
            if !out.is_empty() && (out[0] & 0x43) != 0x03 && (out[0] & 0xC0 == 0xC0 || out[0] & 3 != 3) {
                ctx.violation(format!("C05/written-header-length-wrong/{label}"), "the written packet does not deframe to exactly one packet", json!({"base": replay, "out": hexs(&out)}));
            }
        }
    }
    // the packet header the object itself carries: for objects built or modified through the API (the
    // library maintains that header) and for canonically encoded input, a fixed length in it is the length
    // of the body that is written
    if wire.map(|w| w.1).unwrap_or(true) {
        if let pgp::types::PacketLength::Fixed(n) = p.packet_header().packet_length() {
            let mut body = vec![];
            let body_ok = body_of(p, &mut body).is_ok();
            if body_ok && n as usize != body.len() {
                ctx.violation(
                    format!("C05/stored-header-length-stale/{label}"),
                    format!("packet_header() of the object announces a body of {n} octets, {} are written", body.len()),
                    replay.clone(),
                );
            } else if body_ok {
                // the header octets themselves (format, length type) must announce that body
                let mut hb = vec![];
                if p.packet_header().to_writer(&mut hb).is_ok() {
                    let mut framed = hb.clone();
                    framed.extend_from_slice(&body);
                    let good = matches!(deframe(&framed), Ok(d) if d.len() == 1 && d[0].encoded_len == framed.len() && d[0].body == body);
                    if !good {
                        ctx.violation(
                            format!("C05/stored-header-octets-wrong/{label}"),
                            format!("packet_header() of the object serialises to {} which does not announce the {}-octet body that is written", hexs(&hb), body.len()),
                            replay.clone(),
                        );
                    }
                }
            }
        }
    }
    // (a)
    let again: Vec<_> = match ctx.guarded("C05/reparse", || replay.clone(), || PacketParser::new(&out[..]).collect::<Vec<_>>()) {
        Some(a) => a,
        None => return,
    };
    if again.len() != 1 || again[0].is_err() {
        ctx.violation(
            format!("C05/own-output-rejected/{label}"),
            format!("re-serialised packet does not parse: {:?}", again.first().map(|r| r.as_ref().err().map(|e| e.to_string()))),
            json!({"base": replay, "out": hexs(&out)}),
        );
        return;
    }
    let p2 = again.into_iter().next().unwrap().unwrap();
    // serialise once more: must be a fixed point
    let mut out2 = vec![];
    let _ = p2.to_writer(&mut out2);
    if out2 != out {
        ctx.violation(format!("C05/reserialise-not-idempotent/{label}"), "serialize(parse(serialize(P))) differs from serialize(P)", json!({"base": replay, "out": hexs(&out), "out2": hexs(&out2)}));
    }
    if let Some((w, canonical, body)) = wire {
        if canonical {
            if &p2 != p {
                ctx.violation(format!("C05/reparse-differs/{label}"), "parse(serialize(P)) != P for a canonically encoded packet", json!({"base": replay, "out": hexs(&out)}));
            }
            if out != w {
                if x448_clamp_only(w, &out, body) {
                    ctx.violation("C05/canonical-bytes-changed/x448-secret-clamped", "an unprotected X448 secret key whose 56 octets are not in clamped form is written back clamped (different bytes, same key)", json!({"base": replay, "out": hexs(&out)}));
                } else {
                    ctx.violation(format!("C05/canonical-bytes-changed/{label}"), "canonically encoded packet is re-serialised to different bytes", json!({"base": replay, "out": hexs(&out)}));
                }
            }
        } else {
            // value round trip on the normalised form
            let mut b1 = vec![];
            let mut b2 = vec![];
            let _ = body_of(p, &mut b1);
            let _ = body_of(&p2, &mut b2);
            if b1 != b2 {
                ctx.violation(format!("C05/reparse-body-differs/{label}"), "body changes across a serialise/parse cycle", replay.clone());
            }
            if b1 == body && out != w {
                ctx.tally("noncanonical.framing_normalised", 1);
            }
        }
    } else if &p2 != p {
        // objects without reference wire (API built): headers may legitimately be re-derived,
        // compare bodies and tags
        let mut b1 = vec![];
        let mut b2 = vec![];
        let _ = body_of(p, &mut b1);
        let _ = body_of(&p2, &mut b2);
        if b1 != b2 || p.tag() != p2.tag() {
            ctx.violation(format!("C05/reparse-differs/{label}"), "parse(serialize(P)) differs from P", replay.clone());
        }
    }
}

/// true if `out` equals `w` except that the unprotected X448 secret scalar was clamped
/// (RFC 7748: clear the two low bits of the first octet, set the high bit of the last) and, for
/// v4, the checksum re-computed.
fn x448_clamp_only(w: &[u8], out: &[u8], body: &[u8]) -> bool {
    let Some(rs) = RefSecret::parse(body) else { return false };
    if rs.public.alg != 26 || rs.protection != RefProtection::None || w.len() != out.len() {
        return false;
    }
    let hdr = w.len() - body.len();
    let data_off = hdr + body.len() - rs.data.len();
    let mut exp = w.to_vec();
    if rs.data.len() < 56 {
        return false;
    }
    exp[data_off] &= 0xFC;
    exp[data_off + 55] |= 0x80;
    if rs.public.version != 6 && rs.data.len() == 58 {
        let c = rfc::sum16(&exp[data_off..data_off + 56]).to_be_bytes();
        exp[data_off + 56] = c[0];
        exp[data_off + 57] = c[1];
    }
    exp == out
}

fn body_of(p: &Packet, out: &mut Vec<u8>) -> pgp::errors::Result<()> {
    macro_rules! b {
        ($x:expr) => {{
            $x.to_writer(out)?;
            if $x.write_len() != out.len() {
                return Err(pgp::errors::Error::from(format!("body write_len {} != written {}", $x.write_len(), out.len())));
            }
            Ok(())
        }};
    }
    match p {
        Packet::CompressedData(x) => b!(x),
        Packet::PublicKey(x) => b!(x),
        Packet::PublicSubkey(x) => b!(x),
        Packet::SecretKey(x) => b!(x),
        Packet::SecretSubkey(x) => b!(x),
        Packet::LiteralData(x) => b!(x),
        Packet::Marker(x) => b!(x),
        Packet::ModDetectionCode(x) => b!(x),
        Packet::OnePassSignature(x) => b!(x),
        Packet::PublicKeyEncryptedSessionKey(x) => b!(x),
        Packet::Signature(x) => b!(x),
        Packet::SymEncryptedData(x) => b!(x),
        Packet::SymEncryptedProtectedData(x) => b!(x),
        Packet::SymKeyEncryptedSessionKey(x) => b!(x),
        Packet::Trust(x) => b!(x),
        Packet::UserAttribute(x) => b!(x),
        Packet::UserId(x) => b!(x),
        Packet::Padding(x) => b!(x),
        Packet::GnupgAeadData(x) => b!(x),
    }
}

fn composite_len<T: Serialize>(ctx: &mut Ctx, what: &str, t: &T, replay: &serde_json::Value) -> Option<Vec<u8>> {
    let r = ctx.guarded("C05/composite", || replay.clone(), || (t.to_bytes().map_err(|e| e.to_string()), t.write_len()));
    ctx.eval();
    let (b, wl) = r?;
    match b {
        Ok(b) => {
            if b.len() != wl {
                ctx.violation(format!("C05/composite-write_len-mismatch/{what}"), format!("{what}: write_len() = {wl} but to_bytes() wrote {} bytes", b.len()), replay.clone());
            }
            Some(b)
        }
        Err(e) => {
            ctx.violation(format!("C05/composite-not-serialisable/{what}"), e, replay.clone());
            None
        }
    }
}

pub fn run(ctx: &mut Ctx) {
    // real key material to be re-dressed by the reference encoder
    let mut real: Vec<(RefPub, Vec<u8>)> = vec![];
    let zoo_specs = [
        Spec::simple(false, Alg::Ed25519Legacy, Some(Alg::EcdhCv25519)),
        Spec::simple(false, Alg::EcdsaP256, Some(Alg::EcdhP256)),
        Spec::simple(true, Alg::Ed25519, Some(Alg::X25519)),
        Spec::simple(true, Alg::Ed448, Some(Alg::X448)),
        Spec::simple(false, Alg::EcdsaP384, Some(Alg::EcdhP521)),
        Spec::simple(true, Alg::EcdsaP521, Some(Alg::EcdhP384)),
        Spec::simple(false, Alg::EcdsaK256, None),
        Spec::simple(false, Alg::Rsa2048, Some(Alg::Rsa2048)),
        Spec::simple(false, Alg::Dsa2048, None),
    ];
    let zoo_keys: Vec<(String, SignedSecretKey)> = zoo_specs.iter().map(|s| (s.name(), zoo::key(s, 3))).collect();
    for (_, k) in &zoo_keys {
        let mut bodies = vec![k.primary_key.to_bytes().unwrap()];
        for s in &k.secret_subkeys {
            bodies.push(s.key.to_bytes().unwrap());
        }
        for b in bodies {
            if let Some(rs) = RefSecret::parse(&b) {
                if let Some(Ok(m)) = rs.unlock(5, b"") {
                    real.push((rs.public, m));
                }
            }
        }
    }

    // ---------------------------------------------------------------------------------
    // Family R: reference-encoded packets of every type
    let per_type = ctx.qt(8000u64, 400000u64);
    let forms_canon = [LenForm::NewMin];
    for kind in 0..6u64 {
        for i in 0..per_type {
            if !ctx.mine() {
                continue;
            }
            let mut rng = ctx.rng("R", kind * 1_000_000 + i);
            let g = match kind {
                0 => gen_pkesk(&mut rng, i),
                1 => gen_skesk(&mut rng, i),
                2 => gen_signature(&mut rng, i),
                3 => gen_ops(&mut rng, i),
                4 => gen_key(&mut rng, i, &real),
                _ => gen_misc(&mut rng, i),
            };
            for f in &forms_canon {
                judge(ctx, &g, f, true);
            }
            // alternative framings: old format (minimal length type) for tags < 16, non-minimal new
            if i % 5 == 0 {
                let old = if g.body.len() < 256 { LenForm::Old1 } else if g.body.len() < 65536 { LenForm::Old2 } else { LenForm::Old4 };
                judge(ctx, &g, &old, true);
                judge(ctx, &g, &LenForm::New5, false);
                if g.body.len() < 256 {
                    judge(ctx, &g, &LenForm::Old4, false);
                }
            }
            if i < 3 {
                ctx.sample(json!({"family": "R", "label": g.label, "tag": g.tag, "body": hexs(&g.body), "canonical": g.canonical}));
            }
        }
    }

    // ---------------------------------------------------------------------------------
    // Family A: API-built and API-mutated objects
    for (ki, (name, key)) in zoo_keys.iter().enumerate() {
        if !ctx.mine() {
            continue;
        }
        describe_case(&format!("api:{name}"));
        let replay = json!({"family": "A", "key": name});
        let mut rng = ctx.rng("A", ki as u64);
        let publ = key.to_public_key();
        ctx.cover(&("A", name));
        // composites
        let b = composite_len(ctx, "SignedSecretKey", key, &replay);
        composite_len(ctx, "SignedPublicKey", &publ, &replay);
        composite_len(ctx, "SignedKeyDetails", &key.details, &replay);
        for u in &key.details.users {
            composite_len(ctx, "SignedUser", u, &replay);
        }
        for s in &publ.public_subkeys {
            composite_len(ctx, "SignedPublicSubKey", s, &replay);
        }
        for s in &key.secret_subkeys {
            composite_len(ctx, "SignedSecretSubKey", s, &replay);
        }
        // every packet of the certificate: packet-level checks
        if let Some(b) = b {
            for p in PacketParser::new(&b[..]).flatten() {
                packet_checks(ctx, &p, None, "api-cert-packet", &replay);
            }
            // parse back equal
            match SignedSecretKey::from_bytes(&b[..]) {
                Ok(k2) => {
                    if &k2 != key {
                        ctx.violation("C05/composite-reparse-differs/SignedSecretKey", name.to_string(), replay.clone());
                    }
                }
                Err(e) => ctx.violation("C05/composite-own-output-rejected/SignedSecretKey", e.to_string(), replay.clone()),
            }
        }
        if let Ok(s) = publ.to_armored_string(ArmorOptions::default()) {
            match SignedPublicKey::from_string(&s) {
                Ok((p2, _)) => {
                    if p2 != publ {
                        ctx.violation("C05/composite-reparse-differs/SignedPublicKey", name.to_string(), replay.clone());
                    }
                }
                Err(e) => ctx.violation("C05/composite-own-output-rejected/SignedPublicKey", e.to_string(), replay.clone()),
            }
        }
        // composite objects with every optional part populated through the public fields / conversions: a
        // transferable secret key that carries public subkey packets next to secret ones, extra user attribute,
        // direct-key and revocation signatures
        {
            use pgp::composed::SignedPublicSubKey;
            let mut variants: Vec<(&str, SignedSecretKey)> = vec![];
            if !key.secret_subkeys.is_empty() {
                let mut k2 = key.clone();
                let s = k2.secret_subkeys.remove(0);
                k2.public_subkeys.push(SignedPublicSubKey::from(s));
                variants.push(("SignedSecretKey-with-public-subkey", k2));
                let mut k3 = key.clone();
                let s = k3.secret_subkeys[0].clone();
                k3.public_subkeys.push(SignedPublicSubKey::from(s));
                variants.push(("SignedSecretKey-with-public-and-secret-subkey", k3));
            }
            {
                let mut k4 = key.clone();
                if let Some(u) = k4.details.users.first().cloned() {
                    k4.details.users.push(u);
                }
                let d = k4.details.direct_signatures.clone();
                k4.details.revocation_signatures.extend(k4.details.users.first().map(|u| u.signatures.clone()).unwrap_or_default());
                k4.details.direct_signatures.extend(d);
                variants.push(("SignedSecretKey-extra-signatures", k4));
            }
            for (what, k) in &variants {
                if let Some(b) = composite_len(ctx, what, k, &replay) {
                    ctx.cover(&("api-composite", name, *what));
                    // what was written is the packets of all parts: parse with the reference framer and compare the count
                    let parts = 1 + k.details.direct_signatures.len() + k.details.revocation_signatures.len()
                        + k.details.users.iter().map(|u| 1 + u.signatures.len()).sum::<usize>()
                        + k.details.user_attributes.iter().map(|u| 1 + u.signatures.len()).sum::<usize>()
                        + k.public_subkeys.iter().map(|s| 1 + s.signatures.len()).sum::<usize>()
                        + k.secret_subkeys.iter().map(|s| 1 + s.signatures.len()).sum::<usize>();
                    match deframe(&b) {
                        Ok(d) if d.len() == parts => {}
                        Ok(d) => ctx.violation(format!("C05/composite-packet-count/{what}"), format!("{} packets written for {parts} parts", d.len()), replay.clone()),
                        Err(e) => ctx.violation(format!("C05/composite-not-framed/{what}"), e, replay.clone()),
                    }
                }
                let pk = k.to_public_key();
                composite_len(ctx, &format!("{what}/to_public_key"), &pk, &replay);
            }
        }
        // lock / unlock mutation: lengths must stay truthful
        let slow = name.contains("Rsa") || name.contains("Dsa");
        let s2ks: Vec<S2kParams> = {
            let iv16 = rnd_bytes(&mut rng, 16);
            let mut v = vec![S2kParams::Cfb {
                sym_alg: SymmetricKeyAlgorithm::AES256,
                s2k: StringToKey::IteratedAndSalted { hash_alg: HashAlgorithm::Sha256, salt: [1; 8], count: 3 },
                iv: iv16.clone().into(),
            }];
            v.push(S2kParams::Aead {
                sym_alg: SymmetricKeyAlgorithm::AES128,
                aead_mode: pgp::crypto::aead::AeadAlgorithm::Ocb,
                s2k: StringToKey::Argon2 { salt: [2; 16], t: 1, p: 1, m_enc: 6 },
                nonce: rnd_bytes(&mut rng, 15).into(),
            });
            v.push(S2kParams::Cfb {
                sym_alg: SymmetricKeyAlgorithm::CAST5,
                s2k: StringToKey::Salted { hash_alg: HashAlgorithm::Sha512, salt: [4; 8] },
                iv: rnd_bytes(&mut rng, 8).into(),
            });
            v
        };
        for (si, s2k) in s2ks.into_iter().enumerate() {
            if slow && si > 0 {
                continue;
            }
            let mut k2 = key.clone();
            let pw = Password::from("pw");
            if k2.primary_key.set_password_with_s2k(&pw, s2k.clone()).is_err() {
                continue;
            }
            for s in k2.secret_subkeys.iter_mut() {
                let _ = s.key.set_password_with_s2k(&pw, s2k.clone());
            }
            let label = format!("api-locked-{si}");
            packet_checks(ctx, &Packet::SecretKey(k2.primary_key.clone()), None, &label, &replay);
            // PacketTrait level
            {
                let pk = &k2.primary_key;
                let mut w = vec![];
                let _ = pk.to_writer_with_header(&mut w);
                ctx.eval();
                if pk.write_len_with_header() != w.len() {
                    ctx.violation("C05/write_len_with_header-mismatch/locked-secret-key", format!("announced {} written {}", pk.write_len_with_header(), w.len()), replay.clone());
                }
            }
            if let Some(b) = composite_len(ctx, "SignedSecretKey-locked", &k2, &replay) {
                match SignedSecretKey::from_bytes(&b[..]) {
                    Ok(k3) => {
                        // the stored packet header of a mutated key is re-derived on write: compare bytes
                        if k3.to_bytes().ok().as_deref() != Some(&b[..]) {
                            ctx.violation("C05/composite-reserialise-differs/locked", name.to_string(), replay.clone());
                        }
                    }
                    Err(e) => ctx.violation("C05/composite-own-output-rejected/locked", e.to_string(), replay.clone()),
                }
            }
            // the same mutation on a key packet that arrived in old-format framing (body lengths cross the
            // 1-octet / 2-octet length types when the protection is added or removed)
            if let Ok(plain_body) = key.primary_key.to_bytes() {
                let form = if plain_body.len() < 256 { LenForm::Old1 } else { LenForm::Old2 };
                if let Some(wire) = frame(5, &plain_body, &form) {
                    if let Some(Ok(Packet::SecretKey(mut ko))) = PacketParser::new(&wire[..]).next() {
                        if ko.set_password_with_s2k(&pw, s2k.clone()).is_ok() {
                            packet_checks(ctx, &Packet::SecretKey(ko.clone()), None, &format!("api-locked-oldfmt-{si}"), &replay);
                            if ko.remove_password(&pw).is_ok() {
                                packet_checks(ctx, &Packet::SecretKey(ko.clone()), None, "api-unlocked-again-oldfmt", &replay);
                            }
                        }
                    }
                }
            }
            for sub in key.secret_subkeys.iter() {
                let Ok(plain_body) = sub.key.to_bytes() else { continue };
                let form = if plain_body.len() < 256 { LenForm::Old1 } else { LenForm::Old2 };
                let Some(wire) = frame(7, &plain_body, &form) else { continue };
                if let Some(Ok(Packet::SecretSubkey(mut ko))) = PacketParser::new(&wire[..]).next() {
                    if ko.set_password_with_s2k(&pw, s2k.clone()).is_ok() {
                        packet_checks(ctx, &Packet::SecretSubkey(ko.clone()), None, &format!("api-locked-oldfmt-sub-{si}"), &replay);
                        if ko.remove_password(&pw).is_ok() {
                            packet_checks(ctx, &Packet::SecretSubkey(ko.clone()), None, "api-unlocked-again-oldfmt-sub", &replay);
                        }
                    }
                }
            }
            // unlock again
            let mut k4 = k2.clone();
            if k4.primary_key.remove_password(&pw).is_ok() {
                packet_checks(ctx, &Packet::SecretKey(k4.primary_key.clone()), None, "api-unlocked-again", &replay);
                if k4.primary_key.to_bytes().ok() != key.primary_key.to_bytes().ok() {
                    ctx.violation("C05/lock-unlock-changes-bytes", name.to_string(), replay.clone());
                }
            }
        }
        // subpacket values built and modified through the API: the length a value announces is the length it
        // writes, and the signature that carries it serialises truthfully and parses back to the same value
        if !slow && ki % 2 == 0 {
            use pgp::packet::{Features, KeyFlags, SignatureConfig, SignatureType, Subpacket, SubpacketData};
            let setters: [(&str, fn(&mut KeyFlags)); 9] = [
                ("certify", |f| f.set_certify(true)),
                ("sign", |f| f.set_sign(true)),
                ("encrypt_comms", |f| f.set_encrypt_comms(true)),
                ("encrypt_storage", |f| f.set_encrypt_storage(true)),
                ("shared", |f| f.set_shared(true)),
                ("authentication", |f| f.set_authentication(true)),
                ("group", |f| f.set_group(true)),
                ("adsk", |f| f.set_adsk(true)),
                ("timestamping", |f| f.set_timestamping(true)),
            ];
            // starting values: default, parsed from 1 / 2 / 3 octets
            let starts: Vec<(&str, KeyFlags)> = {
                let mut v = vec![("default", KeyFlags::default())];
                for (n, raw) in [("1-octet", &[0x03u8][..]), ("2-octet", &[0x03, 0x04][..]), ("3-octet", &[0x01, 0x00, 0x80][..]), ("0-octet", &[][..])] {
                    if let Ok(k) = KeyFlags::try_from_reader(raw) {
                        v.push((n, k));
                    }
                }
                v
            };
            for (sname, start) in &starts {
                for mask in 0u32..(1 << setters.len()) {
                    // all single setters, all pairs, and a sample of the rest
                    if mask.count_ones() > 2 && mask % 37 != 5 {
                        continue;
                    }
                    let mut kf = start.clone();
                    let mut names = vec![];
                    for (bi, (n, f)) in setters.iter().enumerate() {
                        if mask & (1 << bi) != 0 {
                            f(&mut kf);
                            names.push(*n);
                        }
                    }
                    let mut w = vec![];
                    let _ = kf.to_writer(&mut w);
                    ctx.eval();
                    if kf.write_len() != w.len() {
                        ctx.violation(
                            "C05/subpacket-value/write_len-mismatch/key-flags",
                            format!("KeyFlags ({sname}, then set {names:?}): write_len() = {} but {} octets are written", kf.write_len(), w.len()),
                            json!({"start": sname, "setters": names}),
                        );
                        continue;
                    }
                    if mask.count_ones() <= 1 || mask % 37 == 5 {
                        // inside a signature
                        let mut c = SignatureConfig::from_key(&mut rng, &key.primary_key, SignatureType::Key).expect("config");
                        c.hashed_subpackets = vec![
                            Subpacket::regular(SubpacketData::SignatureCreationTime(pgp::types::Timestamp::from_secs(1_700_000_000))).unwrap(),
                            Subpacket::regular(SubpacketData::IssuerFingerprint(key.primary_key.fingerprint())).unwrap(),
                            Subpacket::regular(SubpacketData::KeyFlags(kf.clone())).unwrap(),
                        ];
                        if let Ok(sig) = c.sign_key(&key.primary_key, &Password::empty(), key.primary_key.public_key()) {
                            ctx.cover(&("api-keyflags", sname, mask));
                            packet_checks(ctx, &Packet::Signature(sig.clone()), None, "api-sig-keyflags-set", &json!({"family": "A", "key": name, "start": sname, "setters": names}));
                            let kf2 = sig.key_flags();
                            let mut w2 = vec![];
                            let _ = kf2.to_writer(&mut w2);
                            if w2 != w {
                                ctx.violation("C05/subpacket-value/reparse-differs/key-flags", format!("KeyFlags ({sname}, set {names:?}) written {} read back {}", hexs(&w), hexs(&w2)), json!({"start": sname, "setters": names}));
                            }
                        }
                    }
                }
            }
            // Features
            for mask in 0u8..4 {
                let mut f = Features::default();
                if mask & 1 != 0 {
                    f.set_seipd_v1(true);
                }
                if mask & 2 != 0 {
                    f.set_seipd_v2(true);
                }
                let mut w = vec![];
                let _ = f.to_writer(&mut w);
                ctx.eval();
                if f.write_len() != w.len() {
                    ctx.violation("C05/subpacket-value/write_len-mismatch/features", format!("Features mask {mask}: write_len {} written {}", f.write_len(), w.len()), json!({"mask": mask}));
                }
            }
        }
        // signature unhashed area mutation
        if !slow {
            if let Ok(ds) = DetachedSignature::sign_binary_data(&mut rng, &key.primary_key, &Password::empty(), HashAlgorithm::Sha256, &b"data"[..]) {
                let mut sig = ds.signature.clone();
                let extra = [0usize, 1, 150, 190, 200, 16400];
                for (n, e) in extra.iter().enumerate() {
                    let sp = Subpacket::regular(SubpacketData::Notation(pgp::packet::Notation { readable: true, name: "n@e".into(), value: vec![b'x'; *e].into() })).unwrap();
                    let r = if n % 2 == 0 { sig.unhashed_subpacket_push(sp) } else { sig.unhashed_subpacket_insert(0, sp) };
                    if r.is_err() {
                        continue;
                    }
                    packet_checks(ctx, &Packet::Signature(sig.clone()), None, "api-sig-unhashed-mutated", &replay);
                    let mut w = vec![];
                    let _ = sig.to_writer_with_header(&mut w);
                    ctx.eval();
                    if sig.write_len_with_header() != w.len() {
                        ctx.violation("C05/write_len_with_header-mismatch/mutated-signature", format!("announced {} written {}", sig.write_len_with_header(), w.len()), replay.clone());
                    }
                }
                while sig.unhashed_subpacket_remove(0).is_ok() {
                    packet_checks(ctx, &Packet::Signature(sig.clone()), None, "api-sig-unhashed-removed", &replay);
                }
                composite_len(ctx, "DetachedSignature", &ds, &replay);
            }
        }
        // message builder output: every packet re-serialises identically
        if !slow {
            let mut b = MessageBuilder::from_bytes("name", vec![7u8; 300]).seipd_v1(&mut rng, SymmetricKeyAlgorithm::AES128);
            if let Some(sub) = publ.public_subkeys.first() {
                let _ = b.encrypt_to_key(&mut rng, &sub.key);
            }
            let _ = b.encrypt_with_password(StringToKey::new_iterated(&mut rng, HashAlgorithm::Sha256, 2), &"pw".into());
            if let Ok(bytes) = b.to_vec(&mut rng) {
                if let Ok(raw) = deframe(&bytes) {
                    for rp in raw {
                        let w = &bytes[rp.offset..rp.offset + rp.encoded_len];
                        if let Some(Ok(p)) = PacketParser::new(w).next() {
                            packet_checks(ctx, &p, Some((w, rp.partial_chunks.is_empty(), &rp.body)), "api-message-packet", &replay);
                        }
                    }
                }
            }
        }
    }

    // ---------------------------------------------------------------------------------
    // Family F: fixtures of the repository
    let mut files = vec![];
    collect(std::path::Path::new("/repo/tests"), &mut files, 0);
    files.sort();
    for f in files.iter() {
        if !ctx.mine() {
            continue;
        }
        let Ok(data) = std::fs::read(f) else { continue };
        if data.len() > 400_000 {
            continue;
        }
        describe_case(&format!("fixture:{}", f.display()));
        let replay = json!({"family": "F", "file": f.display().to_string()});
        let bin: Vec<u8> = if data.windows(10).take(400).any(|w| w == b"-----BEGIN") {
            let mut d = pgp::armor::Dearmor::new(std::io::BufReader::new(&data[..]));
            let mut out = vec![];
            match ctx.guarded("C05/F/dearmor", || replay.clone(), || d.read_to_end(&mut out).is_ok()) {
                Some(true) => out,
                _ => continue,
            }
        } else {
            data
        };
        let Ok(raw) = deframe(&bin) else { continue };
        for rp in raw.iter().take(60) {
            if rp.indeterminate || !rp.partial_chunks.is_empty() {
                continue;
            }
            let w = &bin[rp.offset..rp.offset + rp.encoded_len];
            let parsed = ctx.guarded("C05/F/parse", || replay.clone(), || PacketParser::new(w).next());
            if let Some(Some(Ok(p))) = parsed {
                ctx.cover(&("F", f, rp.offset));
                // fixtures are not known to be canonical: value round trip only
                packet_checks(ctx, &p, Some((w, false, &rp.body)), "fixture", &json!({"base": replay, "offset": rp.offset}));
            }
        }
    }
}

fn collect(dir: &std::path::Path, out: &mut Vec<std::path::PathBuf>, depth: usize) {
    if depth > 6 || out.len() > 1200 {
        return;
    }
    let Ok(rd) = std::fs::read_dir(dir) else { return };
    let mut entries: Vec<_> = rd.flatten().map(|e| e.path()).collect();
    entries.sort();
    for p in entries {
        if p.is_dir() {
            collect(&p, out, depth + 1);
        } else if let Some(ext) = p.extension().and_then(|e| e.to_str()) {
            if matches!(ext, "asc" | "key" | "pub" | "sec" | "gpg" | "pgp" | "cert" | "tsk" | "msg" | "sig") {
                out.push(p);
            }
        }
    }
}
