//! C19 — work and memory are bounded by the input actually supplied.
//!
//! Oracles (all at the public API boundary, observed with the counting global allocator and the
//! per-thread CPU clock):
//!  W1  declared-vs-present: every length-like field set to a huge value over a tiny body; peak
//!      allocation must stay below C0 + K*|input| (+ the documented AEAD chunk buffer / bzip2 block
//!      state where such a container is opened) and no single allocation may follow the declared
//!      length.
//!  W2  repeated structures: CPU time at n,2n,4n,8n, fitted exponent < 1.7 (confirmed twice, and only
//!      decisive when the largest run took >= 0.2 s); peak memory linear in the input.
//!  W3  streaming: peak(64 MiB) <= peak(16 MiB) + 1 MiB for builder and reader, every container kind;
//!      SEIPDv1 CheckFirst refuses messages over its limit and stays below 2*L + C0.
//!  W4  KDF ceilings: every Argon2 parameter set over the documented ceiling (t>32, p>32, m>2^21 KiB)
//!      or malformed is refused quickly without allocating; iterated S2K hashes the RFC octet count
//!      for all 256 coded counts in time linear in the count.
//!
//! Everything the monitor needs lives in this file.

use std::io::{BufReader, Read, Write};

use pgp::armor::Dearmor;
use pgp::composed::{
    ArmorOptions, CleartextSignedMessage, DecryptionOptions, Deserializable, DetachedSignature, Edata, Message,
    MessageBuilder, PlainSessionKey, SignedPublicKey, SignedSecretKey, TheRing, VerificationResult,
};
use pgp::crypto::aead::{AeadAlgorithm, ChunkSize};
use pgp::crypto::hash::HashAlgorithm;
use pgp::crypto::sym::SymmetricKeyAlgorithm;
use pgp::packet::{DataMode, Packet, PacketParser, PacketTrait, ProtectedDataConfig, SymEncryptedProtectedDataConfig};
use pgp::ser::Serialize;
use pgp::types::{CompressionAlgorithm, Password, Seipdv1ReadMode, StringToKey, VerifyingKey};
use rand::{Rng, SeedableRng};
use rand_chacha::ChaCha8Rng;
use serde_json::json;

use crate::core::{describe_case, hexs, thread_cpu_s, Ctx};
use crate::rfc;
use crate::rfc::frame::{frame, LenForm};
use crate::shim::{measure_alloc, AllocStats};
use crate::zoo;

// ------------------------------------------------------------------------------------------
// constants of the oracles (calibrated on the unchanged tree; see the notes in `run`)

/// parsers: peak <= W1_C0 + W1_K * |input|
const W1_C0: u64 = 256 * 1024;
const W1_K: u64 = 16;
/// bzip2 decoder state for the largest block size (900k): a bounded format parameter
const BZIP2_ALLOW: u64 = 8 * 1024 * 1024;
const KIB: u64 = 1024;
const MIB: u64 = 1024 * 1024;

fn dbg_on() -> bool {
    std::env::var_os("C19_DEBUG").is_some()
}

macro_rules! dbg_line {
    ($($a:tt)*) => { if dbg_on() { eprintln!($($a)*); } };
}

// ------------------------------------------------------------------------------------------
// small wire helpers (written from RFC 9580 section 4.2; independent of `pgp`)

fn be16(v: u16) -> [u8; 2] {
    v.to_be_bytes()
}
fn be32(v: u32) -> [u8; 4] {
    v.to_be_bytes()
}

/// new-format header with a 5-octet length that declares `declared` octets
fn hdr_new5(tag: u8, declared: u32) -> Vec<u8> {
    let mut o = vec![0xC0 | tag, 0xFF];
    o.extend_from_slice(&be32(declared));
    o
}
/// old-format header, 4-octet length
fn hdr_old4(tag: u8, declared: u32) -> Vec<u8> {
    let mut o = vec![0x80 | (tag << 2) | 2];
    o.extend_from_slice(&be32(declared));
    o
}
fn hdr_old2(tag: u8, declared: u16) -> Vec<u8> {
    let mut o = vec![0x80 | (tag << 2) | 1];
    o.extend_from_slice(&be16(declared));
    o
}
/// packet with the true length, minimal new-format encoding
fn pkt(tag: u8, body: &[u8]) -> Vec<u8> {
    frame(tag, body, &LenForm::NewMin).expect("frame")
}
fn mpi_declared(bits: u16, real: &[u8]) -> Vec<u8> {
    let mut o = be16(bits).to_vec();
    o.extend_from_slice(real);
    o
}
/// literal data packet (binary, empty name, time 0)
fn literal(body: &[u8]) -> Vec<u8> {
    let mut b = vec![b'b', 0, 0, 0, 0, 0];
    b.extend_from_slice(body);
    pkt(11, &b)
}

/// Tolerant packet walker used only to find documented buffer parameters in an input that the
/// harness itself crafted: returns the largest AEAD chunk buffer (2*(chunk+32)) announced by a SEIPDv2
/// (tag 18, version 2) or GnuPG-AEAD (tag 20) packet, and whether a bzip2 container is present.
fn documented_buffers(mut d: &[u8]) -> (u64, bool) {
    let mut aead = 0u64;
    let mut bz = false;
    let mut guard = 0;
    while d.len() >= 2 && guard < 4096 {
        guard += 1;
        let h = d[0];
        if h & 0x80 == 0 {
            break;
        }
        let (tag, hl, len): (u8, usize, Option<usize>) = if h & 0x40 != 0 {
            let tag = h & 0x3F;
            match d[1] {
                0..=191 => (tag, 2, Some(d[1] as usize)),
                192..=223 => {
                    if d.len() < 3 {
                        break;
                    }
                    (tag, 3, Some(((d[1] as usize - 192) << 8) + d[2] as usize + 192))
                }
                255 => {
                    if d.len() < 6 {
                        break;
                    }
                    (tag, 6, Some(u32::from_be_bytes([d[2], d[3], d[4], d[5]]) as usize))
                }
                _ => (tag, 2, None), // partial: treat the rest as body
            }
        } else {
            let tag = (h >> 2) & 0x0F;
            match h & 3 {
                0 => (tag, 2, Some(d[1] as usize)),
                1 => {
                    if d.len() < 3 {
                        break;
                    }
                    (tag, 3, Some(u16::from_be_bytes([d[1], d[2]]) as usize))
                }
                2 => {
                    if d.len() < 5 {
                        break;
                    }
                    (tag, 5, Some(u32::from_be_bytes([d[1], d[2], d[3], d[4]]) as usize))
                }
                _ => (tag, 1, None),
            }
        };
        let body_all = &d[hl.min(d.len())..];
        let blen = len.unwrap_or(body_all.len()).min(body_all.len());
        let body = &body_all[..blen];
        match tag {
            18 if body.len() >= 4 && body[0] == 2 => {
                if body[3] <= 16 {
                    aead = aead.max(2 * ((1u64 << (body[3] as u32 + 6)) + 32));
                }
            }
            20 if body.len() >= 4 => {
                if body[3] <= 16 {
                    aead = aead.max(2 * ((1u64 << (body[3] as u32 + 6)) + 32));
                }
            }
            8 if !body.is_empty() && body[0] == 3 => bz = true,
            8 if !body.is_empty() && body[0] == 0 => {
                // stored container: look inside
                let (a, b) = documented_buffers(&body[1..]);
                aead = aead.max(a);
                bz |= b;
            }
            _ => {}
        }
        d = &body_all[blen..];
    }
    (aead, bz)
}

// ------------------------------------------------------------------------------------------
// entry points

#[derive(Clone, Copy, Debug, PartialEq, Eq, Hash)]
enum Entry {
    Packets,
    Message,
    PublicKey,
    SecretKey,
    DetachedSig,
    Dearmor,
    ArmoredMessage,
    ArmoredKey,
    Cleartext,
}

impl Entry {
    const BINARY: [Entry; 5] =
        [Entry::Packets, Entry::Message, Entry::PublicKey, Entry::SecretKey, Entry::DetachedSig];
    const ARMORED: [Entry; 4] =
        [Entry::Dearmor, Entry::ArmoredMessage, Entry::ArmoredKey, Entry::Cleartext];
    fn name(&self) -> &'static str {
        match self {
            Entry::Packets => "PacketParser",
            Entry::Message => "Message::from_bytes",
            Entry::PublicKey => "SignedPublicKey::from_bytes",
            Entry::SecretKey => "SignedSecretKey::from_bytes",
            Entry::DetachedSig => "DetachedSignature::from_bytes",
            Entry::Dearmor => "Dearmor",
            Entry::ArmoredMessage => "Message::from_armor",
            Entry::ArmoredKey => "SignedPublicKey::from_armor_single",
            Entry::Cleartext => "CleartextSignedMessage::from_armor",
        }
    }
}

/// fixed secrets the crafted inputs may be opened with
fn zero_key_v4() -> PlainSessionKey {
    PlainSessionKey::V3_4 { sym_alg: SymmetricKeyAlgorithm::AES128, key: vec![0u8; 16].into() }
}
fn zero_key_v6() -> PlainSessionKey {
    PlainSessionKey::V6 { key: vec![0u8; 16].into() }
}

/// Drives a parsed message the way a defensive application would: open containers (up to `depth`
/// levels), stream the content in 64 KiB reads, never collect it. `scratch` is allocated by the
/// caller outside the measured region. Returns number of bytes released.
fn drive_message<'a>(mut m: Message<'a>, scratch: &mut [u8], depth: usize, read_cap: u64) -> u64 {
    let pw = Password::from("pw");
    for _ in 0..depth {
        if m.is_compressed() {
            match m.decompress() {
                Ok(n) => m = n,
                Err(_) => return 0,
            }
        } else if m.is_encrypted() {
            // a bare container is opened with the fixed all-zero session key of the matching
            // generation; with ESK packets in front the password route is taken (S2K + unwrap)
            let (has_esk, key) = match &m {
                Message::Encrypted { esk, edata, .. } => {
                    let key = match edata {
                        Edata::SymEncryptedProtectedData { reader } => match reader.config() {
                            ProtectedDataConfig::Seipd(SymEncryptedProtectedDataConfig::V2 { .. }) => zero_key_v6(),
                            _ => zero_key_v4(),
                        },
                        Edata::GnupgAeadData { .. } => PlainSessionKey::V5 { key: vec![0u8; 16].into() },
                        Edata::SymEncryptedData { .. } => zero_key_v4(),
                    };
                    (!esk.is_empty(), key)
                }
                _ => unreachable!(),
            };
            let ring = TheRing {
                message_password: if has_esk { vec![&pw] } else { vec![] },
                session_keys: if has_esk { vec![] } else { vec![key] },
                decrypt_options: DecryptionOptions::new().enable_legacy().enable_gnupg_aead(),
                ..Default::default()
            };
            match m.decrypt_the_ring(ring, true) {
                Ok((n, _)) => m = n,
                Err(_) => return 0,
            }
        } else {
            break;
        }
    }
    let mut total = 0u64;
    loop {
        match m.read(scratch) {
            Ok(0) => break,
            Ok(n) => {
                total += n as u64;
                if total >= read_cap {
                    break;
                }
            }
            Err(_) => break,
        }
    }
    total
}

/// Runs one entry point over `data` (binary entries) or `armored` (armored entries).
/// Everything allocated here is attributed to the library (the harness allocates nothing but the
/// results it drops immediately).
fn run_entry(e: Entry, data: &[u8], scratch: &mut [u8]) -> bool {
    match e {
        Entry::Packets => {
            let mut ok = false;
            for (i, p) in PacketParser::new(data).enumerate() {
                ok |= p.is_ok();
                if i >= 4096 {
                    break;
                }
            }
            ok
        }
        Entry::Message => match Message::from_bytes(data) {
            Ok(m) => {
                drive_message(m, scratch, 4, 4 * MIB);
                true
            }
            Err(_) => false,
        },
        Entry::PublicKey => SignedPublicKey::from_bytes(data).is_ok(),
        Entry::SecretKey => SignedSecretKey::from_bytes(data).is_ok(),
        Entry::DetachedSig => DetachedSignature::from_bytes(data).is_ok(),
        Entry::Dearmor => {
            let mut d = Dearmor::new(BufReader::new(data));
            let mut n = 0u64;
            loop {
                match d.read(scratch) {
                    Ok(0) => break,
                    Ok(k) => n += k as u64,
                    Err(_) => break,
                }
            }
            n > 0
        }
        Entry::ArmoredMessage => match Message::from_armor(BufReader::new(data)) {
            Ok((m, _)) => {
                drive_message(m, scratch, 4, 4 * MIB);
                true
            }
            Err(_) => false,
        },
        Entry::ArmoredKey => SignedPublicKey::from_armor_single(data).is_ok(),
        Entry::Cleartext => CleartextSignedMessage::from_armor(data).is_ok(),
    }
}

struct Obs {
    st: AllocStats,
    cpu: f64,
    ok: bool,
    panicked: Option<String>,
}

fn observe(e: Entry, data: &[u8], scratch: &mut [u8]) -> Obs {
    let t0 = thread_cpu_s();
    let (r, st) = measure_alloc(|| crate::core::guard(|| run_entry(e, data, scratch)));
    let cpu = thread_cpu_s() - t0;
    match r {
        Ok(ok) => Obs { st, cpu, ok, panicked: None },
        Err(p) => Obs { st, cpu, ok: false, panicked: Some(p.short_loc()) },
    }
}

// ------------------------------------------------------------------------------------------
// W1: declared-vs-present

struct W1Case {
    ptype: &'static str,
    field: &'static str,
    declared: u64,
    /// real bytes following the length field
    tail: usize,
    data: Vec<u8>,
}

const D4: [u32; 4] = [1 << 16, 1 << 24, 1 << 31, u32::MAX];
const TAILS: [usize; 5] = [0, 1, 7, 33, 64];

/// seed-dependent salt of the filler octets and of the extra tail length (set once in `run`)
static FILL_SALT: std::sync::atomic::AtomicU64 = std::sync::atomic::AtomicU64::new(0);

fn filler(n: usize) -> Vec<u8> {
    let salt = FILL_SALT.load(std::sync::atomic::Ordering::Relaxed);
    (0..n).map(|i| ((i as u64).wrapping_mul(37).wrapping_add(1).wrapping_add(salt.wrapping_mul(i as u64 + 7) >> 11)) as u8).collect()
}

/// the fixed tails plus one seed-dependent tail in 2..64
fn tails() -> Vec<usize> {
    let salt = FILL_SALT.load(std::sync::atomic::Ordering::Relaxed);
    let mut t = TAILS.to_vec();
    t.push(2 + (salt % 61) as usize);
    t
}

/// subpacket length octets in the 1/2/5-octet forms (RFC 9580 5.2.3.7)
fn subpkt_len(form: u8, len: u32) -> Vec<u8> {
    match form {
        1 => vec![len.min(191) as u8],
        2 => {
            let v = len.clamp(192, 16319) - 192;
            vec![(v >> 8) as u8 + 192, v as u8]
        }
        _ => {
            let mut o = vec![255u8];
            o.extend_from_slice(&be32(len));
            o
        }
    }
}

/// v4 signature body up to and including the hashed area; caller appends the rest
fn sig4_prefix(pk_alg: u8, hashed: &[u8], hashed_declared: Option<u16>) -> Vec<u8> {
    let mut b = vec![4, 0x00, pk_alg, 8];
    b.extend_from_slice(&be16(hashed_declared.unwrap_or(hashed.len() as u16)));
    b.extend_from_slice(hashed);
    b
}
fn sig6_prefix(pk_alg: u8, hashed: &[u8], hashed_declared: Option<u32>) -> Vec<u8> {
    let mut b = vec![6, 0x00, pk_alg, 8];
    b.extend_from_slice(&be32(hashed_declared.unwrap_or(hashed.len() as u32)));
    b.extend_from_slice(hashed);
    b
}
fn creation_subpkt() -> Vec<u8> {
    vec![5, 2, 0x65, 0x53, 0xF1, 0x00]
}

/// A complete, well-formed v4 EdDSA-legacy signature body (not cryptographically valid)
fn sig4_complete() -> Vec<u8> {
    let mut b = sig4_prefix(22, &creation_subpkt(), None);
    b.extend_from_slice(&be16(0)); // unhashed
    b.extend_from_slice(&[0xAB, 0xCD]);
    b.extend(mpi_declared(256, &[0x80; 32]));
    b.extend(mpi_declared(256, &[0x80; 32]));
    b
}

fn v4_pubkey_ed25519_legacy() -> Vec<u8> {
    let mut b = vec![4, 0x65, 0x53, 0xF1, 0x00, 22];
    b.push(9);
    b.extend_from_slice(&[0x2B, 0x06, 0x01, 0x04, 0x01, 0xDA, 0x47, 0x0F, 0x01]);
    let mut q = vec![0x40];
    q.extend_from_slice(&[0x11; 32]);
    b.extend(mpi_declared(263, &q));
    b
}
fn v6_pubkey_ed25519() -> Vec<u8> {
    let mut b = vec![6, 0x65, 0x53, 0xF1, 0x00, 27];
    b.extend_from_slice(&be32(32));
    b.extend_from_slice(&[0x11; 32]);
    b
}
fn v4_pubkey_rsa() -> Vec<u8> {
    let mut b = vec![4, 0x65, 0x53, 0xF1, 0x00, 1];
    let mut n = vec![0xC1u8; 256];
    n[255] |= 1;
    b.extend(mpi_declared(2048, &n));
    b.extend(mpi_declared(17, &[1, 0, 1]));
    b
}

fn w1_cases() -> Vec<W1Case> {
    let mut v: Vec<W1Case> = vec![];
    let mut add = |ptype: &'static str, field: &'static str, declared: u64, tail: usize, data: Vec<u8>| {
        v.push(W1Case { ptype, field, declared, tail, data });
    };

    // bodies that are plausible beginnings for each tag (so the declared length is the only lie)
    let sig_body = sig4_complete();
    let key4 = v4_pubkey_ed25519_legacy();
    let key6 = v6_pubkey_ed25519();
    let lit_body: Vec<u8> = {
        let mut b = vec![b'b', 0, 0, 0, 0, 0];
        b.extend(filler(64));
        b
    };
    let ops_body = vec![3u8, 0, 8, 22, 1, 2, 3, 4, 5, 6, 7, 8, 1];
    let skesk4 = vec![4u8, 7, 0, 8];
    let pkesk3 = {
        let mut b = vec![3u8, 1, 2, 3, 4, 5, 6, 7, 8, 1];
        b.extend(mpi_declared(2048, &[0x55; 256]));
        b
    };
    let seipd1 = {
        let mut b = vec![1u8];
        b.extend(filler(64));
        b
    };
    let seipd2 = {
        let mut b = vec![2u8, 7, 2, 6];
        b.extend_from_slice(&[7u8; 32]);
        b.extend(filler(64));
        b
    };
    let gnupg_aead = {
        let mut b = vec![1u8, 7, 2, 6];
        b.extend_from_slice(&[7u8; 15]);
        b.extend(filler(64));
        b
    };
    let uattr = {
        let mut b = vec![];
        let mut img = vec![1u8, 0x10, 0x00, 1, 1];
        img.extend_from_slice(&[0u8; 12]);
        img.extend(filler(20));
        b.extend(subpkt_len(1, img.len() as u32));
        b.extend(img);
        b
    };
    let plausible: Vec<(u8, &'static str, Vec<u8>)> = vec![
        (1, "pkesk", pkesk3.clone()),
        (2, "signature", sig_body.clone()),
        (3, "skesk", skesk4.clone()),
        (4, "ops", ops_body.clone()),
        (5, "secret-key", {
            let mut b = key4.clone();
            b.push(0);
            b.extend(mpi_declared(255, &[0x7F; 32]));
            b.extend_from_slice(&[0x12, 0x34]);
            b
        }),
        (6, "public-key", key4.clone()),
        (7, "secret-subkey", {
            let mut b = key6.clone();
            b.push(0);
            b.extend_from_slice(&[0x22; 32]);
            b
        }),
        (8, "compressed", {
            let mut b = vec![0u8];
            b.extend(literal(b"hello"));
            b
        }),
        (9, "sed", filler(64)),
        (10, "marker", b"PGP".to_vec()),
        (11, "literal", lit_body.clone()),
        (12, "trust", vec![1, 2, 3]),
        (13, "user-id", b"Alice <alice@example.org>".to_vec()),
        (14, "public-subkey", key6.clone()),
        (17, "user-attribute", uattr.clone()),
        (18, "seipd", seipd1.clone()),
        (18, "seipd-v2", seipd2.clone()),
        (19, "mdc", vec![0x11; 20]),
        (20, "gnupg-aead", gnupg_aead.clone()),
        (21, "padding", filler(32)),
        (22, "unassigned-critical", filler(8)),
        (40, "unassigned-noncritical", filler(8)),
        (60, "private", filler(8)),
    ];

    // ---- packet header lengths, every tag
    for (tag, name, body) in &plausible {
        for d in D4 {
            for t in tails() {
                let t = t.min(body.len());
                let mut p = hdr_new5(*tag, d);
                p.extend_from_slice(&body[..t]);
                add(name, "new-header-len5", d as u64, t, p);
                if *tag < 16 {
                    let mut p = hdr_old4(*tag, d);
                    p.extend_from_slice(&body[..t]);
                    add(name, "old-header-len4", d as u64, t, p);
                }
            }
        }
        if *tag < 16 {
            for t in tails() {
                let t = t.min(body.len());
                let mut p = hdr_old2(*tag, 0xFFFF);
                p.extend_from_slice(&body[..t]);
                add(name, "old-header-len2", 0xFFFF, t, p);
            }
        }
        // two-octet new length at its maximum
        for t in tails() {
            let t = t.min(body.len());
            let mut p = vec![0xC0 | tag, 223, 255];
            p.extend_from_slice(&body[..t]);
            add(name, "new-header-len2", 8383, t, p);
        }
        // partial body length 2^30 (legal only for data packets; must be rejected or bounded otherwise)
        for t in tails() {
            let t = t.min(body.len());
            let mut p = vec![0xC0 | tag, 0xFE];
            p.extend_from_slice(&body[..t]);
            add(name, "partial-first-chunk", 1 << 30, t, p);
        }
        // complete well-formed body followed by a second header that lies
        let mut p = pkt(*tag, body);
        p.extend(hdr_new5(*tag, u32::MAX));
        add(name, "second-header-len5", u32::MAX as u64, 0, p);
    }
    // partial chain: legal first chunk of 512 real octets, then a chunk that declares 2^30
    for (tag, name) in [(11u8, "literal"), (8, "compressed"), (18, "seipd"), (9, "sed"), (20, "gnupg-aead")] {
        let first: Vec<u8> = match tag {
            11 => {
                let mut b = vec![b'b', 0, 0, 0, 0, 0];
                b.extend(filler(506));
                b
            }
            8 => {
                let mut b = vec![0u8];
                b.extend(filler(511));
                b
            }
            18 => {
                let mut b = vec![1u8];
                b.extend(filler(511));
                b
            }
            20 => {
                let mut b = vec![1u8, 7, 2, 6];
                b.extend(filler(508));
                b
            }
            _ => filler(512),
        };
        for t in tails() {
            let mut p = vec![0xC0 | tag, 224 + 9];
            p.extend_from_slice(&first);
            p.push(0xFE);
            p.extend(filler(t));
            add(name, "partial-next-chunk", 1 << 30, t, p);
            let mut p = vec![0xC0 | tag, 224 + 9];
            p.extend_from_slice(&first);
            p.push(0xFF);
            p.extend_from_slice(&be32(u32::MAX));
            p.extend(filler(t));
            add(name, "partial-final-len5", u32::MAX as u64, t, p);
        }
    }

    // ---- signature packets
    for t in tails() {
        // v4 hashed / unhashed area lengths
        let b = sig4_prefix(22, &filler(t), Some(0xFFFF));
        add("signature-v4", "hashed-area-len", 0xFFFF, t, pkt(2, &b));
        let mut b = sig4_prefix(22, &creation_subpkt(), None);
        b.extend_from_slice(&be16(0xFFFF));
        b.extend(filler(t));
        add("signature-v4", "unhashed-area-len", 0xFFFF, t, pkt(2, &b));
        // v6 areas (4 octet)
        for d in D4 {
            let b = sig6_prefix(27, &filler(t), Some(d));
            add("signature-v6", "hashed-area-len", d as u64, t, pkt(2, &b));
            let mut b = sig6_prefix(27, &creation_subpkt(), None);
            b.extend_from_slice(&be32(d));
            b.extend(filler(t));
            add("signature-v6", "unhashed-area-len", d as u64, t, pkt(2, &b));
        }
        // subpacket lengths in the three forms, several subpacket types (opaque, notation, embedded
        // signature, preferred algorithms, unknown)
        for styp in [2u8, 11, 20, 24, 26, 32, 33, 100, 127] {
            for form in [1u8, 2, 5] {
                let decls: Vec<u32> = match form {
                    1 => vec![191],
                    2 => vec![16319],
                    _ => D4.to_vec(),
                };
                for d in decls {
                    let mut area = subpkt_len(form, d);
                    area.push(styp);
                    area.extend(filler(t));
                    // v4: area length truthful
                    let mut b = sig4_prefix(22, &area, None);
                    b.extend_from_slice(&be16(0));
                    b.extend_from_slice(&[0, 0]);
                    b.extend(mpi_declared(256, &[0x80; 32]));
                    b.extend(mpi_declared(256, &[0x80; 32]));
                    let f: &'static str = match form {
                        1 => "subpacket-len1",
                        2 => "subpacket-len2",
                        _ => "subpacket-len5",
                    };
                    add("signature-v4", f, d as u64, t, pkt(2, &b));
                    // v6: area length truthful, and area length lying as well
                    let mut b = sig6_prefix(27, &area, None);
                    b.extend_from_slice(&be32(0));
                    b.extend_from_slice(&[0, 0, 32]);
                    b.extend_from_slice(&[9; 32]);
                    b.extend_from_slice(&[8; 64]);
                    add("signature-v6", f, d as u64, t, pkt(2, &b));
                    let b = sig6_prefix(27, &area, Some(d.saturating_add(6)));
                    add("signature-v6", f, d as u64, t, pkt(2, &b));
                }
            }
        }
        // notation name / value lengths
        for (nl, vl, f) in [(0xFFFFu16, 0u16, "notation-name-len"), (1, 0xFFFF, "notation-value-len"), (0xFFFF, 0xFFFF, "notation-both-len")] {
            let mut sp = vec![0x80u8, 0, 0, 0];
            sp.extend_from_slice(&be16(nl));
            sp.extend_from_slice(&be16(vl));
            sp.extend(filler(t));
            let mut area = subpkt_len(1, sp.len() as u32 + 1);
            area.push(20);
            area.extend(sp);
            let mut b = sig4_prefix(22, &area, None);
            b.extend_from_slice(&be16(0));
            b.extend_from_slice(&[0, 0]);
            b.extend(mpi_declared(256, &[0x80; 32]));
            b.extend(mpi_declared(256, &[0x80; 32]));
            add("signature-v4", f, 0xFFFF, t, pkt(2, &b));
        }
        // MPI bit counts in the signature value (RSA one MPI, DSA/ECDSA/EdDSA two)
        for (alg, f) in [(1u8, "rsa-mpi-bits"), (17, "dsa-mpi-bits"), (19, "ecdsa-mpi-bits"), (22, "eddsa-mpi-bits"), (16, "elgamal-mpi-bits"), (100, "private-mpi-bits")] {
            for bits in [0xFFFFu16, 16384, 16385, 0x8000] {
                let mut b = sig4_prefix(alg, &creation_subpkt(), None);
                b.extend_from_slice(&be16(0));
                b.extend_from_slice(&[0, 0]);
                b.extend(mpi_declared(bits, &filler(t)));
                add("signature-v4", f, bits as u64, t, pkt(2, &b));
            }
        }
        // v6 salt length
        let mut b = sig6_prefix(27, &creation_subpkt(), None);
        b.extend_from_slice(&be32(0));
        b.extend_from_slice(&[0, 0, 255]);
        b.extend(filler(t));
        add("signature-v6", "salt-len", 255, t, pkt(2, &b));
        // v3 signature: hashed-material length octet and MPI
        let mut b = vec![3u8, 5, 0, 0, 0, 0, 0, 1, 2, 3, 4, 5, 6, 7, 8, 1, 8, 0, 0];
        b.extend(mpi_declared(0xFFFF, &filler(t)));
        add("signature-v3", "rsa-mpi-bits", 0xFFFF, t, pkt(2, &b));
        // embedded signature subpacket whose inner areas lie
        let inner = sig6_prefix(27, &filler(t), Some(u32::MAX));
        let mut area = subpkt_len(5, inner.len() as u32 + 1);
        area.push(32);
        area.extend(inner);
        let mut b = sig4_prefix(22, &area, None);
        b.extend_from_slice(&be16(0));
        b.extend_from_slice(&[0, 0]);
        b.extend(mpi_declared(256, &[0x80; 32]));
        b.extend(mpi_declared(256, &[0x80; 32]));
        add("signature-v4", "embedded-sig-hashed-area-len", u32::MAX as u64, t, pkt(2, &b));
        // one-pass signature v6 salt length
        let mut b = vec![6u8, 0, 8, 27, 255];
        b.extend(filler(t));
        add("ops-v6", "salt-len", 255, t, pkt(4, &b));
    }

    // ---- literal data: file-name length
    for t in tails() {
        let mut b = vec![b'b', 255];
        b.extend(filler(t));
        add("literal", "file-name-len", 255, t, pkt(11, &b));
        let mut b = vec![b'u', 255];
        b.extend(filler(t));
        add("literal", "file-name-len", 255, t, pkt(11, &b));
    }

    // ---- key packets
    for (tag, tname) in [(6u8, "public-key"), (14, "public-subkey"), (5, "secret-key"), (7, "secret-subkey")] {
        for t in tails() {
            // v6 key material octet count
            for alg in [27u8, 25, 1, 28, 19, 18, 22, 99] {
                for d in D4 {
                    let mut b = vec![6u8, 0x65, 0x53, 0xF1, 0x00, alg];
                    b.extend_from_slice(&be32(d));
                    b.extend(filler(t));
                    add(tname, "v6-key-material-len", d as u64, t, pkt(tag, &b));
                }
            }
            // v4 MPI bit counts / curve OID length octet
            for alg in [1u8, 16, 17] {
                for bits in [0xFFFFu16, 16384, 16385] {
                    let mut b = vec![4u8, 0x65, 0x53, 0xF1, 0x00, alg];
                    b.extend(mpi_declared(bits, &filler(t)));
                    add(tname, "v4-mpi-bits", bits as u64, t, pkt(tag, &b));
                }
            }
            for alg in [18u8, 19, 22] {
                let mut b = vec![4u8, 0x65, 0x53, 0xF1, 0x00, alg, 255];
                b.extend(filler(t));
                add(tname, "curve-oid-len", 255, t, pkt(tag, &b));
                // known curve, then the point MPI lies
                let mut b = vec![4u8, 0x65, 0x53, 0xF1, 0x00, alg, 8, 0x2A, 0x86, 0x48, 0xCE, 0x3D, 0x03, 0x01, 0x07];
                b.extend(mpi_declared(0xFFFF, &filler(t)));
                add(tname, "ec-point-mpi-bits", 0xFFFF, t, pkt(tag, &b));
            }
            // ECDH kdf parameter length octet
            let mut b = vec![4u8, 0x65, 0x53, 0xF1, 0x00, 18, 8, 0x2A, 0x86, 0x48, 0xCE, 0x3D, 0x03, 0x01, 0x07];
            let mut q = vec![4u8];
            q.extend_from_slice(&[0x33; 64]);
            b.extend(mpi_declared(515, &q));
            b.push(255);
            b.extend(filler(t));
            add(tname, "ecdh-kdf-len", 255, t, pkt(tag, &b));
            // v3 key
            let mut b = vec![3u8, 0x65, 0x53, 0xF1, 0x00, 0, 1, 1];
            b.extend(mpi_declared(0xFFFF, &filler(t)));
            add(tname, "v3-mpi-bits", 0xFFFF, t, pkt(tag, &b));
        }
    }
    // secret key specific fields (after a well-formed public part)
    for (tag, tname) in [(5u8, "secret-key"), (7, "secret-subkey")] {
        for t in tails() {
            for (pubpart, ver) in [(v4_pubkey_ed25519_legacy(), 4u8), (v6_pubkey_ed25519(), 6), (v4_pubkey_rsa(), 4)] {
                // unprotected: secret MPI lies
                let mut b = pubpart.clone();
                b.push(0);
                b.extend(mpi_declared(0xFFFF, &filler(t)));
                add(tname, "secret-mpi-bits", 0xFFFF, t, pkt(tag, &b));
                for usage in [253u8, 254, 255] {
                    // s2k parameter length octets (v6) / specifier with unknown type (rest())
                    let mut b = pubpart.clone();
                    b.push(usage);
                    if ver == 6 {
                        b.push(255); // cumulative s2k parameter length
                    }
                    b.push(9);
                    if usage == 253 {
                        b.push(2);
                    }
                    if ver == 6 && usage != 255 {
                        b.push(255); // s2k specifier length
                    }
                    let s2k_start = b.len();
                    for styp in [3u8, 4, 2, 101, 200] {
                        let mut c = b[..s2k_start].to_vec();
                        c.push(styp);
                        c.extend(filler(t));
                        add(tname, "s2k-len", 255, t, pkt(tag, &c));
                    }
                }
                // legacy cfb with cipher octet: iv shorter than block
                let mut b = pubpart.clone();
                b.push(9);
                b.extend(filler(t.min(15)));
                add(tname, "legacy-iv", 16, t.min(15), pkt(tag, &b));
            }
        }
    }

    // ---- user attribute subpacket lengths
    for t in tails() {
        for form in [1u8, 2, 5] {
            let decls: Vec<u32> = match form {
                1 => vec![191],
                2 => vec![16319],
                _ => D4.to_vec(),
            };
            for d in decls {
                for styp in [1u8, 2, 100] {
                    let mut b = subpkt_len(form, d);
                    b.push(styp);
                    if styp == 1 {
                        // image header: little-endian header length, version, format
                        let hdr = [0x10u8, 0x00, 1, 1, 0, 0, 0, 0, 0, 0, 0, 0, 0, 0, 0, 0];
                        b.extend_from_slice(&hdr[..t.min(16)]);
                        b.extend(filler(t.saturating_sub(16)));
                    } else {
                        b.extend(filler(t));
                    }
                    let f: &'static str = match form {
                        1 => "subpacket-len1",
                        2 => "subpacket-len2",
                        _ => "subpacket-len5",
                    };
                    add("user-attribute", f, d as u64, t, pkt(17, &b));
                }
            }
        }
        // image header length field (little endian u16)
        let mut sp = vec![1u8, 0xFF, 0xFF, 1, 1];
        sp.extend(filler(t));
        let mut b = subpkt_len(1, sp.len() as u32);
        b.extend(sp);
        add("user-attribute", "image-header-len", 0xFFFF, t, pkt(17, &b));
    }

    // ---- PKESK
    for t in tails() {
        for alg in [1u8, 2, 16] {
            for bits in [0xFFFFu16, 16384] {
                let mut b = vec![3u8, 1, 2, 3, 4, 5, 6, 7, 8, alg];
                b.extend(mpi_declared(bits, &filler(t)));
                add("pkesk-v3", "mpi-bits", bits as u64, t, pkt(1, &b));
            }
        }
        // ECDH: point MPI then 1-octet length
        let mut b = vec![3u8, 1, 2, 3, 4, 5, 6, 7, 8, 18];
        let mut q = vec![0x40u8];
        q.extend_from_slice(&[0x33; 32]);
        b.extend(mpi_declared(263, &q));
        b.push(255);
        b.extend(filler(t));
        add("pkesk-v3", "ecdh-wrapped-len", 255, t, pkt(1, &b));
        // X25519 / X448: ephemeral, then 1-octet length
        for (alg, eph) in [(25u8, 32usize), (26, 56)] {
            let mut b = vec![3u8, 1, 2, 3, 4, 5, 6, 7, 8, alg];
            b.extend(vec![0x44u8; eph]);
            b.push(255);
            b.extend(filler(t));
            add("pkesk-v3", "x-wrapped-len", 255, t, pkt(1, &b));
            let mut b = vec![6u8, 33, 6];
            b.extend_from_slice(&[0x55; 32]);
            b.push(alg);
            b.extend(vec![0x44u8; eph]);
            b.push(255);
            b.extend(filler(t));
            add("pkesk-v6", "x-wrapped-len", 255, t, pkt(1, &b));
        }
        // v6 key-version/fingerprint length octet
        let mut b = vec![6u8, 255];
        b.extend(filler(t));
        add("pkesk-v6", "fingerprint-len", 255, t, pkt(1, &b));
    }

    // ---- SKESK
    for t in tails() {
        for styp in [0u8, 1, 3, 4, 2, 101, 200] {
            let mut b = vec![4u8, 9, styp];
            b.extend(filler(t));
            add("skesk-v4", "s2k", 0, t, pkt(3, &b));
        }
        let mut b = vec![6u8, 255, 9, 2, 255];
        b.extend(filler(t));
        add("skesk-v6", "count+s2k-len", 255, t, pkt(3, &b));
        let mut b = vec![5u8, 9, 2, 3, 8];
        b.extend(filler(t));
        add("skesk-v5", "s2k", 0, t, pkt(3, &b));
    }

    // ---- containers: compressed (every algorithm) with header lengths that lie, encrypted containers
    for t in tails() {
        for alg in [0u8, 1, 2, 3, 99] {
            for d in D4 {
                let mut p = hdr_new5(8, d);
                p.push(alg);
                let inner: Vec<u8> = match alg {
                    1 => {
                        use flate2::write::DeflateEncoder;
                        let mut e = DeflateEncoder::new(vec![], flate2::Compression::default());
                        e.write_all(&literal(b"hi")).unwrap();
                        e.finish().unwrap()
                    }
                    2 => {
                        use flate2::write::ZlibEncoder;
                        let mut e = ZlibEncoder::new(vec![], flate2::Compression::default());
                        e.write_all(&literal(b"hi")).unwrap();
                        e.finish().unwrap()
                    }
                    3 => b"BZh91AY&SY".to_vec(),
                    _ => literal(b"hi"),
                };
                p.extend_from_slice(&inner[..t.min(inner.len())]);
                add("compressed", "container-len", d as u64, t.min(inner.len()), p);
            }
        }
        // stored container whose inner literal lies about its length
        let mut inner = hdr_new5(11, u32::MAX);
        inner.extend_from_slice(&[b'b', 0, 0, 0, 0, 0]);
        inner.extend(filler(t));
        let mut b = vec![0u8];
        b.extend(inner);
        add("compressed", "inner-literal-len", u32::MAX as u64, t, pkt(8, &b));
    }
    // SEIPDv2 / GnuPG AEAD: every chunk size octet, opened with a session key (documented buffer)
    for c in 0u16..=255 {
        let c = c as u8;
        let mut b = vec![2u8, 7, 2, c];
        b.extend_from_slice(&[7u8; 32]);
        b.extend(filler(40));
        add("seipd-v2", "chunk-size-octet", if c <= 56 { 1u64 << (c as u32 + 6) } else { u64::MAX }, 40, pkt(18, &b));
        let mut b = vec![1u8, 7, 2, c];
        b.extend_from_slice(&[7u8; 15]);
        b.extend(filler(40));
        add("gnupg-aead", "chunk-size-octet", if c <= 56 { 1u64 << (c as u32 + 6) } else { u64::MAX }, 40, pkt(20, &b));
    }
    for t in tails() {
        for d in D4 {
            // SKESK v4 (simple s2k => session key derivable) + SEIPDv1 with lying length
            let mut p = pkt(3, &[4u8, 7, 0, 8]);
            p.extend(hdr_new5(18, d));
            p.push(1);
            p.extend(filler(t));
            add("seipd-v1", "container-len", d as u64, t, p);
            let mut p = pkt(3, &[4u8, 7, 0, 8]);
            p.extend(hdr_new5(9, d));
            p.extend(filler(t));
            add("sed", "container-len", d as u64, t, p);
            let mut p = hdr_new5(18, d);
            p.extend_from_slice(&[2u8, 7, 2, 0]);
            p.extend_from_slice(&[7u8; 32]);
            p.extend(filler(t));
            add("seipd-v2", "container-len", d as u64, t, p);
        }
    }

    // ---- padding / marker / trust / user id with 5-octet lengths are in the header family above.
    v
}

fn b64_armor(kind: &str, data: &[u8]) -> Vec<u8> {
    rfc::armor::armor_encode(kind, &[], data, true, "\n").into_bytes()
}

fn w1(ctx: &mut Ctx) {
    let cases = w1_cases();
    let mut scratch = vec![0u8; 64 * 1024];
    // group cases: one `mine()` per chunk of 64 cases
    let group = 64usize;
    let mut max_excess: i64 = i64::MIN;
    for (gi, chunk) in cases.chunks(group).enumerate() {
        if !ctx.mine() {
            continue;
        }
        describe_case(&format!("W1 group {gi} ({}/{})", chunk[0].ptype, chunk[0].field));
        for c in chunk {
            let (aead_allow, bz) = documented_buffers(&c.data);
            let allow = aead_allow + if bz { BZIP2_ALLOW } else { 0 };
            // armored renderings (prebuilt outside the measured region)
            let arm_msg = b64_armor("PGP MESSAGE", &c.data);
            let arm_key = b64_armor("PGP PUBLIC KEY BLOCK", &c.data);
            let csf = {
                let mut s = b"-----BEGIN PGP SIGNED MESSAGE-----\nHash: SHA256\n\nhello\n".to_vec();
                s.extend(b64_armor("PGP SIGNATURE", &c.data));
                s
            };
            let mut any_ok = false;
            for e in Entry::BINARY.iter().chain(Entry::ARMORED.iter()) {
                let input: &[u8] = match e {
                    Entry::Dearmor | Entry::ArmoredMessage => &arm_msg,
                    Entry::ArmoredKey => &arm_key,
                    Entry::Cleartext => &csf,
                    _ => &c.data,
                };
                let o = observe(*e, input, &mut scratch);
                ctx.eval();
                any_ok |= o.ok;
                judge_w1(ctx, c.ptype, c.field, c.declared, input, allow, e.name(), &o);
                let ex = o.st.peak as i64 - (W1_K * input.len() as u64 + allow) as i64;
                max_excess = max_excess.max(ex);
            }
            ctx.cover(&("W1", c.ptype, c.field, c.declared, c.tail, &c.data));
            ctx.seen("W1.fields", format!("{}/{}", c.ptype, c.field));
            ctx.tally(if any_ok { "W1.some-entry-accepted" } else { "W1.all-entries-rejected" }, 1);
        }
        if gi % 16 == 0 {
            let c = &chunk[0];
            ctx.sample(json!({"family": "W1", "ptype": c.ptype, "field": c.field, "declared": c.declared, "input": hexs(&c.data)}));
        }
    }
    if max_excess > i64::MIN {
        let kib = (max_excess.max(0) as u64).div_ceil(KIB);
        ctx.seen("W1.max_peak_minus_16x_input_KiB(bucket)", format!("<= {} KiB", kib.next_power_of_two()));
        dbg_line!("W1 max excess {} bytes", max_excess);
    }
}

fn judge_w1(
    ctx: &mut Ctx,
    ptype: &str,
    field: &str,
    declared: u64,
    input: &[u8],
    allow: u64,
    entry: &str,
    o: &Obs,
) {
    let replay = || json!({"entry": entry, "ptype": ptype, "field": field, "declared": declared, "input": hexs(input)});
    if let Some(loc) = &o.panicked {
        // panics are C04's business; noted here so the measurement is not silently lost
        ctx.tally("W1.panicked(see C04)", 1);
        ctx.note(format!("W1: {entry} panicked at {loc} on a {ptype}/{field} input (not judged here)"));
    }
    let bound = W1_C0 + W1_K * input.len() as u64 + allow;
    if o.st.peak > bound {
        ctx.violation(
            format!("C19/W1/peak-exceeds-input-bound/{ptype}/{field}"),
            format!(
                "{entry}: peak allocation {} bytes for an input of {} bytes (bound {} = 256 KiB + 16*|input| + documented buffers {}), declared length {}, largest single allocation {}",
                o.st.peak, input.len(), bound, allow, declared, o.st.max_single
            ),
            replay(),
        );
    }
    if declared >= MIB && declared != u64::MAX && input.len() < 64 * 1024 && o.st.max_single >= declared / 2 && o.st.max_single > allow {
        ctx.violation(
            format!("C19/W1/alloc-follows-declared-length/{ptype}/{field}"),
            format!(
                "{entry}: a single allocation of {} bytes while the input has {} bytes and the field declares {}",
                o.st.max_single, input.len(), declared
            ),
            replay(),
        );
    }
    if o.cpu > 2.0 && input.len() < 64 * 1024 {
        ctx.violation(
            format!("C19/W1/work-follows-declared-length/{ptype}/{field}"),
            format!("{entry}: {:.2} s CPU for an input of {} bytes (declared {})", o.cpu, input.len(), declared),
            replay(),
        );
    }
}

// ------------------------------------------------------------------------------------------
// W1b: position sweep over artefacts made by the library itself. Every offset of every packet body is
// overwritten with a huge big-endian value of every width a length field can have, so that length
// fields the hand-made table does not name (and fields deep inside valid framing) are lied about too.

struct Template {
    name: &'static str,
    stream: Vec<u8>,
    entries: Vec<Entry>,
}

fn cheap_s2k() -> StringToKey {
    StringToKey::IteratedAndSalted { hash_alg: HashAlgorithm::Sha256, salt: [3u8; 8], count: 0 }
}

fn templates() -> Vec<Template> {
    let mut out = vec![];
    let k4 = zoo::key(&zoo::Spec::simple(false, zoo::Alg::Ed25519Legacy, Some(zoo::Alg::EcdhCv25519)), 0);
    let k6 = zoo::key(&zoo::Spec::simple(true, zoo::Alg::Ed25519, Some(zoo::Alg::X25519)), 0);
    let p4 = k4.to_public_key();
    let p6 = k6.to_public_key();
    let pw = Password::from("pw");
    let rng = || ChaCha8Rng::seed_from_u64(19);
    out.push(Template { name: "tsk-v4", stream: k4.to_bytes().unwrap(), entries: vec![Entry::Packets, Entry::SecretKey] });
    out.push(Template { name: "tsk-v6", stream: k6.to_bytes().unwrap(), entries: vec![Entry::Packets, Entry::SecretKey] });
    out.push(Template { name: "cert-v4", stream: p4.to_bytes().unwrap(), entries: vec![Entry::Packets, Entry::PublicKey] });
    out.push(Template { name: "cert-v6", stream: p6.to_bytes().unwrap(), entries: vec![Entry::Packets, Entry::PublicKey] });
    // signed message, not compressed: OPS, literal, signature
    let text = b"The quick brown fox jumps over the lazy dog.\r\n".repeat(3);
    for (name, key) in [("msg-signed-v4", &k4), ("msg-signed-v6", &k6)] {
        let mut b = MessageBuilder::from_bytes("f.txt", text.clone());
        b.sign(&key.primary_key, Password::empty(), HashAlgorithm::Sha256);
        out.push(Template { name, stream: b.to_vec(rng()).unwrap(), entries: vec![Entry::Packets, Entry::Message] });
    }
    // compressed + signed
    for (name, alg) in [("msg-zlib", CompressionAlgorithm::ZLIB), ("msg-zip", CompressionAlgorithm::ZIP), ("msg-bzip2", CompressionAlgorithm::BZip2)] {
        let mut b = MessageBuilder::from_bytes("", text.clone());
        b.compression(alg);
        b.sign(&k4.primary_key, Password::empty(), HashAlgorithm::Sha256);
        out.push(Template { name, stream: b.to_vec(rng()).unwrap(), entries: vec![Entry::Packets, Entry::Message] });
    }
    // encrypted to key + password
    {
        let mut b = MessageBuilder::from_bytes("", text.clone()).seipd_v1(rng(), SymmetricKeyAlgorithm::AES128);
        b.encrypt_to_key(rng(), &p4.public_subkeys[0]).unwrap();
        b.encrypt_with_password(cheap_s2k(), &pw).unwrap();
        out.push(Template { name: "msg-seipd1", stream: b.to_vec(rng()).unwrap(), entries: vec![Entry::Packets, Entry::Message] });
        let mut b = MessageBuilder::from_bytes("", text.clone()).seipd_v2(rng(), SymmetricKeyAlgorithm::AES128, AeadAlgorithm::Ocb, ChunkSize::C64B);
        b.encrypt_to_key(rng(), &p6.public_subkeys[0]).unwrap();
        b.encrypt_with_password(rng(), cheap_s2k(), &pw).unwrap();
        out.push(Template { name: "msg-seipd2", stream: b.to_vec(rng()).unwrap(), entries: vec![Entry::Packets, Entry::Message] });
    }
    // detached signatures
    for (name, key) in [("detached-v4", &k4), ("detached-v6", &k6)] {
        let sig = DetachedSignature::sign_binary_data(rng(), &key.primary_key, &Password::empty(), HashAlgorithm::Sha256, &text[..]).unwrap();
        let mut stream = vec![];
        sig.signature.to_writer_with_header(&mut stream).unwrap();
        out.push(Template { name, stream, entries: vec![Entry::Packets, Entry::DetachedSig] });
    }
    out
}

fn w1b(ctx: &mut Ctx) {
    let tpls = templates();
    let mut scratch = vec![0u8; 64 * 1024];
    let max_off = ctx.qt(160usize, 600usize);
    // (width, value, declared)
    let muts: Vec<(usize, Vec<u8>, u64)> = {
        let mut m = vec![
            (1usize, vec![0xFFu8], 255u64),
            (2, vec![0xFF, 0xFF], 0xFFFF),
            (4, be32(1 << 24).to_vec(), 1 << 24),
            (4, be32(u32::MAX).to_vec(), u32::MAX as u64),
            (5, { let mut v = vec![0xFFu8]; v.extend_from_slice(&be32(u32::MAX)); v }, u32::MAX as u64),
        ];
        if !ctx.quick() {
            m.push((4, be32(1 << 31).to_vec(), 1 << 31));
            m.push((4, be32(1 << 16).to_vec(), 1 << 16));
            m.push((2, vec![0x80, 0x00], 0x8000));
        }
        m
    };
    for t in &tpls {
        let pkts = match rfc::frame::deframe(&t.stream) {
            Ok(p) => p,
            Err(e) => {
                ctx.mine();
                ctx.inconclusive(format!("W1b: reference cannot deframe template {}: {e}", t.name));
                continue;
            }
        };
        for (pi, p) in pkts.iter().enumerate() {
            if !ctx.mine() {
                continue;
            }
            describe_case(&format!("W1b sweep {} packet {} (tag {})", t.name, pi, p.tag));
            let prefix = &t.stream[..p.offset];
            let suffix = &t.stream[p.offset + p.encoded_len..];
            let nmax = p.body.len().min(max_off);
            for o in 0..nmax {
                for (w, val, declared) in &muts {
                    for variant in 0..2 {
                        let mut body = p.body.clone();
                        if variant == 0 {
                            // overwrite in place (body keeps its size where possible)
                            if o + w > body.len() {
                                body.truncate(o);
                                body.extend_from_slice(val);
                            } else {
                                body[o..o + w].copy_from_slice(val);
                            }
                        } else {
                            // cut the body 8 octets after the field
                            body.truncate(o);
                            body.extend_from_slice(val);
                            let keep = (o + w + 8).min(p.body.len());
                            if o + w < keep {
                                body.extend_from_slice(&p.body[o + w..keep]);
                            }
                        }
                        let mut stream = prefix.to_vec();
                        stream.extend(pkt(p.tag, &body));
                        if variant == 0 {
                            stream.extend_from_slice(suffix);
                        }
                        let (aead_allow, bz) = documented_buffers(&stream);
                        let bz = bz || t.name == "msg-bzip2";
                        let allow = aead_allow + if bz { BZIP2_ALLOW } else { 0 };
                        for e in &t.entries {
                            let ob = observe(*e, &stream, &mut scratch);
                            ctx.eval();
                            judge_w1(ctx, t.name, "sweep", *declared, &stream, allow, e.name(), &ob);
                            if ob.ok {
                                ctx.tally("W1b.accepted", 1);
                            }
                        }
                    }
                }
                ctx.cover(&("W1b", t.name, pi, o));
            }
            ctx.seen("W1b.templates", format!("{}#{}(tag{})", t.name, pi, p.tag));
            if pi == 0 {
                ctx.sample(json!({"family": "W1b", "template": t.name, "stream": hexs(&t.stream), "offsets": nmax, "mutations": muts.len() * 2}));
            }
        }
    }
}

// ------------------------------------------------------------------------------------------
// process isolation for the few cases that may take the whole process down when the library is
// broken (stack exhaustion on deep nesting, multi-GiB Argon2 allocations): fork, apply resource limits,
// run, report through a pipe. The counting allocator and the CPU clock work in the child as usual.

enum ChildOutcome {
    /// the closure returned these bytes
    Done(Vec<u8>),
    /// the closure panicked (location)
    Panicked(String),
    /// the child was killed by this signal
    Signal(i32),
    /// could not fork / wait
    Failed(String),
}

fn vm_size_bytes() -> u64 {
    std::fs::read_to_string("/proc/self/statm")
        .ok()
        .and_then(|s| s.split_whitespace().next().and_then(|x| x.parse::<u64>().ok()))
        .map(|pages| pages * 4096)
        .unwrap_or(1 << 30)
}

fn in_child(extra_address_space: Option<u64>, cpu_limit_s: u64, f: impl FnOnce() -> Vec<u8>) -> ChildOutcome {
    use std::os::fd::FromRawFd;
    let as_limit = extra_address_space.map(|x| vm_size_bytes() + x);
    let mut fds = [0i32; 2];
    if unsafe { libc::pipe(fds.as_mut_ptr()) } != 0 {
        return ChildOutcome::Failed("pipe".into());
    }
    let pid = unsafe { libc::fork() };
    if pid < 0 {
        unsafe {
            libc::close(fds[0]);
            libc::close(fds[1]);
        }
        return ChildOutcome::Failed("fork".into());
    }
    if pid == 0 {
        unsafe {
            libc::close(fds[0]);
            for sig in [libc::SIGSEGV, libc::SIGABRT, libc::SIGBUS, libc::SIGILL] {
                libc::signal(sig, libc::SIG_DFL);
            }
            let zero = libc::rlimit { rlim_cur: 0, rlim_max: 0 };
            libc::setrlimit(libc::RLIMIT_CORE, &zero);
            let cpu = libc::rlimit { rlim_cur: cpu_limit_s, rlim_max: cpu_limit_s + 1 };
            libc::setrlimit(libc::RLIMIT_CPU, &cpu);
            if let Some(a) = as_limit {
                let l = libc::rlimit { rlim_cur: a, rlim_max: a };
                libc::setrlimit(libc::RLIMIT_AS, &l);
            }
        }
        let out = match crate::core::guard(f) {
            Ok(mut v) => {
                v.insert(0, 0u8);
                v
            }
            Err(p) => {
                let mut v = vec![1u8];
                v.extend_from_slice(p.short_loc().as_bytes());
                v
            }
        };
        let mut off = 0;
        while off < out.len() {
            let n = unsafe { libc::write(fds[1], out[off..].as_ptr() as *const libc::c_void, out.len() - off) };
            if n <= 0 {
                break;
            }
            off += n as usize;
        }
        unsafe { libc::_exit(0) };
    }
    unsafe { libc::close(fds[1]) };
    let mut rd = unsafe { std::fs::File::from_raw_fd(fds[0]) };
    let mut buf = vec![];
    let _ = rd.read_to_end(&mut buf);
    drop(rd);
    let mut status = 0i32;
    let r = unsafe { libc::waitpid(pid, &mut status, 0) };
    if r != pid {
        return ChildOutcome::Failed("waitpid".into());
    }
    if libc::WIFSIGNALED(status) {
        return ChildOutcome::Signal(libc::WTERMSIG(status));
    }
    match buf.first() {
        Some(0) => ChildOutcome::Done(buf[1..].to_vec()),
        Some(1) => ChildOutcome::Panicked(String::from_utf8_lossy(&buf[1..]).into_owned()),
        _ => ChildOutcome::Failed(format!("child exited with status {status} and no report")),
    }
}

// ------------------------------------------------------------------------------------------
// W2: repeated structures — scaling of CPU time and of peak memory

/// What is run over a generated input.
#[derive(Clone, Copy, Debug, PartialEq, Eq)]
enum Runner {
    /// `PacketParser` to the end
    Packets,
    /// `Message::from_bytes`, open every layer (unbounded depth), stream the content
    MessageDeep,
    PublicKey,
    DetachedSig,
    /// `CleartextSignedMessage::from_armor` (which wraps the source in a `BufReader`)
    Cleartext,
    /// `Dearmor` over a `BufReader`, streamed to the end
    Dearmor,
    /// `SignedPublicKey::from_armor_single`
    ArmoredKey,
    /// `Message::from_armor` over a `BufReader`, every layer opened, content streamed
    ArmoredMessage,
}

struct Family {
    name: &'static str,
    runner: Runner,
    /// smallest n worth timing
    n0: usize,
    /// generator: n -> input
    gen: fn(usize) -> Vec<u8>,
    /// peak memory bound: c0 + k * |input|  (k calibrated per family, >= 4x headroom)
    mem_k: u64,
    /// additional allowance per repeated element (containers carry fixed buffers per layer)
    mem_per_elem: u64,
    /// run every point in a forked child (deep nesting may exhaust the stack)
    isolate: bool,
}

fn rep(unit: &[u8], n: usize) -> Vec<u8> {
    let mut v = Vec::with_capacity(unit.len() * n + 64);
    for _ in 0..n {
        v.extend_from_slice(unit);
    }
    v
}

fn gen_markers(n: usize) -> Vec<u8> {
    let mut v = rep(&pkt(10, b"PGP"), n);
    v.extend(literal(b"x"));
    v
}
fn gen_padding(n: usize) -> Vec<u8> {
    let mut v = rep(&pkt(21, &[0xAA, 0xBB]), n);
    v.extend(literal(b"x"));
    v
}
fn gen_private(n: usize) -> Vec<u8> {
    let mut v = rep(&pkt(60, &[1, 2, 3]), n);
    v.extend(literal(b"x"));
    v
}
fn gen_trust(n: usize) -> Vec<u8> {
    // certificate: key, uid, then n trust packets
    let mut v = pkt(6, &v4_pubkey_ed25519_legacy());
    v.extend(pkt(13, b"a"));
    v.extend(rep(&pkt(12, &[1, 2]), n));
    v
}
fn gen_sig_prefix(n: usize) -> Vec<u8> {
    let mut v = rep(&pkt(2, &sig4_complete()), n);
    v.extend(literal(b"x"));
    v
}
fn gen_ops(n: usize) -> Vec<u8> {
    let ops = pkt(4, &[3u8, 0, 8, 22, 1, 2, 3, 4, 5, 6, 7, 8, 0]);
    let mut v = rep(&ops, n);
    v.extend(literal(b"x"));
    v.extend(rep(&pkt(2, &sig4_complete()), n));
    v
}
fn gen_ops_unterminated(n: usize) -> Vec<u8> {
    let ops = pkt(4, &[3u8, 0, 8, 22, 1, 2, 3, 4, 5, 6, 7, 8, 0]);
    let mut v = rep(&ops, n);
    v.extend(literal(b"x"));
    v
}
fn gen_nested_stored(n: usize) -> Vec<u8> {
    let mut cur = literal(b"x");
    for _ in 0..n {
        let mut b = Vec::with_capacity(cur.len() + 8);
        b.push(0u8);
        b.extend_from_slice(&cur);
        cur = pkt(8, &b);
    }
    cur
}
fn gen_nested_zlib(n: usize) -> Vec<u8> {
    use flate2::write::ZlibEncoder;
    let mut cur = literal(b"x");
    for _ in 0..n {
        let mut e = ZlibEncoder::new(vec![2u8], flate2::Compression::none());
        e.write_all(&cur).unwrap();
        cur = pkt(8, &e.finish().unwrap());
    }
    cur
}
fn gen_subpackets_v6(n: usize) -> Vec<u8> {
    // n "exportable certification" subpackets (3 octets each) in the hashed area of a v6 signature
    let area = rep(&[2u8, 4, 1], n);
    let mut b = sig6_prefix(27, &area, None);
    b.extend_from_slice(&be32(0));
    b.extend_from_slice(&[0, 0, 32]);
    b.extend_from_slice(&[9; 32]);
    b.extend_from_slice(&[8; 64]);
    pkt(2, &b)
}
fn gen_subpackets_unknown_v6(n: usize) -> Vec<u8> {
    // unknown non-critical subpackets with 2-octet bodies, unhashed area
    let area = rep(&[3u8, 99, 1, 2], n);
    let mut b = sig6_prefix(27, &creation_subpkt(), None);
    b.extend_from_slice(&be32(area.len() as u32));
    b.extend_from_slice(&area);
    b.extend_from_slice(&[0, 0, 32]);
    b.extend_from_slice(&[9; 32]);
    b.extend_from_slice(&[8; 64]);
    pkt(2, &b)
}
fn gen_embedded_sigs(n: usize) -> Vec<u8> {
    // n embedded-signature subpackets each holding a complete small signature
    let inner = sig4_complete();
    let mut sp = subpkt_len(1, inner.len() as u32 + 1);
    sp.push(32);
    sp.extend_from_slice(&inner);
    let area = rep(&sp, n);
    let mut b = sig6_prefix(27, &creation_subpkt(), None);
    b.extend_from_slice(&be32(area.len() as u32));
    b.extend_from_slice(&area);
    b.extend_from_slice(&[0, 0, 32]);
    b.extend_from_slice(&[9; 32]);
    b.extend_from_slice(&[8; 64]);
    pkt(2, &b)
}
/// v6 signature whose hashed area holds an Embedded Signature subpacket that holds a signature that holds ...
/// (n levels); `siblings`: every level additionally carries a complete leaf Embedded Signature subpacket in front
/// of and behind the one that continues the nesting
fn gen_nested_embedded(n: usize, siblings: bool) -> Vec<u8> {
    // built in linear time: all level sizes first, then prefixes outside-in, the leaf, suffixes inside-out
    let tail = {
        let mut b = be32(0).to_vec(); // unhashed area
        b.extend_from_slice(&[0, 0, 16]);
        b.extend_from_slice(&[9; 16]);
        b.extend_from_slice(&[8; 64]);
        b
    };
    let leaf_sig = {
        let mut b = sig6_prefix(27, &creation_subpkt(), None);
        b.extend_from_slice(&tail);
        b
    };
    let sp_hdr = |inner_len: usize| {
        let l = inner_len as u32 + 1;
        let mut sp = subpkt_len(if l < 192 { 1 } else if l < 16320 { 2 } else { 0 }, l);
        sp.push(32);
        sp
    };
    let leaf_sp = {
        let mut sp = sp_hdr(leaf_sig.len());
        sp.extend_from_slice(&leaf_sig);
        sp
    };
    let sib = if siblings { leaf_sp.len() } else { 0 };
    // sizes[k] = size of the signature body at nesting level k (0 = innermost)
    let mut sizes = Vec::with_capacity(n + 1);
    sizes.push(leaf_sig.len());
    for k in 0..n {
        let inner = sizes[k];
        let area = sib + sp_hdr(inner).len() + inner + sib;
        sizes.push(4 + 4 + area + tail.len());
    }
    let total = sizes[n];
    let mut out = hdr_new5(2, total as u32);
    out.reserve(total);
    for k in (0..n).rev() {
        let inner = sizes[k];
        let area = sib + sp_hdr(inner).len() + inner + sib;
        out.extend_from_slice(&[6, 0x00, 27, 8]);
        out.extend_from_slice(&be32(area as u32));
        if siblings {
            out.extend_from_slice(&leaf_sp);
        }
        out.extend(sp_hdr(inner));
    }
    out.extend_from_slice(&leaf_sig);
    for _ in 0..n {
        if siblings {
            out.extend_from_slice(&leaf_sp);
        }
        out.extend_from_slice(&tail);
    }
    out
}
fn gen_nested_embedded_chain(n: usize) -> Vec<u8> {
    gen_nested_embedded(n, false)
}
fn gen_nested_embedded_siblings(n: usize) -> Vec<u8> {
    gen_nested_embedded(n, true)
}
fn gen_user_attrs(n: usize) -> Vec<u8> {
    let mut v = pkt(6, &v4_pubkey_ed25519_legacy());
    v.extend(pkt(13, b"a"));
    v.extend(rep(&pkt(17, &[2u8, 100, 7]), n));
    v
}
fn gen_uids(n: usize) -> Vec<u8> {
    let mut v = pkt(6, &v4_pubkey_ed25519_legacy());
    v.extend(rep(&pkt(13, b"a"), n));
    v
}
fn gen_uid_sigs(n: usize) -> Vec<u8> {
    let mut v = pkt(6, &v4_pubkey_ed25519_legacy());
    v.extend(pkt(13, b"a"));
    let mut sig = sig4_complete();
    sig[1] = 0x10;
    v.extend(rep(&pkt(2, &sig), n));
    v
}
fn gen_subkeys(n: usize) -> Vec<u8> {
    let mut v = pkt(6, &v4_pubkey_ed25519_legacy());
    v.extend(pkt(13, b"a"));
    let mut unit = pkt(14, &v4_pubkey_ed25519_legacy());
    let mut sig = sig4_complete();
    sig[1] = 0x18;
    unit.extend(pkt(2, &sig));
    v.extend(rep(&unit, n));
    v
}
fn gen_partial_1byte(n: usize) -> Vec<u8> {
    // literal: first partial chunk of 512, then n partial chunks of one octet, final length 0
    let mut v = vec![0xC0 | 11, 224 + 9, b'b', 0, 0, 0, 0, 0];
    v.extend(filler(506));
    v.extend(rep(&[224u8, b'z'], n));
    v.push(0);
    v
}
fn gen_esks(n: usize) -> Vec<u8> {
    // n SKESK v4 (simple S2K) + n PKESK v3 for unknown recipients, then a SEIPDv1 body of garbage
    let mut unit = pkt(3, &[4u8, 7, 0, 8]);
    let mut pk = vec![3u8, 1, 2, 3, 4, 5, 6, 7, 8, 1];
    pk.extend(mpi_declared(64, &[0x99; 8]));
    unit.extend(pkt(1, &pk));
    let mut v = rep(&unit, n);
    let mut body = vec![1u8];
    body.extend(filler(64));
    v.extend(pkt(18, &body));
    v
}
const CSF_HEAD: &[u8] = b"-----BEGIN PGP SIGNED MESSAGE-----\nHash: SHA256\n\n";
fn gen_csf_unterminated(n: usize) -> Vec<u8> {
    let mut v = CSF_HEAD.to_vec();
    v.extend(rep(b"line of text\n", n));
    v
}
fn gen_csf_dashes(n: usize) -> Vec<u8> {
    let mut v = CSF_HEAD.to_vec();
    v.extend(rep(b"- -dash escaped\n", n));
    v.extend_from_slice(b"-----BEGIN PGP SIGNATURE-----\n\n");
    v.extend_from_slice(rfc::armor::b64_encode(&pkt(2, &sig4_complete())).as_bytes());
    v.extend_from_slice(b"\n-----END PGP SIGNATURE-----\n");
    v
}
fn gen_csf_one_long_line(n: usize) -> Vec<u8> {
    let mut v = CSF_HEAD.to_vec();
    v.extend(rep(b"a", n));
    v
}
fn gen_csf_hash_headers(n: usize) -> Vec<u8> {
    let mut v = b"-----BEGIN PGP SIGNED MESSAGE-----\n".to_vec();
    v.extend(rep(b"Hash: SHA256\n", n));
    v.extend_from_slice(b"\nhello\n");
    v
}
fn gen_armor_long_header_value(n: usize) -> Vec<u8> {
    let mut v = b"-----BEGIN PGP MESSAGE-----\nComment: ".to_vec();
    v.extend(rep(b"c", n));
    v
}
fn gen_armor_many_headers(n: usize) -> Vec<u8> {
    let mut v = b"-----BEGIN PGP MESSAGE-----\n".to_vec();
    v.extend(rep(b"Comment: x\n", n));
    v.extend_from_slice(b"\n");
    v.extend_from_slice(rfc::armor::b64_encode(&literal(b"x")).as_bytes());
    v.extend_from_slice(b"\n-----END PGP MESSAGE-----\n");
    v
}
fn gen_armor_leading_garbage(n: usize) -> Vec<u8> {
    let mut v = rep(b"g", n);
    v.extend_from_slice(b"\n-----BEGIN PGP MESSAGE-----\n\n");
    v.extend_from_slice(rfc::armor::b64_encode(&literal(b"x")).as_bytes());
    v.extend_from_slice(b"\n-----END PGP MESSAGE-----\n");
    v
}
fn gen_armor_leading_lines(n: usize) -> Vec<u8> {
    let mut v = rep(b"some text\n", n);
    v.extend_from_slice(b"-----BEGIN PGP MESSAGE-----\n\n");
    v.extend_from_slice(rfc::armor::b64_encode(&literal(b"x")).as_bytes());
    v.extend_from_slice(b"\n-----END PGP MESSAGE-----\n");
    v
}
fn gen_armor_b64_garbage(n: usize) -> Vec<u8> {
    // valid alphabet, no line breaks, no footer
    let mut v = b"-----BEGIN PGP MESSAGE-----\n\n".to_vec();
    v.extend(rep(b"QUJD", n / 4));
    v
}
fn gen_armor_b64_markers(n: usize) -> Vec<u8> {
    // base64 of n marker packets and a literal, properly wrapped, no footer
    let mut v = b"-----BEGIN PGP MESSAGE-----\n\n".to_vec();
    let b64 = rfc::armor::b64_encode(&gen_markers(n));
    for l in b64.as_bytes().chunks(64) {
        v.extend_from_slice(l);
        v.push(b'\n');
    }
    v
}
fn gen_armor_equals(n: usize) -> Vec<u8> {
    let mut v = b"-----BEGIN PGP MESSAGE-----\n\nQUJD\n".to_vec();
    v.extend(rep(b"=", n));
    v
}
fn gen_armor_newlines(n: usize) -> Vec<u8> {
    let mut v = b"-----BEGIN PGP MESSAGE-----\n\nQUJD\n".to_vec();
    v.extend(rep(b"\n", n));
    v.extend_from_slice(b"=abcd\n-----END PGP MESSAGE-----\n");
    v
}
fn gen_armor_spaces(n: usize) -> Vec<u8> {
    let mut v = b"-----BEGIN PGP MESSAGE-----\n".to_vec();
    v.extend(rep(b" ", n));
    v.extend_from_slice(b"\nQUJD\n-----END PGP MESSAGE-----\n");
    v
}
fn gen_armor_crlf_short_lines(n: usize) -> Vec<u8> {
    // four characters per line, CRLF line ends: as many line breaks as the format can carry
    let mut v = b"-----BEGIN PGP MESSAGE-----\r\n\r\n".to_vec();
    let b64 = rfc::armor::b64_encode(&gen_markers(n / 5));
    for l in b64.as_bytes().chunks(4) {
        v.extend_from_slice(l);
        v.extend_from_slice(b"\r\n");
    }
    v.extend_from_slice(b"-----END PGP MESSAGE-----\r\n");
    v
}
fn gen_armor_key_uids(n: usize) -> Vec<u8> {
    b64_armor("PGP PUBLIC KEY BLOCK", &gen_uids(n))
}

fn families() -> Vec<Family> {
    let f = |name, runner, n0, gen: fn(usize) -> Vec<u8>, mem_k, mem_per_elem| Family { name, runner, n0, gen, mem_k, mem_per_elem, isolate: false };
    let iso = |mut f: Family| {
        f.isolate = true;
        f
    };
    const PE: u64 = 1024; // per parsed element: structs, boxes, small vectors (measured <= 150 bytes)
    const PL: u64 = 64 * 1024; // per container layer: 8 KiB reader buffers + inflate state (measured <= 16.7 KiB)
    vec![
        f("marker-packets", Runner::MessageDeep, 80_000, gen_markers, 16, PE),
        f("padding-packets", Runner::MessageDeep, 80_000, gen_padding, 16, PE),
        f("private-packets", Runner::MessageDeep, 80_000, gen_private, 16, PE),
        f("marker-packets/PacketParser", Runner::Packets, 80_000, gen_markers, 16, PE),
        f("trust-packets", Runner::Packets, 80_000, gen_trust, 16, PE),
        f("signature-prefix-packets", Runner::MessageDeep, 8_000, gen_sig_prefix, 16, PE),
        f("one-pass-signature-packets", Runner::MessageDeep, 8_000, gen_ops, 16, PE),
        f("one-pass-signature-packets-unterminated", Runner::MessageDeep, 32_000, gen_ops_unterminated, 16, PE),
        iso(f("nested-compression-stored", Runner::MessageDeep, 2_000, gen_nested_stored, 16, PL)),
        iso(f("nested-compression-zlib", Runner::MessageDeep, 1_000, gen_nested_zlib, 16, PL)),
        // every one of the (at most 16 admitted) nesting levels copies its subpacket area once: factor 64
        iso(f("nested-embedded-signatures", Runner::Packets, 64, gen_nested_embedded_chain, 64, PE)),
        iso(f("nested-embedded-signatures-leaf-siblings", Runner::Packets, 64, gen_nested_embedded_siblings, 64, PE)),
        f("signature-subpackets-v6", Runner::DetachedSig, 80_000, gen_subpackets_v6, 16, PE),
        f("signature-subpackets-unknown-v6", Runner::Packets, 80_000, gen_subpackets_unknown_v6, 16, PE),
        f("signature-embedded-signatures", Runner::Packets, 8_000, gen_embedded_sigs, 16, PE),
        f("certificate-user-ids", Runner::PublicKey, 40_000, gen_uids, 16, PE),
        f("certificate-user-attributes", Runner::PublicKey, 40_000, gen_user_attrs, 16, PE),
        f("certificate-uid-signatures", Runner::PublicKey, 8_000, gen_uid_sigs, 16, PE),
        f("certificate-subkeys", Runner::PublicKey, 4_000, gen_subkeys, 16, PE),
        f("literal-one-octet-partial-chunks", Runner::MessageDeep, 200_000, gen_partial_1byte, 16, PE),
        f("esk-packets", Runner::MessageDeep, 8_000, gen_esks, 16, PE),
        f("cleartext-unterminated-lines", Runner::Cleartext, 40_000, gen_csf_unterminated, 16, 0),
        f("cleartext-dash-escaped-lines", Runner::Cleartext, 40_000, gen_csf_dashes, 16, 0),
        f("cleartext-one-long-line", Runner::Cleartext, 1_000_000, gen_csf_one_long_line, 16, 0),
        f("cleartext-hash-headers", Runner::Cleartext, 100_000, gen_csf_hash_headers, 16, 0),
        f("armor-long-header-value", Runner::Dearmor, 1_000_000, gen_armor_long_header_value, 16, 0),
        f("armor-many-headers", Runner::Dearmor, 100_000, gen_armor_many_headers, 16, 0),
        f("armor-leading-garbage", Runner::Dearmor, 2_000_000, gen_armor_leading_garbage, 16, 0),
        f("armor-leading-lines", Runner::Dearmor, 200_000, gen_armor_leading_lines, 16, 0),
        f("armor-base64-no-linebreaks", Runner::Dearmor, 4_000_000, gen_armor_b64_garbage, 16, 0),
        f("armor-base64-marker-packets", Runner::ArmoredMessage, 80_000, gen_armor_b64_markers, 16, PE),
        f("armor-equals-run", Runner::Dearmor, 60_000, gen_armor_equals, 16, 0),
        f("armor-newline-run", Runner::Dearmor, 4_000_000, gen_armor_newlines, 16, 0),
        f("armor-space-run", Runner::Dearmor, 500_000, gen_armor_spaces, 16, 0),
        f("armor-crlf-short-lines", Runner::ArmoredMessage, 400_000, gen_armor_crlf_short_lines, 16, PE),
        f("armored-certificate-user-ids", Runner::ArmoredKey, 40_000, gen_armor_key_uids, 16, PE),
    ]
}

fn run_family(r: Runner, data: &[u8], scratch: &mut [u8]) -> u64 {
    match r {
        Runner::Packets => PacketParser::new(data).filter(|p| p.is_ok()).count() as u64,
        Runner::MessageDeep => match Message::from_bytes(data) {
            Ok(m) => drive_message(m, scratch, usize::MAX, u64::MAX),
            Err(_) => 0,
        },
        Runner::PublicKey => SignedPublicKey::from_bytes(data).is_ok() as u64,
        Runner::DetachedSig => DetachedSignature::from_bytes(data).is_ok() as u64,
        Runner::Cleartext => CleartextSignedMessage::from_armor(data).is_ok() as u64,
        Runner::Dearmor => {
            let mut d = Dearmor::new(BufReader::new(data));
            let mut n = 0u64;
            loop {
                match d.read(scratch) {
                    Ok(0) => break,
                    Ok(k) => n += k as u64,
                    Err(_) => break,
                }
            }
            n
        }
        Runner::ArmoredKey => SignedPublicKey::from_armor_single(data).is_ok() as u64,
        Runner::ArmoredMessage => match Message::from_armor(BufReader::new(data)) {
            Ok((m, _)) => drive_message(m, scratch, usize::MAX, u64::MAX),
            Err(_) => 0,
        },
    }
}

struct Point {
    n: usize,
    size: usize,
    cpu: f64,
    st: AllocStats,
    out: u64,
}

enum PointErr {
    Panicked(String),
    /// the isolated child died with this signal
    Crashed(i32, usize),
    Harness(String),
}

fn measure_point(f: &Family, n: usize, scratch: &mut [u8]) -> Result<Point, PointErr> {
    let data = (f.gen)(n);
    if f.isolate {
        let size = data.len();
        let runner = f.runner;
        let r = in_child(None, 120, || {
            let t0 = thread_cpu_s();
            let (out, st) = measure_alloc(|| run_family(runner, &data, scratch));
            let cpu = thread_cpu_s() - t0;
            let mut v = vec![];
            v.extend_from_slice(&cpu.to_le_bytes());
            v.extend_from_slice(&st.peak.to_le_bytes());
            v.extend_from_slice(&st.count.to_le_bytes());
            v.extend_from_slice(&st.max_single.to_le_bytes());
            v.extend_from_slice(&out.to_le_bytes());
            v
        });
        return match r {
            ChildOutcome::Done(b) if b.len() == 40 => {
                let u = |i: usize| u64::from_le_bytes(b[i * 8..i * 8 + 8].try_into().unwrap());
                Ok(Point {
                    n,
                    size,
                    cpu: f64::from_le_bytes(b[0..8].try_into().unwrap()),
                    st: AllocStats { peak: u(1), count: u(2), max_single: u(3), ..Default::default() },
                    out: u(4),
                })
            }
            ChildOutcome::Done(_) => Err(PointErr::Harness("short child report".into())),
            ChildOutcome::Panicked(l) => Err(PointErr::Panicked(l)),
            ChildOutcome::Signal(sig) => Err(PointErr::Crashed(sig, size)),
            ChildOutcome::Failed(e) => Err(PointErr::Harness(e)),
        };
    }
    let t0 = thread_cpu_s();
    let (r, st) = measure_alloc(|| crate::core::guard(|| run_family(f.runner, &data, scratch)));
    let cpu = thread_cpu_s() - t0;
    match r {
        Ok(out) => Ok(Point { n, size: data.len(), cpu, st, out }),
        Err(p) => Err(PointErr::Panicked(p.short_loc())),
    }
}

/// least-squares slope of log(t) over log(size) for the four points
fn slope(pts: &[Point], y: impl Fn(&Point) -> f64) -> f64 {
    let xs: Vec<f64> = pts.iter().map(|p| (p.size as f64).ln()).collect();
    let ys: Vec<f64> = pts.iter().map(|p| y(p).max(1e-9).ln()).collect();
    let n = xs.len() as f64;
    let mx = xs.iter().sum::<f64>() / n;
    let my = ys.iter().sum::<f64>() / n;
    let sxy: f64 = xs.iter().zip(&ys).map(|(x, y)| (x - mx) * (y - my)).sum();
    let sxx: f64 = xs.iter().map(|x| (x - mx) * (x - mx)).sum();
    if sxx == 0.0 {
        0.0
    } else {
        sxy / sxx
    }
}

const SLOPE_LIMIT: f64 = 1.7;
const DECISIVE_S: f64 = 0.2;

fn w2(ctx: &mut Ctx) {
    let fams = families();
    let mut scratch = vec![0u8; 64 * 1024];
    // largest input the ladder may reach
    let size_cap: usize = ctx.qt(48, 192) * MIB as usize;
    // a single run is never allowed to be planned beyond this (projected from the previous one)
    let time_cap = ctx.qt(6.0, 20.0);
    for f in &fams {
        if !ctx.mine() {
            continue;
        }
        describe_case(&format!("W2 family {}", f.name));
        ctx.seen("W2.families", f.name);
        let mut n0 = f.n0;
        let mut verdict: Option<(f64, Vec<Point>)> = None;
        let mut fired = 0;
        let mut rounds = 0;
        let mut descents = 0;
        let mut last: Option<Vec<Point>> = None;
        'ladder: loop {
            rounds += 1;
            let mut pts: Vec<Point> = vec![];
            for i in 0..4 {
                let n = n0 << i;
                // projected cost if the family were quadratic: stop before burning the budget
                if let Some(p) = pts.last() {
                    if p.cpu * 4.5 > time_cap {
                        break;
                    }
                }
                match measure_point(f, n, &mut scratch) {
                    Ok(p) => {
                        ctx.eval();
                        dbg_line!("W2 {:44} n={:9} size={:10} cpu={:.4} peak={:10} count={:9} out={}", f.name, p.n, p.size, p.cpu, p.st.peak, p.st.count, p.out);
                        pts.push(p);
                    }
                    Err(PointErr::Panicked(loc)) => {
                        ctx.tally("W2.panicked(see C04)", 1);
                        ctx.note(format!("W2: family {} panicked at {loc} (n={n}); not judged here", f.name));
                        break 'ladder;
                    }
                    Err(PointErr::Crashed(sig, size)) => {
                        dbg_line!("W2 {:44} n={:9} size={:10} CRASH signal {}", f.name, n, size, sig);
                        if sig == libc::SIGSEGV || sig == libc::SIGBUS {
                            ctx.violation(
                                format!("C19/W2/stack-exhaustion/{}", f.name),
                                format!("the process dies with signal {sig} (stack exhausted) on {n} repeated/nested elements, an input of {size} bytes, on the 8 MiB main-thread stack"),
                                json!({"family": f.name, "n": n, "bytes": size, "signal": sig}),
                            );
                        } else {
                            ctx.inconclusive(format!("W2: isolated run of {} ended with signal {sig} at n={n}", f.name));
                        }
                        last = Some(pts);
                        break 'ladder;
                    }
                    Err(PointErr::Harness(e)) => {
                        ctx.inconclusive(format!("W2: could not run {} in isolation: {e}", f.name));
                        break 'ladder;
                    }
                }
            }
            if pts.len() < 3 {
                // already too slow at the smallest size of this ladder: come down and try again
                if descents < 5 && n0 >= 64 {
                    descents += 1;
                    n0 /= 8;
                    continue;
                }
                ctx.inconclusive(format!("W2: family {} cannot be timed within the budget (n0={n0})", f.name));
                last = Some(pts);
                break;
            }
            let s = slope(&pts, |p| p.cpu);
            let tmax = pts.last().unwrap().cpu;
            let size_max = pts.last().unwrap().size;
            dbg_line!("W2 {:44} slope={:.2} tmax={:.3}", f.name, s, tmax);
            if tmax >= DECISIVE_S {
                if s >= SLOPE_LIMIT {
                    fired += 1;
                    if fired >= 2 {
                        verdict = Some((s, pts));
                        break;
                    }
                    // independent repetition at the same sizes
                    last = Some(pts);
                    continue;
                }
                last = Some(pts);
                break;
            }
            last = Some(pts);
            // too fast to measure: scale up (bounded)
            if size_max * 4 > size_cap || rounds > 10 {
                ctx.tally("W2.too-fast-to-time-at-cap", 1);
                break;
            }
            n0 *= 4;
        }
        // containers: one more isolated run far beyond the timing ladder (depth, not time, is the
        // question here)
        if f.isolate && !ctx.viol_by_sig.contains_key(&format!("C19/W2/stack-exhaustion/{}", f.name)) {
            for deep in ctx.qt(vec![20_000usize], vec![20_000, 100_000]) {
                match measure_point(f, deep, &mut scratch) {
                    Ok(p) => {
                        ctx.eval();
                        dbg_line!("W2 {:44} deep n={} size={} cpu={:.3} peak={}", f.name, p.n, p.size, p.cpu, p.st.peak);
                        ctx.seen("W2.deep-probe-survived", format!("{}@{}", f.name, deep));
                    }
                    Err(PointErr::Crashed(sig, size)) if sig == libc::SIGSEGV || sig == libc::SIGBUS => {
                        ctx.eval();
                        ctx.violation(
                            format!("C19/W2/stack-exhaustion/{}", f.name),
                            format!("the process dies with signal {sig} (stack exhausted) on {deep} nested elements, an input of {size} bytes, on the 8 MiB main-thread stack"),
                            json!({"family": f.name, "n": deep, "bytes": size, "signal": sig}),
                        );
                        break;
                    }
                    Err(PointErr::Crashed(sig, _)) => {
                        ctx.inconclusive(format!("W2: deep probe of {} ended with signal {sig} at n={deep} (resource limit of the isolated run)", f.name));
                        break;
                    }
                    Err(PointErr::Panicked(loc)) => {
                        ctx.note(format!("W2: deep probe of {} panicked at {loc} (see C04)", f.name));
                        break;
                    }
                    Err(PointErr::Harness(e)) => {
                        ctx.inconclusive(format!("W2: deep probe of {}: {e}", f.name));
                        break;
                    }
                }
            }
        }
        ctx.cover(&("W2", f.name));
        if let Some((s, pts)) = verdict {
            let series: Vec<_> = pts.iter().map(|p| json!({"n": p.n, "bytes": p.size, "cpu_s": (p.cpu * 1e4).round() / 1e4})).collect();
            ctx.violation(
                format!("C19/W2/superlinear-time/{}", f.name),
                format!("thread CPU time grows with exponent {:.2} (limit {}) over three doublings, confirmed twice: {}", s, SLOPE_LIMIT, serde_json::to_string(&series).unwrap()),
                json!({"family": f.name, "runner": format!("{:?}", f.runner), "series": series}),
            );
        }
        // memory: judged on the last ladder measured
        if let Some(pts) = last {
            for p in &pts {
                let bound = W1_C0 + f.mem_k * p.size as u64 + f.mem_per_elem * p.n as u64;
                if p.st.peak > bound {
                    ctx.violation(
                        format!("C19/W2/peak-exceeds-input-bound/{}", f.name),
                        format!("peak allocation {} bytes for an input of {} bytes ({} repeated elements); bound {} = 256 KiB + {}*|input| + {}*n", p.st.peak, p.size, p.n, bound, f.mem_k, f.mem_per_elem),
                        json!({"family": f.name, "n": p.n, "bytes": p.size}),
                    );
                    break;
                }
            }
            if let Some(p) = pts.last() {
                ctx.seen("W2.peak/input(bucket)", format!("{}: {:.1}", f.name, p.st.peak as f64 / p.size as f64));
                if ctx.samples.len() < 3 {
                    ctx.sample(json!({"family": "W2", "name": f.name, "n": p.n, "bytes": p.size, "cpu_s": p.cpu, "peak": p.st.peak}));
                }
            }
        }
    }
}

// ------------------------------------------------------------------------------------------
// W3: streaming — the working set must not depend on the size of the message

/// Deterministic, mildly compressible source of `remaining` octets (64-symbol alphabet from a
/// xorshift generator, never repeating); allocates nothing.
struct PatternSource {
    state: u64,
    remaining: u64,
}
impl PatternSource {
    fn new(total: u64, seed: u64) -> Self {
        PatternSource { state: seed | 1, remaining: total }
    }
}
impl Read for PatternSource {
    fn read(&mut self, buf: &mut [u8]) -> std::io::Result<usize> {
        if self.remaining == 0 || buf.is_empty() {
            return Ok(0);
        }
        let n = (buf.len() as u64).min(self.remaining) as usize;
        for chunk in buf[..n].chunks_mut(8) {
            let mut x = self.state;
            x ^= x << 13;
            x ^= x >> 7;
            x ^= x << 17;
            self.state = x;
            let b = (x & 0x3F3F_3F3F_3F3F_3F3F).wrapping_add(0x2020_2020_2020_2020).to_le_bytes();
            chunk.copy_from_slice(&b[..chunk.len()]);
        }
        self.remaining -= n as u64;
        Ok(n)
    }
}

struct CountSink(u64);
impl Write for CountSink {
    fn write(&mut self, b: &[u8]) -> std::io::Result<usize> {
        self.0 += b.len() as u64;
        Ok(b.len())
    }
    fn flush(&mut self) -> std::io::Result<()> {
        Ok(())
    }
}

#[derive(Clone, Copy, Debug, PartialEq, Eq)]
enum Enc {
    Plain,
    V1,
    V2(AeadAlgorithm, ChunkSize),
}
#[derive(Clone, Copy, Debug)]
struct StreamCfg {
    comp: Option<CompressionAlgorithm>,
    enc: Enc,
    signed: bool,
}
impl StreamCfg {
    fn name(&self) -> String {
        format!(
            "{}/{}{}",
            match self.comp {
                None => "none".to_string(),
                Some(c) => format!("{c:?}"),
            },
            match self.enc {
                Enc::Plain => "plain".to_string(),
                Enc::V1 => "seipd1".to_string(),
                Enc::V2(a, c) => format!("seipd2-{a:?}-{c:?}"),
            },
            if self.signed { "/signed" } else { "" }
        )
    }
}

const SK16: [u8; 16] = [0x5A; 16];

/// Builds a message of `total` payload octets into `out`.
fn build_stream<W: Write>(cfg: &StreamCfg, total: u64, signer: &SignedSecretKey, out: W) -> pgp::errors::Result<()> {
    let rng = ChaCha8Rng::seed_from_u64(3);
    let src = PatternSource::new(total, 11);
    let b = MessageBuilder::from_reader("", src);
    match cfg.enc {
        Enc::Plain => {
            let mut b = b;
            if let Some(c) = cfg.comp {
                b.compression(c);
            }
            if cfg.signed {
                b.sign(&signer.primary_key, Password::empty(), HashAlgorithm::Sha256);
            }
            b.to_writer(rng, out)
        }
        Enc::V1 => {
            let mut b = b.seipd_v1(ChaCha8Rng::seed_from_u64(4), SymmetricKeyAlgorithm::AES128);
            b.set_session_key(SK16.to_vec().into())?;
            b.encrypt_with_password(cheap_s2k(), &Password::from("pw"))?;
            if let Some(c) = cfg.comp {
                b.compression(c);
            }
            if cfg.signed {
                b.sign(&signer.primary_key, Password::empty(), HashAlgorithm::Sha256);
            }
            b.to_writer(rng, out)
        }
        Enc::V2(aead, chunk) => {
            let mut b = b.seipd_v2(ChaCha8Rng::seed_from_u64(4), SymmetricKeyAlgorithm::AES128, aead, chunk);
            b.set_session_key(SK16.to_vec().into())?;
            b.encrypt_with_password(ChaCha8Rng::seed_from_u64(5), cheap_s2k(), &Password::from("pw"))?;
            if let Some(c) = cfg.comp {
                b.compression(c);
            }
            if cfg.signed {
                b.sign(&signer.primary_key, Password::empty(), HashAlgorithm::Sha256);
            }
            b.to_writer(rng, out)
        }
    }
}

/// Reads a message the streaming way; returns payload octets released or the error text.
fn read_stream(cfg: &StreamCfg, data: &[u8], mode: Seipdv1ReadMode, scratch: &mut [u8]) -> Result<u64, String> {
    read_stream_v(cfg, data, mode, scratch, 0)
}

/// The ways an application can arrive at the same decryption options (the read mode / size limit must
/// hold whatever else is enabled, in whatever order)
const OPTS_VARIANTS: [&str; 6] = ["mode", "mode+gnupg", "mode+legacy", "gnupg+legacy+mode", "mode+legacy+gnupg", "legacy+mode+gnupg"];

fn mk_opts(mode: Seipdv1ReadMode, variant: usize) -> DecryptionOptions {
    let n = DecryptionOptions::new();
    match variant % OPTS_VARIANTS.len() {
        0 => n.set_seipdv1_read_mode(mode),
        1 => n.set_seipdv1_read_mode(mode).enable_gnupg_aead(),
        2 => n.set_seipdv1_read_mode(mode).enable_legacy(),
        3 => n.enable_gnupg_aead().enable_legacy().set_seipdv1_read_mode(mode),
        4 => n.set_seipdv1_read_mode(mode).enable_legacy().enable_gnupg_aead(),
        _ => n.enable_legacy().set_seipdv1_read_mode(mode).enable_gnupg_aead(),
    }
}

fn read_stream_v(cfg: &StreamCfg, data: &[u8], mode: Seipdv1ReadMode, scratch: &mut [u8], opts_variant: usize) -> Result<u64, String> {
    let mut m = Message::from_bytes(BufReader::new(data)).map_err(|e| format!("parse: {e}"))?;
    if m.is_encrypted() {
        let key = match cfg.enc {
            Enc::V2(..) => PlainSessionKey::V6 { key: SK16.to_vec().into() },
            _ => PlainSessionKey::V3_4 { sym_alg: SymmetricKeyAlgorithm::AES128, key: SK16.to_vec().into() },
        };
        let ring = TheRing {
            session_keys: vec![key],
            decrypt_options: mk_opts(mode, opts_variant),
            ..Default::default()
        };
        m = m.decrypt_the_ring(ring, true).map_err(|e| format!("decrypt: {e}"))?.0;
    }
    let mut guard = 0;
    while m.is_compressed() && guard < 4 {
        m = m.decompress().map_err(|e| format!("decompress: {e}"))?;
        guard += 1;
    }
    let mut total = 0u64;
    loop {
        match m.read(scratch) {
            Ok(0) => break,
            Ok(n) => total += n as u64,
            Err(e) => return Err(format!("read after {total}: {e}")),
        }
    }
    Ok(total)
}

/// bzip2 runs at ~10 MB/s: its largest size is 64 MiB so that a case stays far below the watchdog
fn slow_cfg(cfg: &StreamCfg) -> bool {
    cfg.comp == Some(CompressionAlgorithm::BZip2)
}

const STREAM_ABS_CAP: u64 = 32 * MIB;
const STREAM_GROWTH: u64 = MIB;

fn w3(ctx: &mut Ctx) {
    let signer = zoo::key(&zoo::Spec::simple(false, zoo::Alg::Ed25519Legacy, None), 0);
    let mut scratch = vec![0u8; 64 * 1024];
    let mut cfgs: Vec<StreamCfg> = vec![];
    for comp in [None, Some(CompressionAlgorithm::ZIP)] {
        for enc in [Enc::Plain, Enc::V2(AeadAlgorithm::Ocb, ChunkSize::default()), Enc::V1] {
            cfgs.push(StreamCfg { comp, enc, signed: false });
        }
    }
    cfgs.push(StreamCfg { comp: None, enc: Enc::Plain, signed: true });
    if !ctx.quick() {
        cfgs.push(StreamCfg { comp: Some(CompressionAlgorithm::ZLIB), enc: Enc::V2(AeadAlgorithm::Gcm, ChunkSize::C64KiB), signed: true });
        cfgs.push(StreamCfg { comp: Some(CompressionAlgorithm::BZip2), enc: Enc::V1, signed: false });
        cfgs.push(StreamCfg { comp: None, enc: Enc::V2(AeadAlgorithm::Eax, ChunkSize::C4MiB), signed: false });
        cfgs.push(StreamCfg { comp: Some(CompressionAlgorithm::ZIP), enc: Enc::V2(AeadAlgorithm::Ocb, ChunkSize::C64B), signed: true });
    }
    let sizes: Vec<u64> = if ctx.quick() { vec![16 * MIB, 64 * MIB] } else { vec![16 * MIB, 64 * MIB, 256 * MIB] };

    for cfg in &cfgs {
        // documented fixed buffers of the configuration (not dependent on message size)
        let fixed: u64 = match cfg.enc {
            Enc::V2(_, c) => 3 * (c.as_byte_size() as u64 + 64),
            _ => 0,
        } + if cfg.comp == Some(CompressionAlgorithm::BZip2) { BZIP2_ALLOW } else { 0 };

        // (a) producer
        if ctx.mine() {
            describe_case(&format!("W3 builder {}", cfg.name()));
            let mut peaks: Vec<(u64, u64, u64)> = vec![];
            let mut failed = false;
            for &n in &sizes {
                if slow_cfg(cfg) && n > 64 * MIB {
                    continue;
                }
                describe_case(&format!("W3 builder {} payload {}", cfg.name(), n));
                let (r, st) = measure_alloc(|| {
                    crate::core::guard(|| {
                        let mut sink = CountSink(0);
                        build_stream(cfg, n, &signer, &mut sink).map(|_| sink.0)
                    })
                });
                ctx.eval();
                match r {
                    Ok(Ok(written)) if written >= n / 1024 => peaks.push((n, st.peak, written)),
                    Ok(Ok(w)) => {
                        ctx.inconclusive(format!("W3 builder {}: wrote only {w} octets for {n}", cfg.name()));
                        failed = true;
                    }
                    Ok(Err(e)) => {
                        ctx.inconclusive(format!("W3 builder {}: {e}", cfg.name()));
                        failed = true;
                    }
                    Err(p) => {
                        ctx.note(format!("W3 builder {} panicked at {} (see C04/C09)", cfg.name(), p.short_loc()));
                        failed = true;
                    }
                }
                dbg_line!("W3 build {:40} n={:10} peak={:10} total={} count={}", cfg.name(), n, st.peak, st.total, st.count);
                if failed {
                    break;
                }
            }
            if !failed {
                judge_stream(ctx, "builder", cfg, &peaks, fixed);
            }
            ctx.cover(&("W3b", cfg.name()));
            ctx.seen("W3.builder", cfg.name());
        }

        // (b) consumer: message prebuilt outside the measured region
        if ctx.mine() {
            describe_case(&format!("W3 reader {}", cfg.name()));
            let mut peaks: Vec<(u64, u64, u64)> = vec![];
            let mut failed = false;
            for (ni, &n) in sizes.iter().enumerate() {
                if slow_cfg(cfg) && n > 64 * MIB {
                    continue;
                }
                describe_case(&format!("W3 reader {} payload {}", cfg.name(), n));
                let mut data: Vec<u8> = Vec::new();
                if let Err(e) = build_stream(cfg, n, &signer, &mut data) {
                    ctx.inconclusive(format!("W3 reader {}: cannot build input: {e}", cfg.name()));
                    failed = true;
                    break;
                }
                // the options are built in a different way for every size (the streaming mode must survive all of them)
                ctx.seen("W3.reader.options", OPTS_VARIANTS[ni % OPTS_VARIANTS.len()]);
                let (r, st) = measure_alloc(|| crate::core::guard(|| read_stream_v(cfg, &data, Seipdv1ReadMode::Streaming, &mut scratch, ni)));
                ctx.eval();
                dbg_line!("W3 read  {:40} n={:10} msg={:10} peak={:10} total={} count={} -> {:?}", cfg.name(), n, data.len(), st.peak, st.total, st.count, r.as_ref().ok());
                match r {
                    Ok(Ok(got)) if got == n => peaks.push((n, st.peak, data.len() as u64)),
                    Ok(Ok(got)) => {
                        ctx.inconclusive(format!("W3 reader {}: released {got} of {n} octets (content is C01/C09's business)", cfg.name()));
                        failed = true;
                    }
                    Ok(Err(e)) => {
                        ctx.inconclusive(format!("W3 reader {}: {e}", cfg.name()));
                        failed = true;
                    }
                    Err(p) => {
                        ctx.note(format!("W3 reader {} panicked at {} (see C04/C09)", cfg.name(), p.short_loc()));
                        failed = true;
                    }
                }
                if failed {
                    break;
                }
            }
            if !failed {
                judge_stream(ctx, "reader", cfg, &peaks, fixed);
            }
            ctx.cover(&("W3r", cfg.name()));
            ctx.seen("W3.reader", cfg.name());
        }
    }

    // (c) SEIPDv1 in the default CheckFirst mode: whole-message buffering capped by the limit
    let limits: Vec<u64> = if ctx.quick() { vec![MIB, 4 * MIB] } else { vec![MIB, 4 * MIB, 32 * MIB] };
    for comp in [None, Some(CompressionAlgorithm::ZIP)] {
        for &l in &limits {
            if !ctx.mine() {
                continue;
            }
            let cfg = StreamCfg { comp, enc: Enc::V1, signed: false };
            describe_case(&format!("W3 checkfirst {} L={}", cfg.name(), l));
            // payload sizes relative to L; with compression the *ciphertext* size is what counts
            for (label, factor_num, factor_den) in [("quarter", 1u64, 4u64), ("below", 9, 10), ("above", 11, 10), ("4x", 4, 1), ("16x", 16, 1)] {
                if l > 4 * MIB && factor_num >= 16 {
                    continue;
                }
                describe_case(&format!("W3 checkfirst {} L={} message {}", cfg.name(), l, label));
                let target = l * factor_num / factor_den;
                // build with a payload that gives a ciphertext near the target
                let mut payload = target;
                let mut data: Vec<u8> = vec![];
                for _ in 0..6 {
                    data.clear();
                    if build_stream(&cfg, payload, &signer, &mut data).is_err() {
                        break;
                    }
                    let have = data.len() as u64;
                    if comp.is_none() || (have as f64 / target as f64 - 1.0).abs() < 0.03 {
                        break;
                    }
                    payload = (payload as f64 * target as f64 / have.max(1) as f64) as u64;
                }
                if data.is_empty() {
                    ctx.inconclusive("W3 checkfirst: cannot build input");
                    continue;
                }
                let clen = data.len() as u64;
                let mode = Seipdv1ReadMode::CheckFirst { max_message_size: l as usize };
                let (r, st) = measure_alloc(|| crate::core::guard(|| read_stream(&cfg, &data, mode, &mut scratch)));
                ctx.eval();
                dbg_line!("W3 checkfirst {:20} L={:9} {:8} ciphertext={:10} peak={:10} -> {:?}", cfg.name(), l, label, clen, st.peak, r.as_ref().map(|x| x.as_ref().map_err(|e| e.chars().take(60).collect::<String>())).ok());
                let Ok(r) = r else {
                    ctx.note("W3 checkfirst panicked (see C04)");
                    continue;
                };
                let replay = json!({"config": cfg.name(), "limit": l, "ciphertext_bytes": clen, "payload": payload});
                let slack = 4096; // SKESK, headers, prefix, MDC
                if clen > l + slack && r.is_ok() {
                    ctx.violation(
                        format!("C19/W3/checkfirst-limit-not-enforced/{}", cfg.name()),
                        format!("SEIPDv1 CheckFirst with max_message_size {l} decrypted a message of {clen} ciphertext octets"),
                        replay.clone(),
                    );
                }
                if clen + slack < l && r.is_err() {
                    // refusing a message below the limit is not a resource violation; recorded only
                    ctx.note(format!("W3 checkfirst: message of {clen} octets below limit {l} was refused: {:?}", r.as_ref().err()));
                    ctx.tally("W3.checkfirst.below-limit-refused", 1);
                }
                let bound = 2 * l + W1_C0 + if comp.is_some() { 256 * KIB } else { 0 };
                if st.peak > bound {
                    ctx.violation(
                        format!("C19/W3/checkfirst-peak-exceeds-2L/{}", cfg.name()),
                        format!("peak allocation {} with max_message_size {l} (bound 2*L + 256 KiB = {bound}), ciphertext {clen} octets, result ok={}", st.peak, r.is_ok()),
                        replay.clone(),
                    );
                }
                ctx.tally(if r.is_ok() { "W3.checkfirst.accepted" } else { "W3.checkfirst.refused" }, 1);
                ctx.cover(&("W3c", cfg.name(), l, label));
                // the limit holds however the options were put together
                if clen > l + slack {
                    for v in 1..OPTS_VARIANTS.len() {
                        let (r, st) = measure_alloc(|| crate::core::guard(|| read_stream_v(&cfg, &data, mode, &mut scratch, v)));
                        ctx.eval();
                        ctx.seen("W3.checkfirst.options", OPTS_VARIANTS[v]);
                        let Ok(r) = r else { continue };
                        if r.is_ok() {
                            ctx.violation(
                                format!("C19/W3/checkfirst-limit-not-enforced/options-{}", OPTS_VARIANTS[v]),
                                format!("SEIPDv1 CheckFirst with max_message_size {l} (options built as {}) decrypted a message of {clen} ciphertext octets", OPTS_VARIANTS[v]),
                                json!({"config": cfg.name(), "limit": l, "ciphertext_bytes": clen, "options": OPTS_VARIANTS[v]}),
                            );
                        } else if st.peak > bound {
                            ctx.violation(
                                format!("C19/W3/checkfirst-peak-exceeds-2L/options-{}", OPTS_VARIANTS[v]),
                                format!("peak allocation {} with max_message_size {l} (options built as {}), ciphertext {clen} octets", st.peak, OPTS_VARIANTS[v]),
                                json!({"config": cfg.name(), "limit": l, "ciphertext_bytes": clen, "options": OPTS_VARIANTS[v]}),
                            );
                        }
                    }
                }
            }
            ctx.seen("W3.checkfirst", format!("{}@{}", cfg.name(), l));
        }
    }
}

fn judge_stream(ctx: &mut Ctx, side: &str, cfg: &StreamCfg, peaks: &[(u64, u64, u64)], fixed: u64) {
    let series: Vec<_> = peaks.iter().map(|(n, p, w)| json!({"payload": n, "peak": p, "message_bytes": w})).collect();
    let base = peaks[0].1;
    for (n, p, _) in &peaks[1..] {
        if *p > base + STREAM_GROWTH {
            ctx.violation(
                format!("C19/W3/{side}-peak-grows-with-message/{}", cfg.name()),
                format!("peak allocation {p} for {n} payload octets vs {base} for {} (allowed growth 1 MiB): {}", peaks[0].0, serde_json::to_string(&series).unwrap()),
                json!({"side": side, "config": cfg.name(), "series": series}),
            );
            break;
        }
    }
    let worst = peaks.iter().map(|x| x.1).max().unwrap_or(0);
    if worst > STREAM_ABS_CAP + fixed {
        ctx.violation(
            format!("C19/W3/{side}-peak-absolute/{}", cfg.name()),
            format!("peak allocation {worst} exceeds 32 MiB + documented buffers {fixed}: {}", serde_json::to_string(&series).unwrap()),
            json!({"side": side, "config": cfg.name(), "series": series}),
        );
    }
    ctx.seen(&format!("W3.{side}.peak(bucket)"), format!("{}: <= {} KiB", cfg.name(), (worst.div_ceil(KIB)).next_power_of_two()));
    if ctx.samples.len() < 4 {
        ctx.sample(json!({"family": "W3", "side": side, "config": cfg.name(), "series": series}));
    }
}

// ------------------------------------------------------------------------------------------
// W3s: streaming — every public way of consuming a message.
//
// W3 (b) measures the plain `read` loop only. "Streaming a message keeps a bounded buffer regardless
// of message size" is a statement about the message, whatever API the application consumes it with:
// here every consumer the public API offers that does not hand the data back in one piece
// (`read` with large / small buffers, `BufRead::fill_buf`/`consume` whole and partial, `io::copy`,
// `Read::take` + drop, `verify_read`, read + `verify`/`verify_nested_explicit`, read + `verify_nested`,
// `Edata::decrypt*` + read / fill_buf) is run over signed / compressed / encrypted / armored /
// combined messages of two (thorough: three) sizes, opened through every decryption entry point
// and option set, from a small-window and from a whole-slice source. Same criterion as W3.
// `as_data_vec` / `as_data_string` / `read_to_end` are excluded: they return the data.

#[derive(Clone, Copy, Debug, PartialEq, Eq)]
enum Cont {
    Plain,
    V1,
    V2(AeadAlgorithm, ChunkSize),
    /// legacy tag 9 container, made by the reference (the library cannot produce it)
    Sed,
    /// GnuPG/LibrePGP OCB container (tag 20) with this chunk-size octet, made by the reference
    G20(u8),
}

#[derive(Clone, Copy, Debug)]
struct ConsCfg {
    comp: Option<CompressionAlgorithm>,
    cont: Cont,
    nsig: usize,
    text: bool,
    armored: bool,
}

impl ConsCfg {
    fn name(&self) -> String {
        format!(
            "{}/{}{}{}",
            match self.comp {
                None => "none".to_string(),
                Some(c) => format!("{c:?}"),
            },
            match self.cont {
                Cont::Plain => "plain".to_string(),
                Cont::V1 => "seipd1".to_string(),
                Cont::V2(a, c) => format!("seipd2-{a:?}-{c:?}"),
                Cont::Sed => "sed".to_string(),
                Cont::G20(c) => format!("gnupg-ocb-c{c}"),
            },
            match (self.nsig, self.text) {
                (0, _) => "".to_string(),
                (1, false) => "/signed".to_string(),
                (1, true) => "/signed-text".to_string(),
                (n, false) => format!("/signed-x{n}"),
                (n, true) => format!("/signed-text-x{n}"),
            },
            if self.armored { "/armored" } else { "" }
        )
    }
    /// documented buffers that do not depend on the size of the message
    fn fixed(&self) -> u64 {
        (match self.cont {
            Cont::V2(_, c) => 3 * (c.as_byte_size() as u64 + 64),
            Cont::G20(c) => 3 * ((1u64 << (c as u32 + 6)) + 64),
            _ => 0,
        }) + if self.comp == Some(CompressionAlgorithm::BZip2) { BZIP2_ALLOW } else { 0 }
    }
    /// bzip2 runs at ~10 MB/s: its largest size is 64 MiB
    fn slow(&self) -> bool {
        self.comp == Some(CompressionAlgorithm::BZip2)
    }
    /// configurations that are too slow per octet for the consumer x route-kind cross product
    fn cross_ok(&self) -> bool {
        !self.slow() && !matches!(self.cont, Cont::V2(_, ChunkSize::C64B))
    }
}

struct ConsKeys {
    signers: Vec<SignedSecretKey>,
    verifiers: Vec<SignedPublicKey>,
    recipient: SignedSecretKey,
    recipient_pub: SignedPublicKey,
}

/// LibrePGP OCB encrypted data packet body, version 1 (draft-koch-librepgp 5.16): the session key is
/// used directly; nonce = IV with its low eight octets XORed with the chunk index; associated data
/// 0xD4 01 sym 02 chunk-octet index (final tag: + total plaintext octets).
fn gnupg_ocb_encrypt(sym: u8, chunk_octet: u8, iv: &[u8; 15], key: &[u8], data: &[u8]) -> Option<Vec<u8>> {
    let cs = 1usize << (chunk_octet as usize + 6);
    let mut out = Vec::with_capacity(data.len() + data.len() / cs * 16 + 64);
    out.extend_from_slice(&[1u8, sym, 2, chunk_octet]);
    out.extend_from_slice(iv);
    let nonce_for = |idx: u64| {
        let mut n = iv.to_vec();
        for (i, b) in idx.to_be_bytes().iter().enumerate() {
            n[7 + i] ^= b;
        }
        n
    };
    let ad_for = |idx: u64| {
        let mut ad = vec![0xD4u8, 1, sym, 2, chunk_octet];
        ad.extend(idx.to_be_bytes());
        ad
    };
    let mut idx = 0u64;
    for c in data.chunks(cs) {
        out.extend(rfc::sym::aead_seal(sym, 2, key, &nonce_for(idx), &ad_for(idx), c)?);
        idx += 1;
    }
    let mut ad = ad_for(idx);
    ad.extend((data.len() as u64).to_be_bytes());
    out.extend(rfc::sym::aead_seal(sym, 2, key, &nonce_for(idx), &ad, &[])?);
    Some(out)
}

/// Builds the message of a consumer configuration (outside every measured region).
fn build_cons(cfg: &ConsCfg, total: u64, k: &ConsKeys) -> Result<Vec<u8>, String> {
    match cfg.cont {
        Cont::Sed | Cont::G20(_) => {
            let inner_cfg = ConsCfg { cont: Cont::Plain, armored: false, ..*cfg };
            let inner = build_cons(&inner_cfg, total, k)?;
            let (tag, body) = match cfg.cont {
                Cont::Sed => (9u8, rfc::sym::sed_encrypt(7, &SK16, &[0x42; 16], &inner)),
                Cont::G20(c) => (20u8, gnupg_ocb_encrypt(7, c, &[0x24; 15], &SK16, &inner)),
                _ => unreachable!(),
            };
            drop(inner);
            let body = body.ok_or("reference encryption failed")?;
            let mut out = hdr_new5(tag, u32::try_from(body.len()).map_err(|_| "too long")?);
            out.reserve_exact(body.len());
            out.extend_from_slice(&body);
            Ok(out)
        }
        _ => {
            let mut out: Vec<u8> = Vec::new();
            build_cons_lib(cfg, total, k, &mut out).map_err(|e| format!("build: {e}"))?;
            Ok(out)
        }
    }
}

fn build_cons_lib(cfg: &ConsCfg, total: u64, k: &ConsKeys, out: &mut Vec<u8>) -> pgp::errors::Result<()> {
    let src = PatternSource::new(total, 11);
    let b = MessageBuilder::from_reader("", src);
    let pw = Password::from("pw");
    macro_rules! finish {
        ($b:ident) => {{
            if let Some(c) = cfg.comp {
                $b.compression(c);
            }
            if cfg.text {
                // the pattern source is printable ASCII without line ends: one long line
                $b.sign_text();
                $b.data_mode(DataMode::Utf8)?;
            }
            for s in k.signers.iter().take(cfg.nsig) {
                $b.sign(&s.primary_key, Password::empty(), HashAlgorithm::Sha256);
            }
            if cfg.armored {
                $b.to_armored_writer(ChaCha8Rng::seed_from_u64(3), ArmorOptions::default(), out)
            } else {
                $b.to_writer(ChaCha8Rng::seed_from_u64(3), out)
            }
        }};
    }
    match cfg.cont {
        Cont::V1 => {
            let mut b = b.seipd_v1(ChaCha8Rng::seed_from_u64(4), SymmetricKeyAlgorithm::AES128);
            b.set_session_key(SK16.to_vec().into())?;
            b.encrypt_with_password(cheap_s2k(), &pw)?;
            b.encrypt_to_key(ChaCha8Rng::seed_from_u64(6), &k.recipient_pub.public_subkeys[0])?;
            finish!(b)
        }
        Cont::V2(aead, chunk) => {
            let mut b = b.seipd_v2(ChaCha8Rng::seed_from_u64(4), SymmetricKeyAlgorithm::AES128, aead, chunk);
            b.set_session_key(SK16.to_vec().into())?;
            b.encrypt_with_password(ChaCha8Rng::seed_from_u64(5), cheap_s2k(), &pw)?;
            b.encrypt_to_key(ChaCha8Rng::seed_from_u64(6), &k.recipient_pub.public_subkeys[0])?;
            finish!(b)
        }
        _ => {
            let mut b = b;
            finish!(b)
        }
    }
}

/// how an encrypted message is opened
#[derive(Clone, Copy, Debug, PartialEq, Eq, Hash)]
enum Route {
    NotEncrypted,
    /// `decrypt_the_ring` with a session key / the message password / the recipient key, options
    /// assembled as OPTS_VARIANTS[i] (SEIPDv1 in streaming mode)
    RingSessionKey(usize),
    RingPassword(usize),
    RingSecretKey(usize),
    /// the convenience entry points (default options)
    SessionKeyDefault,
    PasswordDefault,
    SecretKeyDefault,
}

impl Route {
    fn kind(&self) -> &'static str {
        match self {
            Route::NotEncrypted => "not-encrypted",
            Route::RingSessionKey(_) => "decrypt_the_ring(session-key)",
            Route::RingPassword(_) => "decrypt_the_ring(password)",
            Route::RingSecretKey(_) => "decrypt_the_ring(secret-key)",
            Route::SessionKeyDefault => "decrypt_with_session_key",
            Route::PasswordDefault => "decrypt_with_password",
            Route::SecretKeyDefault => "decrypt(secret-key)",
        }
    }
    fn variant(&self) -> Option<usize> {
        match self {
            Route::RingSessionKey(v) | Route::RingPassword(v) | Route::RingSecretKey(v) => Some(*v),
            _ => None,
        }
    }
    fn name(&self) -> String {
        match self.variant() {
            Some(v) => format!("{}[{}]", self.kind(), OPTS_VARIANTS[v]),
            None => self.kind().to_string(),
        }
    }
}

/// option sets that enable the container at all
fn variants_for(cont: Cont) -> &'static [usize] {
    match cont {
        Cont::Sed => &[2, 3, 4, 5],    // those with enable_legacy
        Cont::G20(_) => &[1, 3, 4, 5], // those with enable_gnupg_aead
        _ => &[0, 1, 2, 3, 4, 5],
    }
}

/// the route kinds of a container, `v` filled in by the caller. SEIPDv1 through the convenience
/// entry points is the documented whole-message buffering (CheckFirst with the default limit): not
/// a streaming path, covered by W3 (c).
fn route_kinds(cont: Cont) -> Vec<fn(usize) -> Route> {
    match cont {
        Cont::Plain => vec![|_| Route::NotEncrypted],
        Cont::V1 => vec![Route::RingSessionKey, Route::RingPassword, Route::RingSecretKey],
        Cont::V2(..) => vec![
            |_| Route::SessionKeyDefault,
            Route::RingPassword,
            |_| Route::SecretKeyDefault,
            Route::RingSessionKey,
            |_| Route::PasswordDefault,
            Route::RingSecretKey,
        ],
        Cont::Sed | Cont::G20(_) => vec![Route::RingSessionKey],
    }
}

fn session_key_for(cont: Cont) -> PlainSessionKey {
    match cont {
        Cont::V2(..) => PlainSessionKey::V6 { key: SK16.to_vec().into() },
        Cont::G20(_) => PlainSessionKey::V5 { key: SK16.to_vec().into() },
        _ => PlainSessionKey::V3_4 { sym_alg: SymmetricKeyAlgorithm::AES128, key: SK16.to_vec().into() },
    }
}

#[derive(Clone, Copy, Debug, PartialEq, Eq, Hash)]
enum Cons {
    Read64K,
    ReadSmall,
    BufAll,
    BufPart,
    IoCopy,
    TakePrefix,
    VerifyRead,
    ReadVerify,
    ReadVerifyNested,
    EdataRead,
    EdataBuf,
}

impl Cons {
    const ALL: [Cons; 11] = [
        Cons::Read64K,
        Cons::ReadSmall,
        Cons::BufAll,
        Cons::BufPart,
        Cons::IoCopy,
        Cons::TakePrefix,
        Cons::VerifyRead,
        Cons::ReadVerify,
        Cons::ReadVerifyNested,
        Cons::EdataRead,
        Cons::EdataBuf,
    ];
    fn name(&self) -> &'static str {
        match self {
            Cons::Read64K => "read-64KiB",
            Cons::ReadSmall => "read-509B",
            Cons::BufAll => "fill_buf+consume-all",
            Cons::BufPart => "fill_buf+consume-part",
            Cons::IoCopy => "io-copy",
            Cons::TakePrefix => "take-256KiB+drop",
            Cons::VerifyRead => "verify_read",
            Cons::ReadVerify => "read+verify",
            Cons::ReadVerifyNested => "fill_buf+verify_nested",
            Cons::EdataRead => "edata-decrypt+read",
            Cons::EdataBuf => "edata-decrypt+fill_buf",
        }
    }
    fn needs_signature(&self) -> bool {
        matches!(self, Cons::VerifyRead | Cons::ReadVerify | Cons::ReadVerifyNested)
    }
    fn on_edata(&self) -> bool {
        matches!(self, Cons::EdataRead | Cons::EdataBuf)
    }
    fn applies(&self, cfg: &ConsCfg) -> bool {
        (!self.needs_signature() || cfg.nsig > 0) && (!self.on_edata() || cfg.cont != Cont::Plain)
    }
}

const TAKE_PREFIX: u64 = 256 * KIB;

#[derive(Clone, Copy, Debug, PartialEq, Eq, Hash)]
enum Src {
    /// `BufReader` (8 KiB windows) over the message
    Windowed,
    /// the slice itself: `fill_buf` hands out everything that is left
    WholeSlice,
}

#[derive(Clone, Copy, Debug)]
struct Pipeline {
    cons: Cons,
    route: Route,
    src: Src,
    /// also run at the largest size of the thorough tier
    big: bool,
}

fn read_all<R: Read>(r: &mut R, scratch: &mut [u8]) -> Result<u64, String> {
    let mut total = 0u64;
    loop {
        match r.read(scratch) {
            Ok(0) => return Ok(total),
            Ok(n) => total += n as u64,
            Err(e) => return Err(format!("read after {total}: {e}")),
        }
    }
}

fn bufread_all<R: std::io::BufRead>(r: &mut R, part: bool) -> Result<u64, String> {
    let mut total = 0u64;
    loop {
        let n = match r.fill_buf() {
            Ok(b) => b.len(),
            Err(e) => return Err(format!("fill_buf after {total}: {e}")),
        };
        if n == 0 {
            return Ok(total);
        }
        let n = if part { 1 + n / 3 } else { n };
        r.consume(n);
        total += n as u64;
    }
}

struct Consumed {
    octets: u64,
    /// Some(valid) when the consumer verifies
    verified: Option<bool>,
}

/// One complete pipeline: parse, open the containers, consume. Everything allocated here is
/// attributed to the library (the harness allocates nothing but short error texts).
fn run_pipeline(cfg: &ConsCfg, p: &Pipeline, data: &[u8], k: &ConsKeys, scratch: &mut [u8]) -> Result<Consumed, String> {
    let mut m = match (cfg.armored, p.src) {
        (false, Src::Windowed) => Message::from_bytes(BufReader::new(data)),
        (false, Src::WholeSlice) => Message::from_bytes(data),
        // armored input: the explicit and the sniffing entry point, alternating with the source
        (true, Src::Windowed) => Message::from_armor(BufReader::new(data)).map(|x| x.0),
        (true, Src::WholeSlice) => Message::from_reader(data).map(|x| x.0),
    }
    .map_err(|e| format!("parse: {e}"))?;

    let pw = Password::from("pw");
    let key_pw = Password::empty();
    if p.cons.on_edata() {
        let Message::Encrypted { mut edata, .. } = m else {
            return Err("not an encrypted message at the top".into());
        };
        let key = session_key_for(cfg.cont);
        match p.route.variant() {
            Some(v) => edata.decrypt_with_options(&key, mk_opts(Seipdv1ReadMode::Streaming, v)),
            None => edata.decrypt(&key),
        }
        .map_err(|e| format!("edata decrypt: {e}"))?;
        let octets = if p.cons == Cons::EdataRead { read_all(&mut edata, scratch)? } else { bufread_all(&mut edata, false)? };
        return Ok(Consumed { octets, verified: None });
    }
    if m.is_encrypted() {
        let ring_with = |v: usize| TheRing { decrypt_options: mk_opts(Seipdv1ReadMode::Streaming, v), ..Default::default() };
        m = match p.route {
            Route::NotEncrypted => return Err("unexpected encrypted message".into()),
            Route::RingSessionKey(v) => m.decrypt_the_ring(TheRing { session_keys: vec![session_key_for(cfg.cont)], ..ring_with(v) }, true).map(|x| x.0),
            Route::RingPassword(v) => m.decrypt_the_ring(TheRing { message_password: vec![&pw], ..ring_with(v) }, v % 2 == 0).map(|x| x.0),
            Route::RingSecretKey(v) => {
                m.decrypt_the_ring(TheRing { secret_keys: vec![&k.recipient], key_passwords: vec![&key_pw], ..ring_with(v) }, v % 2 == 1).map(|x| x.0)
            }
            Route::SessionKeyDefault => m.decrypt_with_session_key(session_key_for(cfg.cont)),
            Route::PasswordDefault => m.decrypt_with_password(&pw),
            Route::SecretKeyDefault => m.decrypt(&key_pw, &k.recipient),
        }
        .map_err(|e| format!("decrypt via {}: {e}", p.route.name()))?;
    }
    let mut guard = 0;
    while m.is_compressed() && guard < 4 {
        m = m.decompress().map_err(|e| format!("decompress: {e}"))?;
        guard += 1;
    }

    let v0: &dyn VerifyingKey = &k.verifiers[0];
    let any_valid = |m: &Message<'_>| (0..cfg.nsig).any(|i| k.verifiers.iter().take(cfg.nsig).any(|vk| m.verify_nested_explicit(i, vk).is_ok()));
    let (octets, verified) = match p.cons {
        Cons::Read64K => (read_all(&mut m, scratch)?, None),
        Cons::ReadSmall => (read_all(&mut m, &mut scratch[..509])?, None),
        Cons::BufAll => (bufread_all(&mut m, false)?, None),
        Cons::BufPart => (bufread_all(&mut m, true)?, None),
        Cons::IoCopy => (std::io::copy(&mut m, &mut std::io::sink()).map_err(|e| format!("io::copy: {e}"))?, None),
        Cons::TakePrefix => {
            // the defensive pattern of the documentation: limit the reader, then give up on the rest
            let mut t = (&mut m).take(TAKE_PREFIX);
            let n = read_all(&mut t, scratch)?;
            (n, None)
        }
        Cons::VerifyRead => {
            let ok = m.verify_read(v0).is_ok() || any_valid(&m);
            // the payload size is not returned by this entry point
            (u64::MAX, Some(ok))
        }
        Cons::ReadVerify => {
            let n = read_all(&mut m, scratch)?;
            let ok = m.verify(v0).is_ok() || any_valid(&m);
            (n, Some(ok))
        }
        Cons::ReadVerifyNested => {
            let n = bufread_all(&mut m, false)?;
            let keys: [&dyn VerifyingKey; 2] = [&k.verifiers[0], &k.verifiers[1]];
            let res = m.verify_nested(&keys[..cfg.nsig.clamp(1, 2)]).map_err(|e| format!("verify_nested: {e}"))?;
            let ok = !res.is_empty() && res.iter().all(|r| matches!(r, VerificationResult::Valid(_)));
            (n, Some(ok))
        }
        Cons::EdataRead | Cons::EdataBuf => unreachable!(),
    };
    drop(m);
    Ok(Consumed { octets, verified })
}

/// the pipelines of one configuration: every applicable consumer once, routes / option sets / source
/// shapes rotating with a seed dependent offset (quick); thorough: every consumer x every route kind.
fn pipelines(cfg: &ConsCfg, off: usize, cross: bool) -> Vec<Pipeline> {
    let kinds = route_kinds(cfg.cont);
    let vars = variants_for(cfg.cont);
    let mut out = vec![];
    for (slot, cons) in Cons::ALL.iter().filter(|c| c.applies(cfg)).enumerate() {
        let s = slot + off;
        out.push(Pipeline {
            cons: *cons,
            route: kinds[s % kinds.len()](vars[(s / kinds.len() + s) % vars.len()]),
            src: if s % 2 == 0 { Src::Windowed } else { Src::WholeSlice },
            big: true,
        });
        if cross {
            for j in 1..kinds.len() {
                let s2 = s + j;
                out.push(Pipeline {
                    cons: *cons,
                    route: kinds[s2 % kinds.len()](vars[(s2 / kinds.len() + s + 2 * j) % vars.len()]),
                    src: if (s + j / 2) % 2 == 1 { Src::Windowed } else { Src::WholeSlice },
                    big: false,
                });
            }
        }
    }
    out
}

fn w3_consumers(ctx: &mut Ctx) {
    let spec = zoo::Spec::simple(false, zoo::Alg::Ed25519Legacy, None);
    let signers = vec![zoo::key(&spec, 0), zoo::key(&spec, 1)];
    let recipient = zoo::key(&zoo::Spec::simple(false, zoo::Alg::Ed25519Legacy, Some(zoo::Alg::EcdhCv25519)), 0);
    let keys = ConsKeys {
        verifiers: signers.iter().map(|s| s.to_public_key()).collect(),
        signers,
        recipient_pub: recipient.to_public_key(),
        recipient,
    };
    let mut scratch = vec![0u8; 64 * 1024];
    let ocb = Cont::V2(AeadAlgorithm::Ocb, ChunkSize::default());
    let zip = Some(CompressionAlgorithm::ZIP);
    let c = |comp, cont, nsig, text, armored| ConsCfg { comp, cont, nsig, text, armored };
    // (the order only spreads the expensive configurations over the shards)
    let mut cfgs: Vec<ConsCfg> = vec![
        c(zip, Cont::V1, 2, false, false),
        c(zip, Cont::Plain, 1, true, false),
        c(None, Cont::Plain, 0, false, false),
        c(None, Cont::Plain, 1, false, false),
        c(None, Cont::Sed, 1, false, false),
        c(None, Cont::G20(6), 0, false, false),
        c(None, ocb, 1, false, false),
        c(zip, ocb, 0, false, false),
        c(None, Cont::Plain, 2, false, true),
    ];
    if !ctx.quick() {
        cfgs.push(c(Some(CompressionAlgorithm::ZLIB), Cont::V2(AeadAlgorithm::Gcm, ChunkSize::C64KiB), 1, true, false));
        cfgs.push(c(None, Cont::V1, 1, false, true));
        cfgs.push(c(Some(CompressionAlgorithm::BZip2), Cont::Plain, 1, false, false));
        cfgs.push(c(None, Cont::V2(AeadAlgorithm::Eax, ChunkSize::C4MiB), 0, false, false));
        cfgs.push(c(zip, Cont::V2(AeadAlgorithm::Ocb, ChunkSize::C64B), 2, false, false));
        cfgs.push(c(zip, Cont::G20(10), 1, false, false));
        cfgs.push(c(zip, Cont::Plain, 0, false, true));
    }
    let sizes: Vec<u64> = if ctx.quick() { vec![16 * MIB, 64 * MIB] } else { vec![16 * MIB, 64 * MIB, 256 * MIB] };

    for (ci, cfg) in cfgs.iter().enumerate() {
        if !ctx.mine() {
            continue;
        }
        let name = cfg.name();
        describe_case(&format!("W3 consumers {name}"));
        let (off, jitter) = {
            let mut r = ctx.rng("W3s", ci as u64);
            (r.gen_range(0..60usize), r.gen_range(0..8192u64))
        };
        let pls = pipelines(cfg, off, !ctx.quick() && cfg.cross_ok());
        // peaks[pipeline] = (payload, peak, message octets) per size
        let mut peaks: Vec<Vec<(u64, u64, u64)>> = vec![vec![]; pls.len()];
        let mut failed: Vec<bool> = vec![false; pls.len()];
        for (si, &size) in sizes.iter().enumerate() {
            if cfg.slow() && size > 64 * MIB {
                continue;
            }
            // not a multiple of any buffer size (the same for every pipeline of the configuration)
            let n = size + jitter;
            describe_case(&format!("W3 consumers {name}: building payload {n}"));
            let data = match build_cons(cfg, n, &keys) {
                Ok(d) => d,
                Err(e) => {
                    ctx.inconclusive(format!("W3 consumers {name}: cannot build input: {e}"));
                    failed.iter_mut().for_each(|f| *f = true);
                    break;
                }
            };
            for (pi, p) in pls.iter().enumerate() {
                if failed[pi] || (si >= 2 && !p.big) {
                    continue;
                }
                describe_case(&format!("W3 consumers {name}: {} via {} ({:?}) payload {n}", p.cons.name(), p.route.name(), p.src));
                let (r, st) = measure_alloc(|| crate::core::guard(|| run_pipeline(cfg, p, &data, &keys, &mut scratch)));
                ctx.eval();
                dbg_line!("W3s {:34} {:24} {:45} {:10?} n={:10} msg={:10} peak={:10} total={} count={} -> {:?}", name, p.cons.name(), p.route.name(), p.src, n, data.len(), st.peak, st.total, st.count, r.as_ref().ok().map(|x| x.as_ref().map(|c| (c.octets, c.verified))));
                let expect = match p.cons {
                    Cons::TakePrefix => n.min(TAKE_PREFIX),
                    _ => n,
                };
                match r {
                    Ok(Ok(c)) => {
                        let size_ok = match p.cons {
                            Cons::VerifyRead => true,
                            // the decrypted packet stream: the payload plus framing (or its compressed form)
                            Cons::EdataRead | Cons::EdataBuf => c.octets >= if cfg.comp.is_some() { expect / 64 } else { expect },
                            _ => c.octets == expect,
                        };
                        if !size_ok {
                            ctx.inconclusive(format!("W3 consumers {name}/{}: released {} of {expect} octets (content is C01/C09's business)", p.cons.name(), c.octets));
                            failed[pi] = true;
                        } else if c.verified == Some(false) {
                            ctx.inconclusive(format!("W3 consumers {name}/{}: the signature did not verify (C09's business)", p.cons.name()));
                            failed[pi] = true;
                        } else {
                            peaks[pi].push((n, st.peak, data.len() as u64));
                        }
                    }
                    Ok(Err(e)) => {
                        ctx.inconclusive(format!("W3 consumers {name}/{} via {}: {e}", p.cons.name(), p.route.name()));
                        failed[pi] = true;
                    }
                    Err(pn) => {
                        ctx.note(format!("W3 consumers {name}/{} panicked at {} (see C04/C09)", p.cons.name(), pn.short_loc()));
                        failed[pi] = true;
                    }
                }
            }
        }
        let mut worst_all = 0u64;
        for (pi, p) in pls.iter().enumerate() {
            if failed[pi] || peaks[pi].len() < 2 {
                continue;
            }
            worst_all = worst_all.max(judge_consumer(ctx, cfg, p, &peaks[pi]));
            ctx.cover(&("W3s", &name, p.cons, p.route, p.src));
            ctx.seen("W3.consumer", p.cons.name());
            ctx.seen("W3.consumer.routes", p.route.kind());
            if let Some(v) = p.route.variant() {
                ctx.seen("W3.consumer.options", OPTS_VARIANTS[v]);
            }
            ctx.seen("W3.consumer.sources", format!("{:?}{}", p.src, if cfg.armored { "/armored" } else { "" }));
            ctx.tally("W3.consumer.pipelines-judged", 1);
        }
        ctx.seen("W3.consumer.configs", name.clone());
        ctx.seen("W3.consumer.peak(bucket)", format!("{name}: <= {} KiB", (worst_all.div_ceil(KIB)).next_power_of_two()));
    }
}

/// Same criterion as `judge_stream`; returns the worst peak.
fn judge_consumer(ctx: &mut Ctx, cfg: &ConsCfg, p: &Pipeline, peaks: &[(u64, u64, u64)]) -> u64 {
    let series: Vec<_> = peaks.iter().map(|(n, p, w)| json!({"payload": n, "peak": p, "message_bytes": w})).collect();
    let replay = || json!({"config": cfg.name(), "consumer": p.cons.name(), "route": p.route.name(), "source": format!("{:?}", p.src), "series": series});
    let base = peaks[0].1;
    for (n, pk, _) in &peaks[1..] {
        if *pk > base + STREAM_GROWTH {
            ctx.violation(
                format!("C19/W3/consumer-peak-grows-with-message/{}/{}", p.cons.name(), cfg.name()),
                format!(
                    "{} (opened via {}, source {:?}): peak allocation {pk} for {n} payload octets vs {base} for {} (allowed growth 1 MiB): {}",
                    p.cons.name(),
                    p.route.name(),
                    p.src,
                    peaks[0].0,
                    serde_json::to_string(&series).unwrap()
                ),
                replay(),
            );
            break;
        }
    }
    let worst = peaks.iter().map(|x| x.1).max().unwrap_or(0);
    if worst > STREAM_ABS_CAP + cfg.fixed() {
        ctx.violation(
            format!("C19/W3/consumer-peak-absolute/{}/{}", p.cons.name(), cfg.name()),
            format!("{} (opened via {}): peak allocation {worst} exceeds 32 MiB + documented buffers {}: {}", p.cons.name(), p.route.name(), cfg.fixed(), serde_json::to_string(&series).unwrap()),
            replay(),
        );
    }
    if ctx.samples.len() < 4 && p.cons.needs_signature() {
        ctx.sample(json!({"family": "W3s", "case": replay()}));
    }
    worst
}

// ------------------------------------------------------------------------------------------
// W4: key-derivation ceilings

#[derive(Clone, Copy, Debug, PartialEq, Eq)]
enum A2Class {
    OverCeiling,
    Malformed,
    ValidCheap,
    ValidExpensive,
}

/// RFC 9580 3.7.1.4 + the ceiling documented in `types/s2k.rs` (t <= 32, p <= 32, m <= 2^21 KiB)
fn a2_class(t: u8, p: u8, m: u8) -> A2Class {
    if t > 32 || p > 32 || (m > 21 && m <= 31) {
        return A2Class::OverCeiling;
    }
    if t == 0 || p == 0 || m > 31 || (1u64 << m) < 8 * p as u64 {
        return A2Class::Malformed;
    }
    if m <= 10 && t <= 2 {
        A2Class::ValidCheap
    } else {
        A2Class::ValidExpensive
    }
}

/// iterated+salted S2K written from RFC 9580 3.7.1.3, streaming (no big buffers)
fn ref_iterated<D: digest::Digest>(salt: &[u8; 8], pw: &[u8], code: u8, key_len: usize) -> Vec<u8> {
    let count = (16usize + (code as usize & 15)) << ((code as usize >> 4) + 6);
    let mut unit = salt.to_vec();
    unit.extend_from_slice(pw);
    let total = count.max(unit.len());
    let hl = <D as digest::Digest>::output_size();
    let mut out = vec![];
    let mut round = 0usize;
    while out.len() < key_len {
        let mut h = D::new();
        h.update(vec![0u8; round]);
        let mut left = total;
        while left >= unit.len() {
            h.update(&unit);
            left -= unit.len();
        }
        h.update(&unit[..left]);
        out.extend_from_slice(&h.finalize());
        round += 1;
        let _ = hl;
    }
    out.truncate(key_len);
    out
}

fn skesk4_body(sym: u8, s2k: &[u8]) -> Vec<u8> {
    let mut b = vec![4u8, sym];
    b.extend_from_slice(s2k);
    b
}
fn skesk6_body(sym: u8, aead: u8, s2k: &[u8]) -> Vec<u8> {
    // version, count of following 5 fields, sym, aead, s2k len, s2k, iv(15 for OCB), esk+tag
    let ivlen = 15usize;
    let mut b = vec![6u8, (3 + s2k.len() + ivlen) as u8, sym, aead, s2k.len() as u8];
    b.extend_from_slice(s2k);
    b.extend(vec![0x21u8; ivlen]);
    b.extend(vec![0x43u8; 16 + 16]);
    b
}
fn secret_key_aead(pubpart: &[u8], v6: bool, s2k: &[u8]) -> Vec<u8> {
    let mut b = pubpart.to_vec();
    b.push(253);
    if v6 {
        b.push((3 + s2k.len() + 15) as u8);
    }
    b.push(7);
    b.push(2);
    if v6 {
        b.push(s2k.len() as u8);
    }
    b.extend_from_slice(s2k);
    b.extend(vec![0x21u8; 15]);
    b.extend(vec![0x43u8; 32 + 16]);
    b
}

/// first packet of the given kind in a byte string
fn first_packet(data: &[u8]) -> Option<Packet> {
    PacketParser::new(data).next().and_then(|p| p.ok())
}

/// What one derivation did: status (0 = Err, 1 = Ok), peak, cpu seconds, first 8 key octets
#[derive(Clone, Copy, Default)]
struct KdfObs {
    ok: bool,
    peak: u64,
    cpu: f64,
    key8: [u8; 8],
}
impl KdfObs {
    fn to_bytes(self) -> Vec<u8> {
        let mut v = vec![self.ok as u8];
        v.extend_from_slice(&self.peak.to_le_bytes());
        v.extend_from_slice(&self.cpu.to_le_bytes());
        v.extend_from_slice(&self.key8);
        v
    }
    const LEN: usize = 25;
    fn from_bytes(b: &[u8]) -> Self {
        let mut key8 = [0u8; 8];
        key8.copy_from_slice(&b[17..25]);
        KdfObs {
            ok: b[0] == 1,
            peak: u64::from_le_bytes(b[1..9].try_into().unwrap()),
            cpu: f64::from_le_bytes(b[9..17].try_into().unwrap()),
            key8,
        }
    }
}

fn observe_kdf(f: impl FnOnce() -> Option<Vec<u8>>) -> KdfObs {
    let t0 = thread_cpu_s();
    let (r, st) = measure_alloc(f);
    let cpu = thread_cpu_s() - t0;
    let mut key8 = [0u8; 8];
    if let Some(k) = &r {
        let n = k.len().min(8);
        key8[..n].copy_from_slice(&k[..n]);
    }
    KdfObs { ok: r.is_some(), peak: st.peak, cpu, key8 }
}

#[derive(Clone, Copy, Debug, PartialEq, Eq)]
enum KdfPath {
    Direct,
    SkeskV4,
    SkeskV6,
    SecretKeyV4,
    SecretKeyV6,
}

fn argon2_octets(t: u8, p: u8, m: u8) -> Vec<u8> {
    let mut s = vec![4u8];
    s.extend_from_slice(&[0x77; 16]);
    s.extend_from_slice(&[t, p, m]);
    s
}

/// Runs a derivation with the given S2K octets along one API path. Some(key) on success.
fn kdf_via(path: KdfPath, s2k_octets: &[u8], key_len: usize) -> Option<Vec<u8>> {
    let pw = Password::from("password");
    match path {
        KdfPath::Direct => {
            let s2k = StringToKey::try_from_reader(s2k_octets).ok()?;
            s2k.derive_key(b"password", key_len).ok().map(|k| k.as_ref().to_vec())
        }
        KdfPath::SkeskV4 => {
            let data = pkt(3, &skesk4_body(if key_len == 16 { 7 } else { 9 }, s2k_octets));
            match first_packet(&data)? {
                Packet::SymKeyEncryptedSessionKey(sk) => match &pgp::composed::decrypt_session_key_with_password(&sk, &pw).ok()? {
                    PlainSessionKey::V3_4 { key, .. } => Some(key.as_ref().to_vec()),
                    _ => Some(vec![]),
                },
                _ => None,
            }
        }
        KdfPath::SkeskV6 => {
            let data = pkt(3, &skesk6_body(7, 2, s2k_octets));
            match first_packet(&data)? {
                Packet::SymKeyEncryptedSessionKey(sk) => pgp::composed::decrypt_session_key_with_password(&sk, &pw).ok().map(|_| vec![]),
                _ => None,
            }
        }
        KdfPath::SecretKeyV4 | KdfPath::SecretKeyV6 => {
            let v6 = path == KdfPath::SecretKeyV6;
            let pubpart = if v6 { v6_pubkey_ed25519() } else { v4_pubkey_ed25519_legacy() };
            let data = pkt(5, &secret_key_aead(&pubpart, v6, s2k_octets));
            match first_packet(&data)? {
                Packet::SecretKey(k) => match k.unlock(&pw, |_, _| Ok(())) {
                    Ok(Ok(())) => Some(vec![]),
                    _ => None,
                },
                _ => None,
            }
        }
    }
}

fn w4(ctx: &mut Ctx) {
    // ---- Argon2 grid through StringToKey::derive_key, one isolated child per (t, p)
    let ts: [u8; 8] = [0, 1, 2, 3, 32, 33, 64, 255];
    let ps: [u8; 9] = [0, 1, 2, 4, 16, 32, 33, 64, 255];
    for &t in &ts {
        for &p in &ps {
            if !ctx.mine() {
                continue;
            }
            describe_case(&format!("W4 argon2 grid t={t} p={p}"));
            let plan: Vec<(u8, A2Class)> = (0u16..=255).map(|m| (m as u8, a2_class(t, p, m as u8))).collect();
            let plan2 = plan.clone();
            let r = in_child(Some(1 << 30), 60, move || {
                let mut out = vec![];
                for (m, class) in &plan2 {
                    if *class == A2Class::ValidExpensive {
                        continue;
                    }
                    let o = observe_kdf(|| kdf_via(KdfPath::Direct, &argon2_octets(t, p, *m), 32));
                    out.extend(o.to_bytes());
                }
                out
            });
            let executed: Vec<(u8, A2Class)> = plan.iter().copied().filter(|(_, c)| *c != A2Class::ValidExpensive).collect();
            ctx.tally("W4.argon2.skipped-valid-expensive", (plan.len() - executed.len()) as u64);
            let bytes = match r {
                ChildOutcome::Done(b) => b,
                ChildOutcome::Panicked(loc) => {
                    ctx.note(format!("W4: derive_key panicked at {loc} for t={t} p={p} (see C04)"));
                    continue;
                }
                ChildOutcome::Signal(sig) => {
                    // which parameter set killed it is not known from here: re-run one by one
                    judge_argon2_one_by_one(ctx, t, p, &executed, sig);
                    continue;
                }
                ChildOutcome::Failed(e) => {
                    ctx.inconclusive(format!("W4: cannot isolate argon2 run: {e}"));
                    continue;
                }
            };
            if bytes.len() != executed.len() * KdfObs::LEN {
                ctx.inconclusive("W4: short report from isolated argon2 run");
                continue;
            }
            for (i, (m, class)) in executed.iter().enumerate() {
                let o = KdfObs::from_bytes(&bytes[i * KdfObs::LEN..(i + 1) * KdfObs::LEN]);
                ctx.eval();
                judge_argon2(ctx, KdfPath::Direct, t, p, *m, *class, &o);
                ctx.cover(&("W4a", t, p, *m));
            }
            ctx.seen("W4.argon2.(t,p)", format!("{t},{p}"));
        }
    }
    // ---- the same octets through packet parsing paths (SKESK v4/v6, secret key packets)
    let samples: [(u8, u8, u8); 14] = [
        (1, 4, 22), (1, 4, 31), (1, 1, 22), (3, 4, 25), (33, 4, 10), (255, 1, 3), (3, 33, 10), (1, 255, 11),
        (1, 1, 32), (1, 1, 255), (0, 1, 10), (1, 0, 10), (1, 4, 4), (1, 1, 5),
    ];
    for path in [KdfPath::SkeskV4, KdfPath::SkeskV6, KdfPath::SecretKeyV4, KdfPath::SecretKeyV6] {
        if !ctx.mine() {
            continue;
        }
        describe_case(&format!("W4 argon2 via {path:?}"));
        for (t, p, m) in samples {
            let class = a2_class(t, p, m);
            if class == A2Class::ValidExpensive {
                continue;
            }
            let r = in_child(Some(1 << 30), 30, move || observe_kdf(|| kdf_via(path, &argon2_octets(t, p, m), 16)).to_bytes());
            ctx.eval();
            match r {
                ChildOutcome::Done(b) if b.len() == KdfObs::LEN => {
                    let o = KdfObs::from_bytes(&b);
                    // on these paths a valid cheap set ends in Err too (garbage ciphertext): only
                    // refusals are judged
                    if class != A2Class::ValidCheap {
                        judge_argon2(ctx, path, t, p, m, class, &o);
                    }
                }
                ChildOutcome::Signal(sig) => argon2_killed(ctx, path, t, p, m, class, sig),
                ChildOutcome::Panicked(loc) => ctx.note(format!("W4: {path:?} panicked at {loc} (see C04)")),
                _ => ctx.inconclusive("W4: cannot isolate argon2 path run"),
            }
            ctx.cover(&("W4p", format!("{path:?}"), t, p, m));
        }
        ctx.seen("W4.argon2.paths", format!("{path:?}"));
    }

    // ---- iterated and salted S2K: all 256 coded counts
    let salt = [0xA5u8; 8];
    for group in 0..16u8 {
        if !ctx.mine() {
            continue;
        }
        describe_case(&format!("W4 iterated s2k codes {}..{}", group as u32 * 16, group as u32 * 16 + 15));
        for lo in 0..16u8 {
            let code = group * 16 + lo;
            let count = rfc::sym::s2k_decode_count(code);
            // (a) direct, SHA-256, 32 octets, password length varied (one longer than small counts)
            let pw: Vec<u8> = match code % 3 {
                0 => b"password".to_vec(),
                1 => vec![b'x'; 61],
                _ => vec![b'y'; 1500],
            };
            let mut oct = vec![3u8, 8];
            oct.extend_from_slice(&salt);
            oct.push(code);
            let s2k = StringToKey::try_from_reader(&oct[..]).expect("s2k parse");
            let t0 = thread_cpu_s();
            let (r, st) = measure_alloc(|| s2k.derive_key(&pw, 32));
            let cpu = thread_cpu_s() - t0;
            ctx.eval();
            let want = ref_iterated::<sha2::Sha256>(&salt, &pw, code, 32);
            let replay = json!({"code": code, "decoded_count": count, "password_len": pw.len(), "hash": "SHA256", "path": "derive_key"});
            match r {
                Ok(k) => {
                    if k.as_ref() != &want[..] {
                        ctx.violation("C19/W4/iterated-s2k-octet-count/derive_key", format!("derive_key with coded count {code} (= {count} octets) does not equal the RFC 9580 3.7.1.3 result over exactly max(count, |salt+pw|) octets"), replay.clone());
                    }
                }
                Err(e) => ctx.violation("C19/W4/iterated-s2k-refused", format!("derive_key refused coded count {code}: {e}"), replay.clone()),
            }
            if st.peak > 64 * KIB {
                ctx.violation("C19/W4/iterated-s2k-allocates", format!("derive_key allocated {} octets (peak) for coded count {code}", st.peak), replay.clone());
            }
            // generous absolute sanity: 65 MB of SHA-256 can not take 20 s
            if cpu > 20.0 {
                ctx.violation("C19/W4/iterated-s2k-slow", format!("derive_key took {cpu:.1} s CPU for coded count {code} ({count} octets)"), replay.clone());
            }
            // (b) through a v4 SKESK packet, SHA-1, AES-128
            let mut oct = vec![3u8, 2];
            oct.extend_from_slice(&salt);
            oct.push(code);
            let got = kdf_via(KdfPath::SkeskV4, &oct, 16);
            ctx.eval();
            let want = ref_iterated::<sha1::Sha1>(&salt, b"password", code, 16);
            if got.as_deref() != Some(&want[..]) {
                ctx.violation(
                    "C19/W4/iterated-s2k-octet-count/skesk-v4",
                    format!("session key derived from a v4 SKESK with coded count {code} differs from the RFC result (got {:?})", got.map(|g| hex::encode(g))),
                    json!({"code": code, "hash": "SHA1", "path": "skesk-v4"}),
                );
            }
            ctx.cover(&("W4i", code));
            ctx.seen("W4.iterated.codes", format!("{code}"));
        }
    }
    // secret-key path for a few codes (finishes; garbage ciphertext => Err)
    if ctx.mine() {
        describe_case("W4 iterated s2k via secret key");
        for code in [0u8, 96, 208, 255] {
            let mut oct = vec![3u8, 8];
            oct.extend_from_slice(&salt);
            oct.push(code);
            for path in [KdfPath::SecretKeyV4, KdfPath::SecretKeyV6, KdfPath::SkeskV6] {
                let t0 = thread_cpu_s();
                let (_, st) = measure_alloc(|| crate::core::guard(|| kdf_via(path, &oct, 16)));
                let cpu = thread_cpu_s() - t0;
                ctx.eval();
                if st.peak > W1_C0 || cpu > 20.0 {
                    ctx.violation(
                        "C19/W4/iterated-s2k-allocates",
                        format!("{path:?} with coded count {code}: peak {} octets, {cpu:.2} s", st.peak),
                        json!({"code": code, "path": format!("{path:?}")}),
                    );
                }
                ctx.cover(&("W4is", code, format!("{path:?}")));
            }
        }
    }
    // time roughly linear in the decoded count (RIPEMD-160: no hardware acceleration, so the
    // largest count takes long enough to decide)
    if ctx.mine() {
        describe_case("W4 iterated s2k time scaling");
        let mut fired = 0;
        for _rep in 0..2 {
            let mut pts: Vec<Point> = vec![];
            for code in [207u8, 223, 239, 255] {
                let mut oct = vec![3u8, 3];
                oct.extend_from_slice(&salt);
                oct.push(code);
                let s2k = StringToKey::try_from_reader(&oct[..]).expect("s2k parse");
                let t0 = thread_cpu_s();
                let (r, st) = measure_alloc(|| s2k.derive_key(b"password", 32));
                let cpu = thread_cpu_s() - t0;
                ctx.eval();
                if r.is_err() {
                    ctx.inconclusive("W4: RIPEMD-160 iterated S2K refused");
                }
                pts.push(Point { n: code as usize, size: rfc::sym::s2k_decode_count(code), cpu, st, out: 0 });
            }
            let s = slope(&pts, |p| p.cpu);
            let tmax = pts.last().unwrap().cpu;
            dbg_line!("W4 iterated time slope {:.2} tmax {:.3}", s, tmax);
            ctx.seen("W4.iterated.time-slope(bucket)", format!("{:.1}", s));
            if tmax >= DECISIVE_S && s >= SLOPE_LIMIT {
                fired += 1;
            } else {
                break;
            }
        }
        if fired >= 2 {
            ctx.violation("C19/W4/iterated-s2k-superlinear", "CPU time of iterated S2K grows super-linearly in the decoded count (exponent >= 1.7 twice)", json!({}));
        }
        ctx.cover(&"W4-iter-time");
    }
}

fn argon2_killed(ctx: &mut Ctx, path: KdfPath, t: u8, p: u8, m: u8, class: A2Class, sig: i32) {
    let replay = json!({"t": t, "p": p, "m_enc": m, "path": format!("{path:?}"), "signal": sig});
    match class {
        A2Class::OverCeiling | A2Class::Malformed => ctx.violation(
            format!("C19/W4/argon2-over-ceiling-executed/{path:?}"),
            format!("Argon2 S2K with t={t} p={p} encoded_m={m} ({class:?}) was not refused: the isolated process (address space limited to +1 GiB, CPU limited) died with signal {sig} while deriving"),
            replay,
        ),
        _ => ctx.inconclusive(format!("W4: isolated argon2 run died with signal {sig} on a valid cheap parameter set t={t} p={p} m={m}")),
    }
}

fn judge_argon2_one_by_one(ctx: &mut Ctx, t: u8, p: u8, executed: &[(u8, A2Class)], first_sig: i32) {
    let mut found = false;
    for (m, class) in executed {
        let (m, class) = (*m, *class);
        let r = in_child(Some(1 << 30), 20, move || observe_kdf(|| kdf_via(KdfPath::Direct, &argon2_octets(t, p, m), 32)).to_bytes());
        ctx.eval();
        match r {
            ChildOutcome::Done(b) if b.len() == KdfObs::LEN => judge_argon2(ctx, KdfPath::Direct, t, p, m, class, &KdfObs::from_bytes(&b)),
            ChildOutcome::Signal(sig) => {
                found = true;
                argon2_killed(ctx, KdfPath::Direct, t, p, m, class, sig);
            }
            _ => {}
        }
    }
    if !found {
        ctx.inconclusive(format!("W4: argon2 grid child for t={t} p={p} died with signal {first_sig} but no single parameter set reproduces it"));
    }
}

fn judge_argon2(ctx: &mut Ctx, path: KdfPath, t: u8, p: u8, m: u8, class: A2Class, o: &KdfObs) {
    let replay = || json!({"t": t, "p": p, "m_enc": m, "path": format!("{path:?}"), "class": format!("{class:?}")});
    match class {
        A2Class::OverCeiling | A2Class::Malformed => {
            if o.ok {
                let what = if class == A2Class::OverCeiling { "over-ceiling" } else { "malformed" };
                ctx.violation(
                    format!("C19/W4/argon2-{what}-accepted/{path:?}"),
                    format!("Argon2 S2K with t={t} p={p} encoded_m={m} was executed and returned a key (documented ceiling: t<=32, p<=32, m<=2^21 KiB; RFC: m in 3+ceil(log2 p)..31, t>=1, p>=1)"),
                    replay(),
                );
            } else if o.peak >= MIB || o.cpu >= 0.05 {
                ctx.violation(
                    format!("C19/W4/argon2-refusal-not-cheap/{path:?}"),
                    format!("refusing t={t} p={p} encoded_m={m} cost {} octets peak and {:.3} s CPU", o.peak, o.cpu),
                    replay(),
                );
            }
            ctx.tally("W4.argon2.refused", (!o.ok) as u64);
        }
        A2Class::ValidCheap => {
            if o.ok {
                let want = rfc::sym::RefS2k::Argon2 { salt: [0x77; 16], t, p, m }.derive(b"password", 32);
                if let Some(w) = want {
                    if w[..8] != o.key8 {
                        ctx.note(format!("W4: argon2 t={t} p={p} m={m} output differs from the reference (C12's business)"));
                    }
                }
                let bound = (1u64 << m) * KIB + W1_C0;
                if o.peak > bound {
                    ctx.violation(
                        format!("C19/W4/argon2-memory-exceeds-parameter/{path:?}"),
                        format!("t={t} p={p} encoded_m={m}: peak {} octets exceeds m KiB + 256 KiB = {bound}", o.peak),
                        replay(),
                    );
                }
                ctx.tally("W4.argon2.valid-cheap-ran", 1);
            } else {
                ctx.tally("W4.argon2.valid-cheap-refused", 1);
            }
        }
        A2Class::ValidExpensive => {}
    }
}

// ------------------------------------------------------------------------------------------

pub fn run(ctx: &mut Ctx) {
    // A RUST_BACKTRACE=1 inherited from the caller's environment makes every library error value
    // capture and symbolise a stack trace (measured: ~33 MB, 86 k allocations, 60 ms, once per
    // process). That is a debugging facility of the environment, not work caused by the input;
    // it is switched off for library-captured backtraces before the first error value exists
    // (std caches the setting on first use). The self-check verifies that this took effect.
    std::env::set_var("RUST_LIB_BACKTRACE", "0");
    {
        let mut r = ctx.rng("filler", 0);
        FILL_SALT.store(r.gen::<u64>() | 1, std::sync::atomic::Ordering::Relaxed);
    }
    if !selfcheck(ctx) {
        return;
    }
    ctx.extra.insert(
        "bounds".into(),
        json!({
            "W1.peak": "256 KiB + 16*|input| + documented buffers (AEAD 2*(chunk+32) for chunk octet <= 16, bzip2 8 MiB); measured maximum of peak - 16*|input| - documented on the unchanged tree: 42 KiB (see set W1.max_peak_minus_16x_input_KiB)",
            "W1.single": "no single allocation >= declared/2 when declared >= 1 MiB and |input| < 64 KiB",
            "W2.time": format!("exponent < {SLOPE_LIMIT} over n,2n,4n,8n; decisive only if the largest run took >= {DECISIVE_S} s; confirmed twice"),
            "W2.peak": "256 KiB + 16*|input| + 1 KiB per repeated element (measured <= 150 B) or 64 KiB per container layer (measured 8.4 KiB stored, 16.7 KiB zlib)",
            "W3.stream": "peak(64 MiB) <= peak(16 MiB) + 1 MiB and <= 32 MiB + 3*(chunk+64) (+8 MiB bzip2); measured: builder 1.5-3.7 MiB (10 MiB with 4 MiB chunks), reader 24-87 KiB (25 MiB with 4 MiB chunks)",
            "W3.checkfirst": "|ciphertext| > L + 4 KiB => Err; peak <= 2*L + 256 KiB (+256 KiB with compression); measured peak = L + 22 KiB",
            "W4.argon2": "over-ceiling / malformed => Err with < 1 MiB peak and < 50 ms CPU; valid cheap sets: peak <= m KiB + 256 KiB",
            "W4.iterated": "all 256 counts equal the streaming RFC reference; peak < 64 KiB",
        }),
    );
    if let Ok(h) = std::env::var("C19_PROBE") {
        let data = hex::decode(h.trim()).expect("hex");
        let mut scratch = vec![0u8; 64 * 1024];
        for e in Entry::BINARY {
            let o = observe(e, &data, &mut scratch);
            eprintln!("{:32} ok={} peak={} total={} count={} max_single={} cpu={:.6} panicked={:?}", e.name(), o.ok, o.st.peak, o.st.total, o.st.count, o.st.max_single, o.cpu, o.panicked);
        }
        return;
    }
    let only = std::env::var("C19_ONLY").unwrap_or_default();
    let want = |f: &str| only.is_empty() || only.split(',').any(|x| x == f);
    if want("W1") {
        w1(ctx);
    }
    if want("W1b") {
        w1b(ctx);
    }
    if want("W2") {
        w2(ctx);
    }
    if want("W3") {
        w3(ctx);
    }
    if want("W3") || want("W3s") {
        w3_consumers(ctx);
    }
    if want("W4") {
        w4(ctx);
    }
    if want("W5") {
        w5(ctx);
    }
}

/// W5: the buffer limit configured through `DearmorOptions::set_limit` bounds what is buffered while an armor
/// header that never completes is being read, on every entry point that accepts the options (they share the
/// dearmorer but reach its header reader through different functions).
fn w5(ctx: &mut Ctx) {
    use pgp::armor::DearmorOptions;
    let inputs: Vec<(&str, Vec<u8>)> = vec![
        ("no-begin-line", rep(b"leading text without any armor line\n", 60_000)),
        ("endless-comment-headers", {
            let mut v = b"-----BEGIN PGP MESSAGE-----\n".to_vec();
            v.extend(rep(b"Comment: still no blank line\n", 70_000));
            v
        }),
        ("one-endless-header-line", {
            let mut v = b"-----BEGIN PGP PUBLIC KEY BLOCK-----\nComment: ".to_vec();
            v.extend(rep(b"x", 2 * MIB as usize));
            v
        }),
        ("endless-begin-line", {
            let mut v = b"-----BEGIN PGP ".to_vec();
            v.extend(rep(b"A", 2 * MIB as usize));
            v
        }),
    ];
    let entries: [&str; 4] = ["Any::from_armor_buf_with_options", "Message::from_armor_with_options", "PublicOrSecret::from_armor_many_buf_with_options", "Dearmor::with_options+read"];
    for limit in [64 * KIB, 512 * KIB] {
        for (iname, data) in &inputs {
            for (ei, ename) in entries.iter().enumerate() {
                if !ctx.mine() {
                    continue;
                }
                describe_case(&format!("W5 {ename} limit {limit} input {iname}"));
                let opt = || DearmorOptions::new().set_limit(limit as usize);
                let (r, st) = measure_alloc(|| {
                    crate::core::guard(|| -> bool {
                        let src = BufReader::with_capacity(8192, &data[..]);
                        match ei {
                            0 => pgp::composed::Any::from_armor_buf_with_options(src, opt()).is_ok(),
                            1 => Message::from_armor_with_options(src, opt()).is_ok(),
                            2 => match pgp::composed::PublicOrSecret::from_armor_many_buf_with_options(src, opt()) {
                                Ok((it, _)) => it.take(3).any(|x| x.is_ok()),
                                Err(_) => false,
                            },
                            _ => {
                                let mut d = Dearmor::with_options(src, opt());
                                let mut buf = [0u8; 4096];
                                let mut ok = false;
                                loop {
                                    match d.read(&mut buf) {
                                        Ok(0) => {
                                            ok = true;
                                            break;
                                        }
                                        Ok(_) => {}
                                        Err(_) => break,
                                    }
                                }
                                ok
                            }
                        }
                    })
                });
                ctx.eval();
                ctx.cover(&("W5", *ename, limit, *iname));
                ctx.seen("W5.entries", *ename);
                ctx.seen("W5.inputs", *iname);
                let Ok(accepted) = r else {
                    ctx.note(format!("W5 {ename} panicked (see C04)"));
                    continue;
                };
                // (the accumulated header text, the parser's copy of it and the header map built from it: measured
                // up to 5.2 x limit on the unchanged tree)
                let bound = 8 * limit + 256 * KIB;
                if st.peak > bound {
                    ctx.violation(
                        format!("C19/W5/dearmor-limit-not-enforced/{}", ename.split("::").next().unwrap_or("")),
                        format!("{ename} with DearmorOptions::set_limit({limit}) over the input '{iname}' ({} octets, armor header never completes): peak allocation {} (bound 8*limit + 256 KiB = {bound}), accepted={accepted}", data.len(), st.peak),
                        json!({"entry": ename, "limit": limit, "input": iname, "input_len": data.len()}),
                    );
                }
                if accepted {
                    ctx.tally("W5.accepted-input-without-armor", 1);
                }
            }
        }
    }
}

/// The allocator probe must see allocations made inside the closure and must not see buffers that
/// were built before it. Otherwise every number below is meaningless: inconclusive, not held.
fn selfcheck(ctx: &mut Ctx) -> bool {
    let pre = vec![7u8; 3 * MIB as usize];
    let (s, st) = measure_alloc(|| pre.iter().map(|b| *b as u64).sum::<u64>());
    let ok1 = s == 7 * 3 * MIB && st.peak < 4096;
    let (_, st2) = measure_alloc(|| {
        let v = vec![1u8; 5 * MIB as usize];
        std::hint::black_box(&v);
        let w = Vec::<u8>::with_capacity(2 * MIB as usize);
        std::hint::black_box(&w);
    });
    // (a few hundred bytes of slack: the watchdog thread may still be starting up and the probe is
    // process-wide)
    let ok2 = st2.peak + 4096 >= 7 * MIB && st2.peak < 7 * MIB + 4096 && st2.max_single == 5 * MIB && st2.leaked < 4096;
    // grow-by-realloc is seen as the new size only
    let (_, st3) = measure_alloc(|| {
        let mut v: Vec<u8> = Vec::with_capacity(1024);
        for i in 0..(MIB as usize) {
            v.push(i as u8);
        }
        std::hint::black_box(&v);
    });
    let ok3 = st3.peak >= MIB && st3.peak <= 3 * MIB;
    if !(ok1 && ok2 && ok3) {
        ctx.inconclusive(format!(
            "allocator probe self-check failed: prebuilt-not-counted={ok1} (peak {}), inside-counted={ok2} (peak {}, max {}), realloc={ok3} (peak {})",
            st.peak, st2.peak, st2.max_single, st3.peak
        ));
        return false;
    }
    // an input that makes a library error value: must not cost a symbolised backtrace
    let mut bad = pkt(6, &v4_pubkey_ed25519_legacy());
    bad.extend(hdr_new5(6, u32::MAX));
    let mut scratch = vec![0u8; 4096];
    let o = observe(Entry::PublicKey, &bad, &mut scratch);
    if o.st.peak > MIB {
        ctx.inconclusive(format!(
            "library error values capture backtraces in this environment (peak {} bytes for a 59 byte input); RUST_LIB_BACKTRACE=0 had no effect",
            o.st.peak
        ));
        return false;
    }
    ctx.tally("selfcheck.alloc-probe-ok", 1);
    true
}
