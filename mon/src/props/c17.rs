//! C17 — packet framing: the reader accepts every legal framing (and parses the body to the same
//! value), rejects illegal framings without mis-splitting, and the writer emits only legal framings.
//!
//! Oracles
//!  * H  header codec: every length value x every length form, library decode/encode against a local
//!       RFC 9580 §4.2 decoder (written here, no `pgp` code).
//!  * R  reader: `rfc::frame::frame` produces every legal framing of (tag, body) between a lead and a
//!       tail packet; `PacketParser` must give [lead, X, tail] with X equal to the X of the canonical
//!       framing, and (for packet types whose body serialisation is the identity) a body equal to the
//!       framed body. `Message::from_bytes` must give the reference payload.
//!  * I  illegal framings: the declared packet must never come back `Ok`; an `Err` item must appear.
//!  * IC composed entry points: reference-framed certificates, keys, key rings, signatures and
//!       messages cut at every offset, through every composed parser entry point: a cut inside a
//!       packet (body shorter than declared) must surface an error, never an object made of the
//!       packets in front of the cut; the uncut stream must give the reference packets.
//!  * W  writer: every stream written by `MessageBuilder`/`to_bytes` is deframed by the reference
//!       (`rfc::frame::deframe` + `check_written`), recursively through compression and (with the
//!       session key, by the reference SEIPD decryptors) encryption; literal body == payload.

use std::io::{BufRead, BufReader, Read};

use pgp::composed::{
    Any, CleartextSignedMessage, Deserializable, DetachedSignature, Message, MessageBuilder, PublicOrSecret, SignedPublicKey,
    SignedSecretKey,
};
use pgp::crypto::aead::{AeadAlgorithm, ChunkSize};
use pgp::crypto::hash::HashAlgorithm;
use pgp::crypto::sym::SymmetricKeyAlgorithm;
use pgp::packet::{Packet, PacketHeader, PacketParser, PacketTrait};
use pgp::ser::Serialize;
use pgp::types::{
    CompressionAlgorithm, KeyDetails, PacketHeaderVersion, PacketLength, Password, StringToKey, Tag,
};
use rand::Rng;
use serde_json::{json, Value};

use crate::core::{describe_case, hexs, Ctx};
use crate::hooks;
use crate::rfc;
use crate::rfc::frame::{check_written, deframe, frame, is_data_tag, LenForm, RawPacket};
use crate::shim::{Sched, SchedReader};
use crate::zoo;

const DATA_TAGS: [u8; 5] = [8, 9, 11, 18, 20];

// ------------------------------------------------------------------------------------------------
// small helpers

/// position dependent full-range bytes
fn pat(len: usize, salt: u32) -> Vec<u8> {
    (0..len)
        .map(|i| (((i as u32).wrapping_add(salt.wrapping_mul(7919))).wrapping_mul(2654435761) >> 24) as u8)
        .collect()
}

/// position dependent bytes, all < 0x80 (can never look like a packet header)
fn ascii(len: usize, salt: u32) -> Vec<u8> {
    pat(len, salt).into_iter().map(|b| 0x20 + b % 0x5f).collect()
}

fn form_class(f: &LenForm) -> &'static str {
    match f {
        LenForm::NewMin => "new-min",
        LenForm::New1 => "new1",
        LenForm::New2 => "new2",
        LenForm::New5 => "new5",
        LenForm::Old1 => "old1",
        LenForm::Old2 => "old2",
        LenForm::Old4 => "old4",
        LenForm::OldIndeterminate => "old-indeterminate",
        LenForm::Partial(..) => "partial",
    }
}

fn form_is_new(f: &LenForm) -> bool {
    matches!(f, LenForm::NewMin | LenForm::New1 | LenForm::New2 | LenForm::New5 | LenForm::Partial(..))
}

fn form_json(f: &LenForm) -> Value {
    json!(format!("{f:?}"))
}

/// A body for `tag` of exactly `len` octets that is, where the type allows it, a valid body.
fn body_for(tag: u8, len: usize, salt: u32, only_ascii: bool) -> Vec<u8> {
    let fill = |n: usize| if only_ascii { ascii(n, salt) } else { pat(n, salt) };
    match tag {
        11 if len >= 6 => {
            // mode 'b', file name, date, data
            let name: &[u8] = if len >= 16 { b"f.bin" } else { b"" };
            let mut b = vec![b'b', name.len() as u8];
            b.extend_from_slice(name);
            b.extend_from_slice(&[0, 0, 0, 0]);
            let n = len - b.len();
            b.extend(fill(n));
            b
        }
        8 if len >= 1 => {
            let mut b = vec![0u8];
            b.extend(fill(len - 1));
            b
        }
        18 if len >= 1 => {
            let mut b = vec![1u8];
            b.extend(fill(len - 1));
            b
        }
        20 if len >= 19 => {
            // version 1, AES128, OCB, chunk size octet 6, 15 octet IV
            let mut b = vec![1u8, 7, 2, 6];
            b.extend(ascii(15, salt));
            b.extend(fill(len - 19));
            b
        }
        10 if len == 3 => b"PGP".to_vec(),
        13 => ascii(len, salt),
        _ => fill(len),
    }
}

/// Types whose body serialisation is the identity on every body that parses.
fn faithful(tag: u8) -> bool {
    matches!(tag, 8 | 9 | 10 | 11 | 13 | 18 | 20 | 21)
}

fn literal_body(name: &[u8], payload: &[u8]) -> Vec<u8> {
    let mut b = vec![b'b', name.len() as u8];
    b.extend_from_slice(name);
    b.extend_from_slice(&[0x65, 0x5f, 0x00, 0x00]);
    b.extend_from_slice(payload);
    b
}

/// All non-empty sequences over `parts` with sum <= max_total.
fn enum_seqs(parts: &[u32], max_total: u32) -> Vec<Vec<u32>> {
    fn rec(parts: &[u32], left: u32, cur: &mut Vec<u32>, out: &mut Vec<Vec<u32>>) {
        for p in parts {
            if *p <= left {
                cur.push(*p);
                out.push(cur.clone());
                rec(parts, left - p, cur, out);
                cur.pop();
            }
        }
    }
    let mut out = vec![];
    rec(parts, max_total, &mut vec![], &mut out);
    out
}

/// first chunk from `firsts`, then every sequence of at most `max_later` later chunks 2^0..2^9
fn small_later_seqs(firsts: &[u32], max_later: usize) -> Vec<Vec<u32>> {
    let mut out = vec![];
    for f in firsts {
        let mut level: Vec<Vec<u32>> = vec![vec![*f]];
        out.extend(level.clone());
        for _ in 0..max_later {
            let mut next = vec![];
            for s in &level {
                for e in 0..=9u32 {
                    let mut t = s.clone();
                    t.push(1 << e);
                    next.push(t);
                }
            }
            out.extend(next.clone());
            level = next;
        }
    }
    out
}

// ------------------------------------------------------------------------------------------------
// local RFC 9580 §4.2 header decoder (reference for family H)

#[derive(Debug, PartialEq, Eq, Clone, Copy)]
enum RefLen {
    Fixed(u32),
    Partial(u32),
    Indeterminate,
}

/// (new_format, tag, length, octets used)
fn ref_decode_header(b: &[u8]) -> Option<(bool, u8, RefLen, usize)> {
    let h = *b.first()?;
    if h & 0x80 == 0 {
        return None;
    }
    if h & 0x40 != 0 {
        let tag = h & 0x3f;
        let o = *b.get(1)?;
        let (l, used) = match o {
            0..=191 => (RefLen::Fixed(o as u32), 2),
            192..=223 => (RefLen::Fixed(((o as u32 - 192) << 8) + *b.get(2)? as u32 + 192), 3),
            255 => (
                RefLen::Fixed(u32::from_be_bytes([*b.get(2)?, *b.get(3)?, *b.get(4)?, *b.get(5)?])),
                6,
            ),
            _ => (RefLen::Partial(1u32 << (o & 0x1f)), 2),
        };
        Some((true, tag, l, used))
    } else {
        let tag = (h >> 2) & 0x0f;
        let (l, used) = match h & 3 {
            0 => (RefLen::Fixed(*b.get(1)? as u32), 2),
            1 => (RefLen::Fixed(u16::from_be_bytes([*b.get(1)?, *b.get(2)?]) as u32), 3),
            2 => (
                RefLen::Fixed(u32::from_be_bytes([*b.get(1)?, *b.get(2)?, *b.get(3)?, *b.get(4)?])),
                5,
            ),
            _ => (RefLen::Indeterminate, 1),
        };
        Some((false, tag, l, used))
    }
}

fn lib_len(l: PacketLength) -> RefLen {
    match l {
        PacketLength::Fixed(n) => RefLen::Fixed(n),
        PacketLength::Partial(n) => RefLen::Partial(n),
        PacketLength::Indeterminate => RefLen::Indeterminate,
    }
}

fn header_codec_one(ctx: &mut Ctx, n: u32, tag: u8) {
    // ---- decode: reference-encoded headers of every form that can carry n
    let mut forms: Vec<(&'static str, Vec<u8>)> = vec![];
    if n < 192 {
        forms.push(("new1", vec![0xC0 | tag, n as u8]));
    }
    if (192..8384).contains(&n) {
        let v = n - 192;
        forms.push(("new2", vec![0xC0 | tag, 192 + (v >> 8) as u8, v as u8]));
    }
    {
        let mut h = vec![0xC0 | tag, 255];
        h.extend_from_slice(&n.to_be_bytes());
        forms.push(("new5", h));
    }
    let ot = tag & 0x0f;
    if n < 256 {
        forms.push(("old1", vec![0x80 | ot << 2, n as u8]));
    }
    if n < 65536 {
        let mut h = vec![0x80 | ot << 2 | 1];
        h.extend_from_slice(&(n as u16).to_be_bytes());
        forms.push(("old2", h));
    }
    {
        let mut h = vec![0x80 | ot << 2 | 2];
        h.extend_from_slice(&n.to_be_bytes());
        forms.push(("old4", h));
    }
    for (name, h) in &forms {
        ctx.eval();
        let mut src = &h[..];
        let got = PacketHeader::try_from_reader(&mut src);
        let is_new = name.starts_with("new");
        let want_tag = if is_new { tag } else { ot };
        let ok = match &got {
            Ok(ph) => {
                u8::from(ph.tag()) == want_tag
                    && lib_len(ph.packet_length()) == RefLen::Fixed(n)
                    && (ph.version() == PacketHeaderVersion::New) == is_new
                    && src.is_empty()
            }
            Err(_) => false,
        };
        if !ok {
            ctx.violation(
                format!("C17/header/decode-mismatch/{name}"),
                format!("PacketHeader::try_from_reader({}) = {:?}, want tag {} Fixed({})", hex::encode(h), got, want_tag, n),
                json!({"family": "H", "header": hex::encode(h), "n": n, "tag": tag}),
            );
        }
    }
    // ---- encode: library-written headers decoded by the reference
    let mut enc: Vec<(&'static str, Result<Vec<u8>, String>, bool, u8)> = vec![];
    {
        let mut v = vec![0xC0 | tag];
        let r = PacketLength::Fixed(n).to_writer_new(&mut v).map(|_| v).map_err(|e| e.to_string());
        enc.push(("to_writer_new", r, true, tag));
    }
    enc.push((
        "new_fixed",
        PacketHeader::new_fixed(Tag::from(tag), n).to_bytes().map_err(|e| e.to_string()),
        true,
        tag,
    ));
    if let Ok(ph) = PacketHeader::from_parts(PacketHeaderVersion::Old, Tag::from(ot), PacketLength::Fixed(n)) {
        enc.push(("old_from_parts", ph.to_bytes().map_err(|e| e.to_string()), false, ot));
    }
    for (name, r, is_new, t) in enc {
        ctx.eval();
        let ok = match &r {
            Ok(b) => ref_decode_header(b) == Some((is_new, t, RefLen::Fixed(n), b.len())),
            Err(_) => false,
        };
        if !ok {
            ctx.violation(
                format!("C17/header/encode-mismatch/{name}"),
                format!("library wrote header {:?} for tag {} Fixed({}); reference decodes {:?}", r.as_ref().map(hex::encode), t, n, r.as_ref().ok().and_then(|b| ref_decode_header(b))),
                json!({"family": "H", "n": n, "tag": tag, "writer": name}),
            );
        }
        // minimal encoding is what PacketLength::fixed_encoding_len / PacketHeader::write_len promise
        if let (Ok(b), true) = (&r, is_new) {
            if b.len() != 1 + PacketLength::fixed_encoding_len(n) {
                ctx.violation(
                    "C17/header/encode-length-disagrees-with-fixed_encoding_len",
                    format!("header for Fixed({n}) is {} octets, fixed_encoding_len says {}", b.len(), 1 + PacketLength::fixed_encoding_len(n)),
                    json!({"family": "H", "n": n, "tag": tag, "writer": name}),
                );
            }
        }
    }
}

fn family_header_codec(ctx: &mut Ctx) {
    // every n in 0..=70000 (quick) / 0..=300000 (thorough), block-wise
    let top = ctx.qt(70_000u32, 300_000u32);
    let block = 2048u32;
    let mut start = 0u32;
    while start <= top {
        if ctx.mine() {
            describe_case(&format!("H: header codec n in {start}..{}", start + block));
            let end = (start + block - 1).min(top);
            let res = crate::core::guard(|| {
                for n in start..=end {
                    header_codec_one(ctx, n, (n % 64) as u8);
                }
            });
            if let Err(p) = res {
                ctx.violation(
                    format!("C17/header/panic/{}", p.short_loc()),
                    format!("panic: {} at {}", p.msg, p.loc),
                    json!({"family": "H", "start": start}),
                );
            }
            ctx.cover(&("H", start));
            ctx.tally("H.lengths", (end - start + 1) as u64);
        }
        start += block;
    }
    // large values, partial exponents, every tag with a few lengths
    if ctx.mine() {
        describe_case("H: big lengths, partial exponents, all tags");
        let mut rng = ctx.rng("H.big", 0);
        let mut ns: Vec<u32> = vec![u32::MAX, u32::MAX - 1, 1 << 31, (1 << 24) - 1, 1 << 24, (1 << 16) - 1, 1 << 16];
        for _ in 0..ctx.qt(2000, 50_000) {
            let bits = rng.gen_range(17..=32u32);
            ns.push(rng.gen::<u32>() >> (32 - bits));
        }
        for (i, n) in ns.iter().enumerate() {
            header_codec_one(ctx, *n, (i % 64) as u8);
        }
        for tag in 0..64u8 {
            for n in [0u32, 191, 192, 8383, 8384, 65535, 65536] {
                header_codec_one(ctx, n, tag);
            }
            ctx.seen("H.tags", format!("{tag}"));
        }
        for e in 0..=30u32 {
            ctx.eval();
            // decode
            let h = [0xC0 | 11, 224 + e as u8];
            let got = PacketHeader::try_from_reader(&h[..]);
            let ok = matches!(&got, Ok(ph) if lib_len(ph.packet_length()) == RefLen::Partial(1 << e) && u8::from(ph.tag()) == 11);
            if !ok {
                ctx.violation("C17/header/decode-mismatch/partial", format!("partial exponent {e}: {got:?}"), json!({"family": "H", "exp": e}));
            }
            // encode
            let mut v = vec![];
            let r = PacketLength::Partial(1 << e).to_writer_new(&mut v);
            if r.is_err() || v != [224 + e as u8] {
                ctx.violation("C17/header/encode-mismatch/partial", format!("Partial(2^{e}) written as {}", hex::encode(&v)), json!({"family": "H", "exp": e}));
            }
            let fp = PacketHeader::from_parts(PacketHeaderVersion::New, Tag::LiteralData, PacketLength::Partial(1 << e));
            match fp.and_then(|p| p.to_bytes()) {
                Ok(b) if b == h => {}
                other => ctx.violation("C17/header/encode-mismatch/partial", format!("from_parts Partial(2^{e}) -> {other:?}"), json!({"family": "H", "exp": e})),
            }
            ctx.seen("H.partial_exponents", format!("{e}"));
        }
        // partial lengths that have no encoding (2^31, and values that are not a power of two): whatever the header
        // API answers, octets it writes must read back (reference) as the partial length that was asked for
        for bad in [1u32 << 31, 3, 6, 513, (1 << 30) + 1, (1 << 30) + (1 << 29), u32::MAX] {
            for tag in [Tag::LiteralData, Tag::CompressedData, Tag::SymEncryptedProtectedData] {
                let r = ctx.guarded("C17/header/illegal-partial", || json!({"family": "H", "partial": bad}), || {
                    PacketHeader::from_parts(PacketHeaderVersion::New, tag, PacketLength::Partial(bad)).and_then(|p| p.to_bytes())
                });
                ctx.eval();
                ctx.seen("H.illegal_partial", format!("{bad}"));
                if let Some(Ok(b)) = r {
                    // one header octet + one length octet 224..=254 naming exactly `bad`
                    let legal = b.len() == 2 && (224..=254).contains(&b[1]) && 1u64 << (b[1] - 224) == bad as u64;
                    if !legal {
                        ctx.violation(
                            "C17/header/illegal-partial-length-written",
                            format!("PacketHeader::from_parts accepted Partial({bad}) and wrote {} which does not announce a partial chunk of that size", hex::encode(&b)),
                            json!({"family": "H", "partial": bad, "tag": u8::from(tag)}),
                        );
                    }
                }
            }
        }
        ctx.cover(&("H", "big"));
    }
}

// ------------------------------------------------------------------------------------------------
// running the library parser

#[derive(Clone, Debug, PartialEq, Eq)]
enum Item {
    Ok { tag: u8, newfmt: bool, body: Vec<u8> },
    Err(String),
}

impl Item {
    fn short(&self) -> String {
        match self {
            Item::Ok { tag, newfmt, body } => format!("Ok(tag {tag}, {}, {} octets)", if *newfmt { "new" } else { "old" }, body.len()),
            Item::Err(c) => format!("Err({c})"),
        }
    }
    fn is_ok(&self) -> bool {
        matches!(self, Item::Ok { .. })
    }
}

#[derive(Clone, Copy, Debug, PartialEq, Eq)]
enum Rd {
    Slice,
    Buf(usize),
}

const RDS: [Rd; 6] = [Rd::Slice, Rd::Buf(1), Rd::Buf(3), Rd::Buf(512), Rd::Buf(8192), Rd::Buf(100_000)];

struct Parsed {
    items: Vec<Item>,
    /// a packet whose re-serialisation is not one well-framed packet of the same type
    rewrite_bad: Option<String>,
    /// a packet whose `write_len()` is not the number of octets `to_bytes()` writes
    write_len_bad: Option<String>,
}

fn err_class(e: &pgp::errors::Error) -> String {
    let d = format!("{e:?}");
    d.chars().take_while(|c| c.is_ascii_alphanumeric()).collect()
}

/// The value of a parsed packet: type, header format, body octets. The body is taken from the
/// packet's own serialisation, deframed by the reference (which at the same time checks that what
/// the library re-writes is one well-framed packet whose declared length matches).
fn packet_item(p: &Packet, rewrite_bad: &mut Option<String>, write_len_bad: &mut Option<String>) -> Item {
    let tag = u8::from(p.tag());
    let newfmt = p.packet_header_version() == PacketHeaderVersion::New;
    let body = match p.to_bytes() {
        Err(e) => {
            rewrite_bad.get_or_insert(format!("to_bytes failed for tag {tag}: {e}"));
            vec![]
        }
        Ok(ser) => {
            if ser.len() != p.write_len() {
                write_len_bad.get_or_insert(format!("tag {tag}: write_len() = {} but {} octets written", p.write_len(), ser.len()));
            }
            match deframe(&ser) {
                Ok(v) if v.len() == 1 && v[0].tag == tag && v[0].new_format == newfmt && v[0].partial_chunks.is_empty() => {
                    v.into_iter().next().map(|r| r.body).unwrap_or_default()
                }
                Ok(v) => {
                    rewrite_bad.get_or_insert(format!(
                        "tag {tag} re-serialised as {} packet(s): {:?}",
                        v.len(),
                        v.iter().map(|r| (r.tag, r.new_format, r.body.len(), r.partial_chunks.len())).collect::<Vec<_>>()
                    ));
                    vec![]
                }
                Err(e) => {
                    rewrite_bad.get_or_insert(format!("tag {tag} re-serialisation does not deframe: {e}"));
                    vec![]
                }
            }
        }
    };
    Item::Ok { tag, newfmt, body }
}

fn parse_all<R: BufRead>(r: R, max_items: usize) -> Parsed {
    let mut items = vec![];
    let mut rewrite_bad = None;
    let mut write_len_bad = None;
    for it in PacketParser::new(r).take(max_items) {
        match it {
            Ok(p) => items.push(packet_item(&p, &mut rewrite_bad, &mut write_len_bad)),
            Err(e) => items.push(Item::Err(err_class(&e))),
        }
    }
    Parsed { items, rewrite_bad, write_len_bad }
}

fn run_parser(bytes: &[u8], rd: Rd, max_items: usize) -> Parsed {
    match rd {
        Rd::Slice => parse_all(bytes, max_items),
        Rd::Buf(c) => parse_all(BufReader::with_capacity(c, bytes), max_items),
    }
}

fn lead_packet() -> (u8, Vec<u8>) {
    (10, b"PGP".to_vec())
}
fn tail_packet() -> (u8, Vec<u8>) {
    (13, b"tail <t@example.org>".to_vec())
}

/// lead ‖ framing ‖ tail (no tail after an indeterminate length)
fn sandwich(tag: u8, body: &[u8], form: &LenForm) -> Option<(Vec<u8>, bool)> {
    let (lt, lb) = lead_packet();
    let mut s = frame(lt, &lb, &LenForm::New1)?;
    s.extend(frame(tag, body, form)?);
    let has_tail = *form != LenForm::OldIndeterminate;
    if has_tail {
        let (tt, tb) = tail_packet();
        s.extend(frame(tt, &tb, &LenForm::New1)?);
    }
    Some((s, has_tail))
}

struct ReaderCase<'a> {
    family: &'static str,
    tag: u8,
    body: &'a [u8],
    form: &'a LenForm,
    rd: Rd,
    /// body must come back unchanged when the packet parses
    must_roundtrip: bool,
}

/// Runs one framing through PacketParser and judges it against the reference expectation and the
/// canonical outcome `canon` (None when this *is* the canonical framing). Returns X.
fn reader_case(ctx: &mut Ctx, c: &ReaderCase, canon: Option<&Item>) -> Option<Item> {
    let (stream, has_tail) = sandwich(c.tag, c.body, c.form)?;
    let fc = form_class(c.form);
    let replay = || json!({"family": c.family, "tag": c.tag, "form": form_json(c.form), "body_len": c.body.len(), "reader": format!("{:?}", c.rd), "stream": hexs(&stream)});
    let (parsed, ev) = ctx.guarded("C17/reader", replay, || hooks::record(|| run_parser(&stream, c.rd, 8)))?;
    ctx.eval();
    note_body_events(ctx, &ev);
    let want_n = if has_tail { 3 } else { 2 };
    let (lt, lb) = lead_packet();
    let (tt, tb) = tail_packet();
    let lead_ok = parsed.items.first() == Some(&Item::Ok { tag: lt, newfmt: true, body: lb });
    let tail_ok = !has_tail || parsed.items.get(2) == Some(&Item::Ok { tag: tt, newfmt: true, body: tb });
    if parsed.items.len() != want_n || !lead_ok || !tail_ok {
        ctx.violation(
            format!("C17/reader/mis-split/{fc}"),
            format!(
                "stream lead‖packet(tag {}, {} octets, {:?})‖tail parsed into {} item(s): [{}]",
                c.tag,
                c.body.len(),
                short_form(c.form),
                parsed.items.len(),
                parsed.items.iter().map(|i| i.short()).collect::<Vec<_>>().join(", ")
            ),
            replay(),
        );
        return parsed.items.get(1).cloned();
    }
    if let Some(why) = &parsed.rewrite_bad {
        ctx.violation(format!("C17/rewrite/illegal/{fc}"), why.clone(), replay());
    }
    if let Some(why) = &parsed.write_len_bad {
        ctx.violation("C17/rewrite/write-len-mismatch", why.clone(), replay());
    }
    let x = parsed.items[1].clone();
    if let Item::Ok { tag, newfmt, body } = &x {
        if *tag != c.tag || *newfmt != form_is_new(c.form) {
            ctx.violation(
                format!("C17/reader/header-misreported/{fc}"),
                format!("framed tag {} ({}) reported as tag {} ({})", c.tag, if form_is_new(c.form) { "new" } else { "old" }, tag, if *newfmt { "new" } else { "old" }),
                replay(),
            );
        }
        if c.must_roundtrip && body != c.body {
            ctx.violation(
                format!("C17/reader/body-differs/{fc}"),
                format!("tag {}: framed body of {} octets came back as {} octets (first difference at {:?})", c.tag, c.body.len(), body.len(), first_diff(body, c.body)),
                replay(),
            );
        }
    } else if c.must_roundtrip {
        ctx.violation(
            format!("C17/reader/rejects-legal/{fc}"),
            format!("valid body of tag {} ({} octets) under {:?} gives {}", c.tag, c.body.len(), short_form(c.form), x.short()),
            replay(),
        );
    }
    if let Some(canon) = canon {
        let same = match (canon, &x) {
            (Item::Ok { tag: t1, body: b1, .. }, Item::Ok { tag: t2, body: b2, .. }) => t1 == t2 && b1 == b2,
            (Item::Err(a), Item::Err(b)) => a == b,
            _ => false,
        };
        if !same {
            let sym = match (canon, &x) {
                (Item::Ok { .. }, Item::Err(_)) => "rejects-legal",
                (Item::Err(_), Item::Err(_)) => "error-class-differs",
                _ => "differs-from-canonical",
            };
            ctx.violation(
                format!("C17/reader/{sym}/{fc}"),
                format!("tag {} body {} octets: canonical framing gives {}, {:?} gives {}", c.tag, c.body.len(), canon.short(), short_form(c.form), x.short()),
                replay(),
            );
        }
    }
    Some(x)
}

fn note_body_events(ctx: &mut Ctx, ev: &[hooks::Ev]) {
    for e in ev {
        if e.site == "body.new" {
            ctx.seen("hook.body.new.kind", ["fixed", "indeterminate", "partial"][e.a.min(2) as usize]);
            if e.a == 2 {
                ctx.seen("hook.body.new.partial_first_chunk", format!("{}", e.b));
            }
            ctx.seen("hook.body.new.tags", format!("{}", e.c));
        }
    }
}

fn short_form(f: &LenForm) -> String {
    match f {
        LenForm::Partial(c, l) if c.len() > 12 => format!("Partial({} chunks starting {:?}.., {:?})", c.len(), &c[..6], l),
        _ => format!("{f:?}"),
    }
}

fn first_diff(a: &[u8], b: &[u8]) -> Option<usize> {
    a.iter().zip(b.iter()).position(|(x, y)| x != y).or(if a.len() != b.len() { Some(a.len().min(b.len())) } else { None })
}

const NONPARTIAL_FORMS: [LenForm; 8] = [
    LenForm::NewMin,
    LenForm::New1,
    LenForm::New2,
    LenForm::New5,
    LenForm::Old1,
    LenForm::Old2,
    LenForm::Old4,
    LenForm::OldIndeterminate,
];

fn boundary_lens(ctx: &Ctx) -> Vec<usize> {
    let mut v: Vec<usize> = vec![0, 1, 2, 3, 5, 6, 7];
    let spread: usize = ctx.qt(2, 4);
    if !ctx.quick() {
        v.extend(0..=520);
    }
    for c in [191usize, 192, 255, 256, 512, 8191, 8192, 8383, 8384, 16384, 65535, 65536, 70000] {
        for x in c.saturating_sub(spread)..=c + spread {
            v.push(x);
        }
    }
    v.sort_unstable();
    v.dedup();
    v
}

// ------------------------------------------------------------------------------------------------
// Family RA: every tag x every non-partial length form x boundary body lengths

fn family_ra(ctx: &mut Ctx) {
    let lens = boundary_lens(ctx);
    for tag in 0..64u8 {
        for (li, len) in lens.iter().enumerate() {
            if !ctx.mine() {
                continue;
            }
            describe_case(&format!("RA: tag {tag} len {len}"));
            let body = body_for(tag, *len, tag as u32 + 1, false);
            let canon_case = ReaderCase { family: "RA", tag, body: &body, form: &LenForm::NewMin, rd: Rd::Slice, must_roundtrip: false };
            let Some(canon) = reader_case(ctx, &canon_case, None) else { continue };
            // valid-by-construction bodies must parse and come back unchanged
            let valid = match tag {
                11 => *len >= 6,
                8 | 18 => *len >= 1,
                20 => *len >= 19,
                9 | 13 | 21 => true,
                10 => *len == 3,
                _ => false,
            };
            ctx.seen("RA.canonical_outcome", format!("tag{tag}:{}", if canon.is_ok() { "ok" } else { "err" }));
            for (fi, form) in NONPARTIAL_FORMS.iter().enumerate() {
                for rd in RDS {
                    let rc = ReaderCase { family: "RA", tag, body: &body, form, rd, must_roundtrip: valid && faithful(tag) };
                    if reader_case(ctx, &rc, Some(&canon)).is_some() {
                        ctx.cover(&("RA", tag, *len, fi));
                        ctx.seen("RA.forms", form_class(form));
                        ctx.seen("RA.cells(tag-class,form)", format!("{}:{}", if tag < 16 { "tag<16" } else { "tag>=16" }, form_class(form)));
                    }
                }
            }
            if li == 9 && tag == 11 {
                let (s, _) = sandwich(tag, &body, &LenForm::Old2).unwrap();
                ctx.sample(json!({"family": "RA", "tag": tag, "form": "Old2", "len": len, "stream": hexs(&s), "outcome": canon.short()}));
            }
        }
        ctx.seen("RA.tags", format!("{tag}"));
    }
}

// ------------------------------------------------------------------------------------------------
// Family RB: partial body chunk sequences on the data packet types (PacketParser)

/// final-chunk variants for a sequence: (rest length, final form)
fn finals(idx: usize, thorough: bool) -> Vec<(usize, LenForm)> {
    let all: [(usize, LenForm); 10] = [
        (0, LenForm::New1),
        (0, LenForm::New5),
        (1, LenForm::New1),
        (191, LenForm::New1),
        (192, LenForm::New2),
        (193, LenForm::New5),
        (50, LenForm::New5),
        (700, LenForm::New2),
        (8383, LenForm::New2),
        (8384, LenForm::New5),
    ];
    if thorough {
        all.to_vec()
    } else {
        // the empty final chunk always, plus three rotating
        let mut v = vec![all[0].clone()];
        for k in 0..3 {
            v.push(all[1 + (idx * 3 + k) % 9].clone());
        }
        v
    }
}

fn chunk_seq_catalogue(ctx: &Ctx) -> Vec<Vec<u32>> {
    let mut seqs = enum_seqs(&[512, 1024, 2048, 4096, 8192], ctx.qt(17, 21) * 512);
    seqs.extend(small_later_seqs(&[512, 1024], ctx.qt(2, 3)));
    // single big chunks and two-chunk sequences
    for e in 9..=ctx.qt(16u32, 20u32) {
        seqs.push(vec![1 << e]);
    }
    for a in 9..=15u32 {
        for b in 0..=15u32 {
            seqs.push(vec![1 << a, 1 << b]);
        }
    }
    // the sequences named in the design notes
    seqs.push(vec![512, 512, 1024]);
    seqs.push(vec![512, 1, 1]);
    seqs
}

fn random_seq(rng: &mut impl Rng, max_total: u32) -> Vec<u32> {
    let mut v = vec![1u32 << rng.gen_range(9..=15)];
    let mut total = v[0];
    let n = rng.gen_range(0..12);
    for _ in 0..n {
        let c = 1u32 << rng.gen_range(0..=15);
        if total + c > max_total {
            break;
        }
        total += c;
        v.push(c);
    }
    v
}

fn rb_one(ctx: &mut Ctx, family: &'static str, idx: usize, seq: &[u32], tags: &[u8]) {
    let thorough = !ctx.quick();
    let total: usize = seq.iter().map(|c| *c as usize).sum();
    for (k, (rest, fin)) in finals(idx, thorough).into_iter().enumerate() {
        for tag in tags {
            let body = body_for(*tag, total + rest, idx as u32, false);
            let rd = RDS[(idx + k) % RDS.len()];
            let canon_case = ReaderCase { family, tag: *tag, body: &body, form: &LenForm::NewMin, rd: Rd::Slice, must_roundtrip: true };
            let Some(canon) = reader_case(ctx, &canon_case, None) else { continue };
            let form = LenForm::Partial(seq.to_vec(), Box::new(fin.clone()));
            let rc = ReaderCase { family, tag: *tag, body: &body, form: &form, rd, must_roundtrip: true };
            if reader_case(ctx, &rc, Some(&canon)).is_some() {
                ctx.cover(&(family, seq, rest, form_class(&fin), *tag));
                ctx.seen("RB.final_forms", format!("{}:{}", form_class(&fin), if rest == 0 { "empty" } else { "nonempty" }));
                ctx.seen("RB.tags", format!("{tag}"));
                ctx.tally("RB.framings", 1);
            }
        }
    }
    for c in seq {
        ctx.seen("RB.chunk_sizes", format!("{c}"));
    }
    ctx.seen("RB.seq_lengths", format!("{}", seq.len().min(20)));
}

fn family_rb(ctx: &mut Ctx) {
    let seqs = chunk_seq_catalogue(ctx);
    ctx.tally("RB.sequences_enumerated", 0);
    let group = 8usize;
    for (gi, grp) in seqs.chunks(group).enumerate() {
        if !ctx.mine() {
            continue;
        }
        describe_case(&format!("RB: chunk sequences group {gi} first {:?}", grp[0]));
        for (k, seq) in grp.iter().enumerate() {
            let idx = gi * group + k;
            let other = DATA_TAGS[idx % 5];
            let tags: Vec<u8> = if other == 11 { vec![11] } else { vec![11, other] };
            rb_one(ctx, "RB", idx, seq, &tags);
            ctx.tally("RB.sequences_enumerated", 1);
        }
        if gi == 40 {
            let total: usize = grp[0].iter().map(|c| *c as usize).sum();
            let body = body_for(11, total + 3, 1, false);
            let st = frame(11, &body, &LenForm::Partial(grp[0].clone(), Box::new(LenForm::New5))).unwrap_or_default();
            ctx.sample(json!({"family": "RB", "sequence": grp[0], "tag": 11, "final": "3 octets, five-octet length", "stream": hexs(&st)}));
        }
    }
    // random longer sequences, total up to 64 KiB
    let nrand = ctx.qt(320u64, 6000u64);
    for g in 0..nrand / 8 {
        if !ctx.mine() {
            continue;
        }
        describe_case(&format!("RB: random sequences group {g}"));
        for k in 0..8u64 {
            let i = g * 8 + k;
            let mut rng = ctx.rng("RB.rand", i);
            let seq = random_seq(&mut rng, 65536);
            rb_one(ctx, "RBr", i as usize, &seq, &[DATA_TAGS[(i % 5) as usize]]);
        }
    }
}

// ------------------------------------------------------------------------------------------------
// Family RM: the same through Message::from_bytes (literal, compressed(uncompressed) nesting,
// skipped Marker/Padding packets in front)

#[derive(Debug)]
struct MsgRead {
    data: Vec<u8>,
    name: Vec<u8>,
    layers: String,
}

fn read_message_from<'a, R: BufRead + std::fmt::Debug + Send + 'a>(src: R) -> Result<MsgRead, String> {
    let mut msg = Message::from_bytes(src).map_err(|e| format!("from_bytes: {e}"))?;
    let mut layers = String::new();
    let mut depth = 0;
    while msg.is_compressed() {
        layers.push('c');
        msg = msg.decompress().map_err(|e| format!("decompress: {e}"))?;
        depth += 1;
        if depth > 8 {
            return Err("too deep".into());
        }
    }
    if !msg.is_literal() {
        return Err(format!("not a literal message (layers {layers:?})"));
    }
    layers.push('l');
    let name = msg.literal_data_header().map(|h| h.file_name().to_vec()).unwrap_or_default();
    let data = msg.as_data_vec().map_err(|e| format!("read: {e}"))?;
    Ok(MsgRead { data, name, layers })
}

fn read_message(bytes: &[u8], rd: Rd) -> Result<MsgRead, String> {
    match rd {
        Rd::Slice => read_message_from(bytes),
        Rd::Buf(c) => read_message_from(BufReader::with_capacity(c, bytes)),
    }
}

#[allow(clippy::too_many_arguments)]
fn rm_check(ctx: &mut Ctx, stream: &[u8], rd: Rd, payload: &[u8], name: &[u8], want_layers: &str, class: &str, desc: &str) -> bool {
    let replay = || json!({"family": "RM", "desc": desc, "reader": format!("{rd:?}"), "stream": hexs(stream), "payload_len": payload.len()});
    // the generator is judged by the reference first
    match deframe(stream) {
        Ok(_) => {}
        Err(e) => {
            ctx.inconclusive(format!("RM generator produced a stream the reference rejects: {e}"));
            return false;
        }
    }
    let Some((r, ev)) = ctx.guarded("C17/message", replay, || hooks::record(|| read_message(stream, rd))) else { return false };
    ctx.eval();
    note_body_events(ctx, &ev);
    match r {
        Err(e) => {
            ctx.violation(format!("C17/message/rejects-legal/{class}"), format!("{desc}: {e}"), replay());
        }
        Ok(m) => {
            if m.data != payload {
                ctx.violation(
                    format!("C17/message/data-differs/{class}"),
                    format!("{desc}: read {} octets, payload has {} (first difference at {:?})", m.data.len(), payload.len(), first_diff(&m.data, payload)),
                    replay(),
                );
            } else if m.name != name || m.layers != want_layers {
                ctx.violation(
                    format!("C17/message/header-differs/{class}"),
                    format!("{desc}: file name {:?} layers {:?}, want {:?} {:?}", m.name, m.layers, name, want_layers),
                    replay(),
                );
            }
        }
    }
    true
}

fn family_rm(ctx: &mut Ctx) {
    let name = b"msg.bin";
    let hl = 2 + name.len() + 4;
    // (1) literal, every non-partial form, boundary body lengths
    let lens = boundary_lens(ctx);
    for (li, blen) in lens.iter().enumerate() {
        if *blen < hl {
            continue;
        }
        if !ctx.mine() {
            continue;
        }
        describe_case(&format!("RM1: literal body len {blen}"));
        let payload = pat(blen - hl, 77 + li as u32);
        let body = literal_body(name, &payload);
        for (fi, form) in NONPARTIAL_FORMS.iter().enumerate() {
            let Some(lit) = frame(11, &body, form) else { continue };
            // skipped packets in front: marker / padding under several framings
            let leads: [Option<(u8, Vec<u8>, LenForm)>; 5] = [
                None,
                Some((10, b"PGP".to_vec(), LenForm::New1)),
                Some((10, b"PGP".to_vec(), LenForm::Old4)),
                Some((21, pat(200, 3), LenForm::New2)),
                Some((21, pat(5, 3), LenForm::New5)),
            ];
            let lead = &leads[(fi + li) % leads.len()];
            let mut stream = vec![];
            if let Some((t, b, f)) = lead {
                stream.extend(frame(*t, b, f).unwrap());
            }
            stream.extend(lit);
            let rd = RDS[(fi + li) % RDS.len()];
            let desc = format!("literal {:?} body {} octets, lead {:?}", form, blen, lead.as_ref().map(|l| (l.0, &l.2)));
            if rm_check(ctx, &stream, rd, &payload, name, "l", form_class(form), &desc) {
                ctx.cover(&("RM1", *blen, fi));
                ctx.seen("RM.literal_forms", form_class(form));
            }
        }
    }
    // (2) literal under partial sequences
    let mut seqs = enum_seqs(&[512, 1024, 2048, 4096, 8192], ctx.qt(9, 13) * 512);
    seqs.extend(small_later_seqs(&[512], 2));
    for e in 14..=ctx.qt(16u32, 20u32) {
        seqs.push(vec![1 << e]);
    }
    for (gi, grp) in seqs.chunks(8).enumerate() {
        if !ctx.mine() {
            continue;
        }
        describe_case(&format!("RM2: literal partial group {gi}"));
        for (k, seq) in grp.iter().enumerate() {
            let idx = gi * 8 + k;
            let total: usize = seq.iter().map(|c| *c as usize).sum();
            for (j, (rest, fin)) in finals(idx, !ctx.quick()).into_iter().enumerate() {
                let payload = pat(total + rest - hl, idx as u32);
                let body = literal_body(name, &payload);
                let form = LenForm::Partial(seq.clone(), Box::new(fin.clone()));
                let Some(stream) = frame(11, &body, &form) else { continue };
                let rd = RDS[(idx + j) % RDS.len()];
                let desc = format!("literal {} final {}+{:?}", short_form(&form), rest, fin);
                if rm_check(ctx, &stream, rd, &payload, name, "l", "partial", &desc) {
                    ctx.cover(&("RM2", seq, rest, form_class(&fin)));
                    ctx.tally("RM.partial_literals", 1);
                }
            }
        }
    }
    // (3) compressed (algorithm 0) around a literal: outer x inner framing
    let payload_lens: Vec<usize> = ctx.qt(vec![0, 1, 180, 600, 2100, 9000], vec![0, 1, 170, 180, 190, 600, 2100, 8370, 9000, 66000]);
    let mk_forms = |n: usize, salt: usize| -> Vec<LenForm> {
        // forms that can carry a body of n octets
        let mut v = vec![LenForm::NewMin, LenForm::New5, LenForm::Old2, LenForm::Old4, LenForm::OldIndeterminate];
        if n < 192 {
            v.push(LenForm::New1);
            v.push(LenForm::Old1);
        } else if n < 8384 {
            v.push(LenForm::New2);
        }
        if n >= 512 {
            v.push(LenForm::Partial(vec![512], Box::new(LenForm::NewMin)));
            if n >= 512 + 7 {
                v.push(LenForm::Partial(vec![512, 4, 2, 1], Box::new(LenForm::New5)));
            }
            let mut c = vec![];
            let mut left = n;
            let sizes = [1024usize, 512, 2048, 512, 8192, 4096];
            let mut k = salt;
            while left >= sizes[k % 6] && c.len() < 40 {
                c.push(sizes[k % 6] as u32);
                left -= sizes[k % 6];
                k += 1;
            }
            if !c.is_empty() {
                v.push(LenForm::Partial(c, Box::new(LenForm::NewMin)));
            }
            // exact: chunks consume everything, empty final chunk
            if n % 512 == 0 {
                v.push(LenForm::Partial(vec![512; n / 512], Box::new(LenForm::New1)));
            }
        }
        v
    };
    for (pi, plen) in payload_lens.iter().enumerate() {
        let payload = pat(*plen, 900 + pi as u32);
        let lbody = literal_body(name, &payload);
        let inner_forms = mk_forms(lbody.len(), pi);
        for (ii, inner) in inner_forms.iter().enumerate() {
            if !ctx.mine() {
                continue;
            }
            describe_case(&format!("RM3: compressed payload {plen} inner {}", short_form(inner)));
            let Some(inner_pkt) = frame(11, &lbody, inner) else { continue };
            let mut cbody = vec![0u8];
            cbody.extend(&inner_pkt);
            for (oi, outer) in mk_forms(cbody.len(), pi + ii).iter().enumerate() {
                let Some(stream) = frame(8, &cbody, outer) else { continue };
                let rd = RDS[(oi + ii + pi) % RDS.len()];
                let desc = format!("compressed[0] {} around literal {} payload {}", short_form(outer), short_form(inner), plen);
                let class = format!("{}-in-{}", form_class(inner), form_class(outer));
                if rm_check(ctx, &stream, rd, &payload, name, "cl", &class, &desc) {
                    ctx.cover(&("RM3", *plen, ii, oi));
                    ctx.seen("RM.nesting(inner-in-outer)", class);
                }
                // doubly nested once per inner form
                if oi == 0 {
                    let mut c2 = vec![0u8];
                    c2.extend(&stream);
                    if let Some(s2) = frame(8, &c2, &LenForm::Partial(vec![512], Box::new(LenForm::New5))).or_else(|| frame(8, &c2, &LenForm::Old2)) {
                        rm_check(ctx, &s2, rd, &payload, name, "ccl", "double-nesting", &format!("compressed around {desc}"));
                    }
                }
            }
        }
    }
}

// ------------------------------------------------------------------------------------------------
// Family RZ: bodies written by the library itself (keys, signatures, session key packets,
// encrypted containers) under every framing; re-framed certificates and signed messages through
// the composed parsers.

fn raw_list(pkts: &[RawPacket]) -> Vec<(u8, Vec<u8>)> {
    pkts.iter().map(|p| (p.tag, p.body.clone())).collect()
}

/// deframe + writer legality of a library-written stream; violation on failure
fn written_ok(ctx: &mut Ctx, what: &str, class: &str, stream: &[u8], replay: &dyn Fn() -> Value) -> Option<Vec<RawPacket>> {
    ctx.eval();
    match deframe(stream) {
        Err(e) => {
            ctx.violation(format!("C17/writer/deframe-error/{class}"), format!("{what}: reference deframer: {e}"), replay());
            None
        }
        Ok(p) => {
            if let Err(e) = check_written(&p) {
                ctx.violation(format!("C17/writer/illegal/{class}"), format!("{what}: {e}"), replay());
                return None;
            }
            let consumed: usize = p.iter().map(|r| r.encoded_len).sum();
            if consumed != stream.len() {
                ctx.violation(format!("C17/writer/length-mismatch/{class}"), format!("{what}: packets cover {consumed} of {} octets", stream.len()), replay());
                return None;
            }
            Some(p)
        }
    }
}

fn rotate_form(tag: u8, len: usize, k: usize, last: bool) -> LenForm {
    let mut cands = vec![LenForm::NewMin, LenForm::New5];
    if len < 192 {
        cands.push(LenForm::New1);
    } else if len < 8384 {
        cands.push(LenForm::New2);
    }
    if tag < 16 {
        if len < 256 {
            cands.push(LenForm::Old1);
        }
        if len < 65536 {
            cands.push(LenForm::Old2);
        }
        cands.push(LenForm::Old4);
        if last {
            cands.push(LenForm::OldIndeterminate);
        }
    }
    if is_data_tag(tag) && len >= 512 {
        cands.push(LenForm::Partial(vec![512], Box::new(LenForm::NewMin)));
        if len >= 1024 + 3 {
            cands.push(LenForm::Partial(vec![512, 512, 2, 1], Box::new(LenForm::New5)));
        }
    }
    cands[k % cands.len()].clone()
}

fn family_rz(ctx: &mut Ctx) {
    let specs = [
        zoo::Spec::simple(false, zoo::Alg::Ed25519Legacy, Some(zoo::Alg::EcdhCv25519)),
        zoo::Spec::simple(true, zoo::Alg::Ed25519, Some(zoo::Alg::X25519)),
        zoo::Spec::simple(false, zoo::Alg::Rsa2048, Some(zoo::Alg::Rsa2048)),
        zoo::Spec::simple(false, zoo::Alg::EcdsaP256, Some(zoo::Alg::EcdhP256)),
    ];
    for (ki, spec) in specs.iter().enumerate() {
        if !ctx.mine() {
            continue;
        }
        describe_case(&format!("RZ: key {}", spec.name()));
        let key = zoo::key(spec, 0);
        let pubkey = key.to_public_key();
        let tsk = key.to_bytes().expect("tsk bytes");
        let tpk = pubkey.to_bytes().expect("tpk bytes");
        let kname = spec.name();
        let Some(tsk_pk) = written_ok(ctx, "SignedSecretKey::to_bytes", "key", &tsk, &|| json!({"family": "RZ", "key": kname, "stream": hexs(&tsk)})) else { continue };
        let Some(tpk_pk) = written_ok(ctx, "SignedPublicKey::to_bytes", "key", &tpk, &|| json!({"family": "RZ", "key": kname, "stream": hexs(&tpk)})) else { continue };
        ctx.tally("W.key_streams", 2);

        // messages made with the key: signed; signed + encrypted to key and password (v1 / v2)
        let payload = pat(3000, ki as u32);
        let mut streams: Vec<(String, Vec<u8>)> = vec![];
        {
            let mut b = MessageBuilder::from_bytes("s.bin", payload.clone());
            b.sign(&key.primary_key, Password::empty(), HashAlgorithm::Sha256);
            match b.to_vec(ctx.rng("RZ.sign", ki as u64)) {
                Ok(v) => streams.push(("signed".into(), v)),
                Err(e) => ctx.inconclusive(format!("RZ: cannot build signed message: {e}")),
            }
        }
        {
            let mut rng = ctx.rng("RZ.enc1", ki as u64);
            let mut b = MessageBuilder::from_bytes("e.bin", payload.clone()).seipd_v1(&mut rng, SymmetricKeyAlgorithm::AES128);
            let s2k = StringToKey::new_iterated(&mut rng, Default::default(), 2);
            let r = b
                .encrypt_with_password(s2k, &"pw".into())
                .and_then(|b| b.encrypt_to_key(ctx_rng(1), &pubkey.public_subkeys[0]).map(|_| ()));
            match r.and_then(|_| b.to_vec(&mut rng)) {
                Ok(v) => streams.push(("seipd1".into(), v)),
                Err(e) => ctx.inconclusive(format!("RZ: cannot build v1 encrypted message: {e}")),
            }
        }
        if spec.v6 {
            let mut rng = ctx.rng("RZ.enc2", ki as u64);
            let mut b = MessageBuilder::from_bytes("e.bin", payload.clone()).seipd_v2(&mut rng, SymmetricKeyAlgorithm::AES128, AeadAlgorithm::Ocb, ChunkSize::C256B);
            let s2k = StringToKey::new_iterated(&mut rng, Default::default(), 2);
            let r = b
                .encrypt_with_password(ctx_rng(2), s2k, &"pw".into())
                .and_then(|b| b.encrypt_to_key(ctx_rng(3), &pubkey.public_subkeys[0]).map(|_| ()));
            match r.and_then(|_| b.to_vec(&mut rng)) {
                Ok(v) => streams.push(("seipd2".into(), v)),
                Err(e) => ctx.inconclusive(format!("RZ: cannot build v2 encrypted message: {e}")),
            }
        }
        let mut bodies: Vec<(String, u8, Vec<u8>)> = vec![];
        for (i, p) in tsk_pk.iter().enumerate() {
            bodies.push((format!("tsk[{i}]"), p.tag, p.body.clone()));
        }
        for (i, p) in tpk_pk.iter().enumerate() {
            bodies.push((format!("tpk[{i}]"), p.tag, p.body.clone()));
        }
        let mut signed_pk = None;
        for (name, st) in &streams {
            let Some(pk) = written_ok(ctx, &format!("MessageBuilder {name}"), "message", st, &|| json!({"family": "RZ", "key": kname, "msg": name, "stream": hexs(st)})) else { continue };
            for (i, p) in pk.iter().enumerate() {
                bodies.push((format!("{name}[{i}]"), p.tag, p.body.clone()));
            }
            if name == "signed" {
                signed_pk = Some(pk);
            }
        }
        // (1) each body under every non-partial form (and partial ones for the data packets)
        for (bi, (origin, tag, body)) in bodies.iter().enumerate() {
            let canon_case = ReaderCase { family: "RZ", tag: *tag, body, form: &LenForm::NewMin, rd: Rd::Slice, must_roundtrip: true };
            let Some(canon) = reader_case(ctx, &canon_case, None) else { continue };
            let mut forms: Vec<LenForm> = NONPARTIAL_FORMS.to_vec();
            if is_data_tag(*tag) && body.len() >= 1030 {
                forms.push(LenForm::Partial(vec![512], Box::new(LenForm::NewMin)));
                forms.push(LenForm::Partial(vec![512, 512], Box::new(LenForm::New5)));
                forms.push(LenForm::Partial(vec![1024, 2, 1, 1], Box::new(LenForm::NewMin)));
            }
            for (fi, form) in forms.iter().enumerate() {
                let rc = ReaderCase { family: "RZ", tag: *tag, body, form, rd: RDS[(bi + fi) % RDS.len()], must_roundtrip: true };
                if reader_case(ctx, &rc, Some(&canon)).is_some() {
                    ctx.cover(&("RZ", ki, origin, fi));
                    ctx.seen("RZ.tags", format!("{tag}"));
                }
            }
        }
        // (2) the certificate with every packet re-framed, through the composed key parser
        let want = raw_list(&tsk_pk);
        for variant in 0..ctx.qt(8usize, 40usize) {
            let mut stream = vec![];
            let mut used = vec![];
            for (i, p) in tsk_pk.iter().enumerate() {
                let f = rotate_form(p.tag, p.body.len(), variant * 3 + i * 5 + ki, i + 1 == tsk_pk.len());
                stream.extend(frame(p.tag, &p.body, &f).expect("frame"));
                used.push(form_class(&f));
            }
            let replay = || json!({"family": "RZ", "key": kname, "variant": variant, "forms": used, "stream": hexs(&stream)});
            let Some(r) = ctx.guarded("C17/composed-key", replay, || SignedSecretKey::from_bytes(&stream[..])) else { continue };
            ctx.eval();
            match r {
                Err(e) => ctx.violation("C17/composed-key/rejects-legal", format!("certificate with packet framings {used:?} rejected: {e}"), replay()),
                Ok(k2) => {
                    let same_fp = k2.fingerprint() == key.fingerprint();
                    let bind = k2.verify_bindings();
                    let re = k2.to_bytes().ok().and_then(|b| deframe(&b).ok()).map(|p| raw_list(&p));
                    if !same_fp || bind.is_err() || re.as_ref() != Some(&want) {
                        ctx.violation(
                            "C17/composed-key/differs",
                            format!("certificate with packet framings {used:?}: fingerprint same={same_fp}, bindings={:?}, packets equal={}", bind.err().map(|e| e.to_string()), re.as_ref() == Some(&want)),
                            replay(),
                        );
                    }
                    ctx.cover(&("RZ.key", ki, variant));
                }
            }
        }
        // (3) the signed message with every packet re-framed: data and signature must survive
        if let Some(pk) = signed_pk {
            for variant in 0..ctx.qt(10usize, 60usize) {
                let mut stream = vec![];
                let mut used = vec![];
                for (i, p) in pk.iter().enumerate() {
                    let f = rotate_form(p.tag, p.body.len(), variant * 7 + i * 3 + ki, i + 1 == pk.len());
                    stream.extend(frame(p.tag, &p.body, &f).expect("frame"));
                    used.push(form_class(&f));
                }
                let rd = RDS[variant % RDS.len()];
                let replay = || json!({"family": "RZ", "key": kname, "signed-variant": variant, "forms": used, "stream": hexs(&stream)});
                let vk = &pubkey.primary_key;
                let run = |src: &[u8]| -> Result<Vec<u8>, String> {
                    let mut m = match rd {
                        Rd::Slice => Message::from_bytes(src),
                        Rd::Buf(c) => Message::from_bytes(BufReader::with_capacity(c, src)),
                    }
                    .map_err(|e| format!("from_bytes: {e}"))?;
                    let d = m.as_data_vec().map_err(|e| format!("read: {e}"))?;
                    m.verify(vk).map_err(|e| format!("verify: {e}"))?;
                    Ok(d)
                };
                let Some(r) = ctx.guarded("C17/message", replay, || run(&stream)) else { continue };
                ctx.eval();
                match r {
                    Err(e) => ctx.violation("C17/message/rejects-legal/signed-reframed", format!("signed message with packet framings {used:?}: {e}"), replay()),
                    Ok(d) if d != payload => ctx.violation("C17/message/data-differs/signed-reframed", format!("signed message with packet framings {used:?}: data differs"), replay()),
                    Ok(_) => ctx.cover(&("RZ.signed", ki, variant)),
                }
            }
        }
    }
}

fn ctx_rng(n: u64) -> rand_chacha::ChaCha8Rng {
    use rand::SeedableRng;
    rand_chacha::ChaCha8Rng::seed_from_u64(0xC17 + n)
}

// ------------------------------------------------------------------------------------------------
// Family I: illegal framings

struct Illegal<'a> {
    class: &'a str,
    tag: u8,
    /// encoding of the broken packet
    pkt: Vec<u8>,
    with_tail: bool,
    /// the first header (type octet and first length) is complete
    header_complete: bool,
    desc: String,
    rd: Rd,
}

fn illegal_case(ctx: &mut Ctx, c: Illegal) {
    let (lt, lb) = lead_packet();
    let mut stream = frame(lt, &lb, &LenForm::New1).unwrap();
    let lead_len = stream.len();
    stream.extend(&c.pkt);
    if c.with_tail {
        let (tt, tb) = tail_packet();
        stream.extend(frame(tt, &tb, &LenForm::New1).unwrap());
    }
    let replay = || json!({"family": "I", "class": c.class, "tag": c.tag, "desc": c.desc, "reader": format!("{:?}", c.rd), "stream": hexs(&stream)});
    if deframe(&stream).is_ok() {
        ctx.inconclusive(format!("I generator: reference accepts a stream of class {}", c.class));
        return;
    }
    let Some(parsed) = ctx.guarded("C17/illegal", replay, || run_parser(&stream, c.rd, 24)) else { return };
    ctx.eval();
    if parsed.items.first() != Some(&Item::Ok { tag: lt, newfmt: true, body: lb }) {
        ctx.violation(format!("C17/illegal/lead-lost/{}", c.class), format!("{}: items {:?}", c.desc, parsed.items.iter().map(|i| i.short()).collect::<Vec<_>>()), replay());
        return;
    }
    if let Some(okpos) = parsed.items.iter().skip(1).position(|i| i.is_ok()) {
        ctx.violation(
            format!("C17/illegal/accepted/{}", c.class),
            format!("{}: parser returned [{}] (item {} is a packet made from an illegally framed / broken body; the reference deframer rejects the stream)", c.desc, parsed.items.iter().map(|i| i.short()).collect::<Vec<_>>().join(", "), okpos + 1),
            replay(),
        );
    } else if c.header_complete && !parsed.items.iter().any(|i| !i.is_ok()) {
        ctx.violation(format!("C17/illegal/no-error/{}", c.class), format!("{}: parser ended silently after the lead packet", c.desc), replay());
    }
    // Message path
    if c.tag == 11 || c.tag == 8 {
        // the broken packet alone, or behind the (skipped) marker packet; no tail
        let ms = &stream[if c.rd == Rd::Slice { lead_len } else { 0 }..lead_len + c.pkt.len()];
        let Some(r) = ctx.guarded("C17/illegal-message", replay, || read_message(ms, c.rd)) else { return };
        ctx.eval();
        if let Ok(m) = r {
            ctx.violation(
                format!("C17/illegal/message-accepted/{}", c.class),
                format!("{}: Message read {} octets without error (layers {})", c.desc, m.data.len(), m.layers),
                replay(),
            );
        }
    }
    ctx.cover(&("I", c.class, c.tag, &c.pkt));
    ctx.seen("I.classes", c.class);
}

fn family_illegal(ctx: &mut Ctx) {
    // I1: partial body lengths on packets that are not data packets
    for tag in 0..64u8 {
        if is_data_tag(tag) {
            continue;
        }
        if !ctx.mine() {
            continue;
        }
        describe_case(&format!("I1: partial on tag {tag}"));
        for (k, first) in [512u32, 1024, 8192].into_iter().enumerate() {
            for (j, rest) in [0usize, 40, 300].into_iter().enumerate() {
                let body = body_for(tag, first as usize + rest, 5, true);
                let f = LenForm::Partial(vec![first], Box::new(LenForm::NewMin));
                let pkt = frame(tag, &body, &f).unwrap();
                illegal_case(ctx, Illegal { class: "partial-non-data", tag, pkt, with_tail: true, header_complete: true, desc: format!("tag {tag} with partial first chunk {first} + final {rest}"), rd: RDS[(k + j + tag as usize) % RDS.len()] });
            }
        }
        ctx.seen("I.partial_non_data_tags", format!("{tag}"));
    }
    // I2: first partial chunk shorter than 512
    for tag in DATA_TAGS {
        for e in 0..=8u32 {
            if !ctx.mine() {
                continue;
            }
            describe_case(&format!("I2: first chunk 2^{e} on tag {tag}"));
            let first = 1u32 << e;
            let laters: [Vec<u32>; 5] = [vec![], vec![512], vec![first], vec![1024, 512], vec![256, 256]];
            for (k, later) in laters.iter().enumerate() {
                for (j, (rest, fin)) in [(0usize, LenForm::New1), (30, LenForm::New1), (600, LenForm::New2), (20, LenForm::New5)].into_iter().enumerate() {
                    let mut seq = vec![first];
                    seq.extend(later);
                    let total: usize = seq.iter().map(|c| *c as usize).sum();
                    let body = body_for(tag, total + rest, e, true);
                    let pkt = frame(tag, &body, &LenForm::Partial(seq.clone(), Box::new(fin.clone()))).unwrap();
                    let rd = RDS[(k + j + e as usize) % RDS.len()];
                    illegal_case(ctx, Illegal { class: "first-chunk-lt-512", tag, pkt: pkt.clone(), with_tail: true, header_complete: true, desc: format!("tag {tag} chunks {seq:?} final {rest}"), rd });
                    // truncated variants (nothing after)
                    for cut in [1usize, pkt.len() / 2, pkt.len() - 2] {
                        if cut < pkt.len() - 1 {
                            illegal_case(ctx, Illegal { class: "first-chunk-lt-512-truncated", tag, pkt: pkt[..pkt.len() - cut].to_vec(), with_tail: false, header_complete: true, desc: format!("tag {tag} chunks {seq:?} final {rest}, last {cut} octets missing"), rd });
                        }
                    }
                }
            }
            ctx.seen("I.short_first_chunk(tag,exp)", format!("{tag}:{e}"));
        }
    }
    // I3: declared length larger than what follows (every length form)
    for tag in 0..64u8 {
        if !ctx.mine() {
            continue;
        }
        describe_case(&format!("I3: truncated bodies tag {tag}"));
        let forms: [(LenForm, usize); 9] = [
            (LenForm::New1, 100),
            (LenForm::New1, 6),
            (LenForm::New2, 1000),
            (LenForm::New5, 100),
            (LenForm::New5, 9000),
            (LenForm::Old1, 200),
            (LenForm::Old2, 2000),
            (LenForm::Old4, 300),
            (LenForm::Old4, 70000),
        ];
        for (fi, (form, len)) in forms.iter().enumerate() {
            let body = body_for(tag, *len, 9, true);
            let Some(pkt) = frame(tag, &body, form) else { continue };
            let hdr = pkt.len() - len;
            for (ci, missing) in [1usize, 2, len / 2, *len - 1, *len].into_iter().enumerate() {
                let cut = pkt[..pkt.len() - missing].to_vec();
                illegal_case(ctx, Illegal { class: &format!("truncated-{}", form_class(form)), tag, pkt: cut, with_tail: false, header_complete: true, desc: format!("tag {tag} {form:?} declared {len}, {missing} octets missing"), rd: RDS[(fi + ci + tag as usize) % RDS.len()] });
            }
            // cut inside the length octets
            for keep in 1..hdr {
                illegal_case(ctx, Illegal { class: &format!("truncated-header-{}", form_class(form)), tag, pkt: pkt[..keep].to_vec(), with_tail: false, header_complete: false, desc: format!("tag {tag} {form:?}: only {keep} of {hdr} header octets"), rd: RDS[(fi + keep) % RDS.len()] });
            }
        }
        ctx.seen("I.truncated_tags", format!("{tag}"));
    }
    // I3p: truncation inside partial bodies, missing final chunk
    for tag in DATA_TAGS {
        let variants: [(Vec<u32>, usize, LenForm); 7] = [
            (vec![512], 50, LenForm::New1),
            (vec![512], 300, LenForm::New2),
            (vec![512], 10, LenForm::New5),
            (vec![1024, 512], 0, LenForm::New1),
            (vec![512, 1, 1], 0, LenForm::New1),
            (vec![8192, 8192], 9000, LenForm::New5),
            (vec![512, 16], 200, LenForm::New2),
        ];
        for (vi, (seq, rest, fin)) in variants.iter().enumerate() {
            if !ctx.mine() {
                continue;
            }
            describe_case(&format!("I3p: truncated partial tag {tag} variant {vi}"));
            let total: usize = seq.iter().map(|c| *c as usize).sum();
            let body = body_for(tag, total + rest, 11, true);
            let pkt = frame(tag, &body, &LenForm::Partial(seq.clone(), Box::new(fin.clone()))).unwrap();
            // offsets of chunk boundaries in the encoding
            let mut cuts: Vec<(usize, &'static str)> = vec![];
            let mut pos = 2usize; // tag octet + first partial length octet
            cuts.push((pos, "missing-final-chunk")); // nothing of the first chunk at all
            for (i, c) in seq.iter().enumerate() {
                cuts.push((pos + 1, "truncated-partial-chunk"));
                cuts.push((pos + *c as usize / 2, "truncated-partial-chunk"));
                cuts.push((pos + *c as usize - 1, "truncated-partial-chunk"));
                pos += *c as usize;
                cuts.push((pos, "missing-final-chunk")); // stream ends right after a partial chunk
                if i + 1 < seq.len() {
                    pos += 1;
                }
            }
            // inside the final length octets and the final chunk
            let fin_len_octets = match fin {
                LenForm::New1 => 1,
                LenForm::New2 => 2,
                _ => 5,
            };
            for k in 1..fin_len_octets {
                cuts.push((pos + k, "truncated-final-length"));
            }
            if *rest > 0 {
                cuts.push((pos + fin_len_octets, "truncated-final-chunk"));
                cuts.push((pos + fin_len_octets + rest / 2, "truncated-final-chunk"));
                cuts.push((pkt.len() - 1, "truncated-final-chunk"));
            }
            for (ci, (at, class)) in cuts.iter().enumerate() {
                if *at >= pkt.len() || *at < 2 {
                    continue;
                }
                // "nothing of the first chunk": only when the chunk is declared non-empty (always)
                illegal_case(ctx, Illegal { class, tag, pkt: pkt[..*at].to_vec(), with_tail: false, header_complete: true, desc: format!("tag {tag} chunks {seq:?} final {rest} ({fin:?}) cut at {at} of {}", pkt.len()), rd: RDS[(ci + vi) % RDS.len()] });
            }
        }
    }
    // I4: huge partial lengths declared over short bodies
    for tag in DATA_TAGS {
        for e in 17..=30u32 {
            if !ctx.mine() {
                continue;
            }
            describe_case(&format!("I4: 2^{e} declared on tag {tag}"));
            for (k, avail) in [0usize, 1, 600, 5000].into_iter().enumerate() {
                let body = body_for(tag, avail.max(1), e, true);
                let mut pkt = vec![0xC0 | tag, 224 + e as u8];
                pkt.extend(&body[..avail]);
                illegal_case(ctx, Illegal { class: "big-partial-over-short-body", tag, pkt, with_tail: false, header_complete: true, desc: format!("tag {tag}: first chunk 2^{e} declared, {avail} octets follow"), rd: RDS[(k + e as usize) % RDS.len()] });
                // as a later chunk after a legal first one
                let body = body_for(tag, 512 + avail, e, true);
                let mut pkt = vec![0xC0 | tag, 224 + 9];
                pkt.extend(&body[..512]);
                pkt.push(224 + e as u8);
                pkt.extend(&body[512..]);
                illegal_case(ctx, Illegal { class: "big-partial-over-short-body", tag, pkt, with_tail: false, header_complete: true, desc: format!("tag {tag}: chunk 512 then chunk 2^{e} declared, {avail} octets follow"), rd: RDS[(k + e as usize + 1) % RDS.len()] });
            }
            ctx.seen("I.big_exponents", format!("{e}"));
        }
    }
    // I5: legal compressed container around an illegally framed literal (Message path only)
    let name = b"in.bin";
    let payload = ascii(2000, 5);
    let lbody = literal_body(name, &payload);
    let lbody: Vec<u8> = lbody.iter().map(|b| b & 0x7f).collect();
    let mut inners: Vec<(&'static str, Vec<u8>)> = vec![];
    for e in [0u32, 4, 8] {
        inners.push(("nested-first-chunk-lt-512", frame(11, &lbody, &LenForm::Partial(vec![1 << e, 512], Box::new(LenForm::NewMin))).unwrap()));
    }
    let full = frame(11, &lbody, &LenForm::New2).unwrap();
    inners.push(("nested-truncated", full[..full.len() - 1].to_vec()));
    inners.push(("nested-truncated", full[..full.len() / 2].to_vec()));
    let full5 = frame(11, &lbody, &LenForm::Old4).unwrap();
    inners.push(("nested-truncated", full5[..full5.len() - 7].to_vec()));
    let part = frame(11, &lbody, &LenForm::Partial(vec![1024, 512], Box::new(LenForm::New2))).unwrap();
    inners.push(("nested-missing-final", part[..2 + 1024 + 1 + 512].to_vec()));
    inners.push(("nested-truncated", part[..2 + 1024 + 1 + 100].to_vec()));
    inners.push(("nested-truncated", part[..part.len() - 1].to_vec()));
    for (ii, (class, inner)) in inners.iter().enumerate() {
        if !ctx.mine() {
            continue;
        }
        describe_case(&format!("I5: nested illegal {class} #{ii}"));
        let mut cbody = vec![0u8];
        cbody.extend(inner);
        let outers = [
            LenForm::NewMin,
            LenForm::New5,
            LenForm::Old2,
            LenForm::OldIndeterminate,
            LenForm::Partial(vec![512], Box::new(LenForm::NewMin)),
            LenForm::Partial(vec![512, 8, 1], Box::new(LenForm::New5)),
        ];
        for (oi, outer) in outers.iter().enumerate() {
            let Some(stream) = frame(8, &cbody, outer) else { continue };
            let rd = RDS[(oi + ii) % RDS.len()];
            let replay = || json!({"family": "I5", "class": class, "outer": form_json(outer), "stream": hexs(&stream)});
            // reference: outer legal, inner illegal
            let ref_outer = deframe(&stream);
            let ref_inner = ref_outer.as_ref().ok().and_then(|p| p.first()).map(|p| deframe(&p.body[1..]));
            if !matches!(ref_inner, Some(Err(_))) {
                ctx.inconclusive("I5 generator: reference does not see legal outer / illegal inner");
                continue;
            }
            let Some(r) = ctx.guarded("C17/illegal-message", replay, || read_message(&stream, rd)) else { continue };
            ctx.eval();
            if let Ok(m) = r {
                ctx.violation(format!("C17/illegal/message-accepted/{class}"), format!("compressed {} around illegally framed literal: read {} octets without error", short_form(outer), m.data.len()), replay());
            }
            ctx.cover(&("I5", ii, oi));
            ctx.seen("I.classes", *class);
        }
    }
}

// ------------------------------------------------------------------------------------------------
// Family IC: reference-framed packet streams cut at every offset, read through every composed
// entry point that consumes a packet stream (certificates, secret keys, key rings, detached
// signatures, the signature block of cleartext messages, messages; binary, armored and
// auto-detecting variants, single and many).
//
// The reference framer knows where every packet starts, where its body starts and where it ends.
// A cut inside a packet whose header is complete leaves a body that is shorter than its declared
// length (an illegal framing): whatever composed parser reads the stream has to surface an error;
// it must never hand out only the objects / packets in front of the cut as if the stream ended
// there. A cut exactly on a packet boundary is a legal, shorter stream: nothing is demanded but
// "no packet that is not in the prefix". A cut inside the length octets of a header ends
// PacketParser silently (documented by the library, see assumptions): same demand as a boundary.

type Pkts = Vec<(u8, Vec<u8>)>;

#[derive(Clone, Debug)]
struct Lay {
    tag: u8,
    start: usize,
    body: usize,
    end: usize,
    form: &'static str,
    obj: usize,
    /// offsets at which the data of a partial chunk ends
    chunk_edges: Vec<usize>,
}

struct Laid {
    stream: Vec<u8>,
    pk: Vec<Lay>,
}

#[derive(Clone, Copy, Debug, PartialEq, Eq)]
enum Cut {
    /// packets 0..k are complete, nothing of packet k is present
    Boundary(usize),
    /// inside the header (type octet present, length octets incomplete) of packet k
    Header(usize),
    /// header of packet k complete, at least one declared body octet (or chunk) missing
    Body(usize),
    Uncut,
}

fn lay_out(pkts: &[(u8, Vec<u8>, usize)], forms: &[LenForm]) -> Option<Laid> {
    let mut stream = vec![];
    let mut pk = vec![];
    for ((tag, body, obj), f) in pkts.iter().zip(forms) {
        let enc = frame(*tag, body, f)?;
        let start = stream.len();
        let (body_off, chunk_edges) = match f {
            LenForm::Partial(seq, _) => {
                let mut pos = start + 2;
                let mut e = vec![];
                for (i, c) in seq.iter().enumerate() {
                    pos += *c as usize;
                    e.push(pos);
                    if i + 1 < seq.len() {
                        pos += 1;
                    }
                }
                (start + 2, e)
            }
            _ => (start + enc.len() - body.len(), vec![]),
        };
        stream.extend(&enc);
        pk.push(Lay { tag: *tag, start, body: body_off, end: stream.len(), form: form_class(f), obj: *obj, chunk_edges });
    }
    Some(Laid { stream, pk })
}

impl Laid {
    fn classify(&self, c: usize) -> Cut {
        if c >= self.stream.len() {
            return Cut::Uncut;
        }
        for (k, p) in self.pk.iter().enumerate() {
            if c < p.end {
                return if c == p.start {
                    Cut::Boundary(k)
                } else if c < p.body {
                    Cut::Header(k)
                } else {
                    Cut::Body(k)
                };
            }
        }
        Cut::Uncut
    }

    /// every offset in headers and short bodies; in long bodies both ends, an even spread, the
    /// surroundings of partial chunk edges and some random offsets (all offsets when `all`)
    fn cut_offsets(&self, all: bool, rng: &mut impl Rng) -> Vec<usize> {
        let mut v = vec![];
        for p in &self.pk {
            v.push(p.start);
            v.extend(p.start + 1..p.body);
            let blen = p.end - p.body;
            if all || blen <= 96 {
                v.extend(p.body..p.end);
            } else {
                v.extend(p.body..p.body + 8);
                v.extend(p.end - 8..p.end);
                for i in 1..16 {
                    v.push(p.body + blen * i / 16);
                }
                for _ in 0..8 {
                    v.push(rng.gen_range(p.body..p.end));
                }
                for e in &p.chunk_edges {
                    for d in 0..8usize {
                        let c = e + d;
                        if c > p.body + 1 && c - 1 < p.end {
                            v.push(c - 1);
                        }
                    }
                }
            }
        }
        v.sort_unstable();
        v.dedup();
        v
    }
}

fn tag_class(tag: u8) -> &'static str {
    match tag {
        5 | 6 | 7 | 14 => "key",
        2 => "signature",
        13 | 17 => "user",
        1 | 3 => "session-key",
        4 => "one-pass",
        8 | 9 | 11 | 18 | 20 => "data",
        _ => "other",
    }
}

/// packets the composed parsers skip by design
fn skipped(tag: u8) -> bool {
    tag == 10 || tag == 21
}

fn is_subsequence(got: &Pkts, of: &Pkts) -> bool {
    let mut it = of.iter();
    got.iter().all(|g| it.any(|o| o == g))
}

#[derive(Default)]
struct Outcome {
    /// per object handed out: the packets it is made of (its own serialisation, deframed by the
    /// reference), or the error
    items: Vec<Result<Pkts, String>>,
    bad_rewrite: Option<String>,
}

fn short_err(e: &pgp::errors::Error) -> String {
    let s = e.to_string();
    s.chars().take(160).collect()
}

fn obj_packets<T: Serialize>(t: &T) -> Result<Pkts, String> {
    let b = t.to_bytes().map_err(|e| format!("to_bytes: {e}"))?;
    deframe(&b).map(|p| raw_list(&p)).map_err(|e| format!("re-serialisation does not deframe: {e}"))
}

fn cleartext_packets(c: &CleartextSignedMessage) -> Result<Pkts, String> {
    let mut out = vec![];
    for s in c.signatures() {
        out.extend(obj_packets(&Packet::from(s.clone()))?);
    }
    Ok(out)
}

impl Outcome {
    fn push_pkts(&mut self, r: Result<Result<Pkts, String>, String>) {
        match r {
            Ok(Ok(p)) => self.items.push(Ok(p)),
            Ok(Err(e)) => {
                self.bad_rewrite.get_or_insert(e);
                self.items.push(Ok(vec![]));
            }
            Err(e) => self.items.push(Err(e)),
        }
    }
    fn push<T: Serialize>(&mut self, r: pgp::errors::Result<T>) {
        self.push_pkts(r.map(|t| obj_packets(&t)).map_err(|e| short_err(&e)));
    }
    fn has_err(&self) -> bool {
        self.items.iter().any(|i| i.is_err())
    }
    fn ok_packets(&self) -> Pkts {
        self.items.iter().filter_map(|i| i.as_ref().ok()).flatten().cloned().collect()
    }
    fn short(&self) -> String {
        self.items
            .iter()
            .map(|i| match i {
                Ok(p) => format!("Ok({} packets: tags {:?})", p.len(), p.iter().map(|x| x.0).collect::<Vec<_>>()),
                Err(e) => format!("Err({e})"),
            })
            .collect::<Vec<_>>()
            .join(", ")
    }
}

fn one<T: Serialize>(r: pgp::errors::Result<T>) -> Outcome {
    let mut o = Outcome::default();
    o.push(r);
    o
}

fn many<'a, T: Serialize>(r: pgp::errors::Result<Box<dyn Iterator<Item = pgp::errors::Result<T>> + 'a>>) -> Outcome {
    let mut o = Outcome::default();
    match r {
        Err(e) => o.items.push(Err(short_err(&e))),
        Ok(it) => {
            for x in it.take(64) {
                o.push(x);
            }
        }
    }
    o
}

fn any_outcome(r: pgp::errors::Result<(Any<'_>, pgp::armor::Headers)>) -> Outcome {
    let mut o = Outcome::default();
    match r {
        Err(e) => o.items.push(Err(short_err(&e))),
        Ok((a, _)) => match a {
            Any::PublicKey(k) => o.push_pkts(Ok(obj_packets(&k))),
            Any::SecretKey(k) => o.push_pkts(Ok(obj_packets(&k))),
            Any::Signature(s) => o.push_pkts(Ok(obj_packets(&s))),
            Any::Cleartext(c) => o.push_pkts(Ok(cleartext_packets(&c))),
            Any::Message(_) => o.items.push(Err("Any: parsed as a message".into())),
        },
    }
    o
}

type EntryFn = Box<dyn Fn(&[u8], &str, Rd) -> Outcome>;

struct Entry {
    name: String,
    /// hands out the first object only
    single: bool,
    run: EntryFn,
}

fn ent(tn: &str, name: &str, single: bool, run: EntryFn) -> Entry {
    Entry { name: format!("{tn}::{name}"), single, run }
}

/// buffer size for the armored BufRead entry points (the armor reader wants whole lines)
fn armor_cap(rd: Rd) -> usize {
    match rd {
        Rd::Slice => 8192,
        Rd::Buf(c) => c.max(512),
    }
}

/// every provided method of `Deserializable` that reads from memory
fn std_entries<T: Deserializable + Serialize + 'static>(tn: &str) -> Vec<Entry> {
    vec![
        ent(tn, "from_bytes", true, Box::new(|b: &[u8], _a: &str, rd: Rd| match rd {
            Rd::Slice => one(T::from_bytes(b)),
            Rd::Buf(c) => one(T::from_bytes(BufReader::with_capacity(c, b))),
        })),
        ent(tn, "from_bytes_many", false, Box::new(|b: &[u8], _a: &str, rd: Rd| match rd {
            Rd::Slice => many(T::from_bytes_many(b)),
            Rd::Buf(c) => many(T::from_bytes_many(BufReader::with_capacity(c, b))),
        })),
        ent(tn, "from_reader_single(binary)", true, Box::new(|b: &[u8], _a: &str, _rd: Rd| one(T::from_reader_single(b).map(|x| x.0)))),
        ent(tn, "from_reader_single_buf(binary)", true, Box::new(|b: &[u8], _a: &str, rd: Rd| match rd {
            Rd::Slice => one(T::from_reader_single_buf(b).map(|x| x.0)),
            Rd::Buf(c) => one(T::from_reader_single_buf(BufReader::with_capacity(c, b)).map(|x| x.0)),
        })),
        ent(tn, "from_reader_many(binary)", false, Box::new(|b: &[u8], _a: &str, _rd: Rd| many(T::from_reader_many(b).map(|x| x.0)))),
        ent(tn, "from_reader_many_buf(binary)", false, Box::new(|b: &[u8], _a: &str, rd: Rd| match rd {
            Rd::Slice => many(T::from_reader_many_buf(b).map(|x| x.0)),
            Rd::Buf(c) => many(T::from_reader_many_buf(BufReader::with_capacity(c, b)).map(|x| x.0)),
        })),
        ent(tn, "from_armor_single", true, Box::new(|_b: &[u8], a: &str, _rd: Rd| one(T::from_armor_single(a.as_bytes()).map(|x| x.0)))),
        ent(tn, "from_armor_single_buf", true, Box::new(|_b: &[u8], a: &str, rd: Rd| {
            one(T::from_armor_single_buf(BufReader::with_capacity(armor_cap(rd), a.as_bytes())).map(|x| x.0))
        })),
        ent(tn, "from_armor_many", false, Box::new(|_b: &[u8], a: &str, _rd: Rd| many(T::from_armor_many(a.as_bytes()).map(|x| x.0)))),
        ent(tn, "from_armor_many_buf", false, Box::new(|_b: &[u8], a: &str, rd: Rd| {
            many(T::from_armor_many_buf(BufReader::with_capacity(armor_cap(rd), a.as_bytes())).map(|x| x.0))
        })),
        ent(tn, "from_string", true, Box::new(|_b: &[u8], a: &str, _rd: Rd| one(T::from_string(a).map(|x| x.0)))),
        ent(tn, "from_string_many", false, Box::new(|_b: &[u8], a: &str, _rd: Rd| many(T::from_string_many(a).map(|x| x.0)))),
        ent(tn, "from_reader_single(armored)", true, Box::new(|_b: &[u8], a: &str, _rd: Rd| one(T::from_reader_single(a.as_bytes()).map(|x| x.0)))),
        ent(tn, "from_reader_many(armored)", false, Box::new(|_b: &[u8], a: &str, _rd: Rd| many(T::from_reader_many(a.as_bytes()).map(|x| x.0)))),
    ]
}

fn pos_entries() -> Vec<Entry> {
    let tn = "PublicOrSecret";
    vec![
        ent(tn, "from_bytes_many", false, Box::new(|b: &[u8], _a: &str, rd: Rd| match rd {
            Rd::Slice => many(PublicOrSecret::from_bytes_many(b)),
            Rd::Buf(c) => many(PublicOrSecret::from_bytes_many(BufReader::with_capacity(c, b))),
        })),
        ent(tn, "from_reader_many(binary)", false, Box::new(|b: &[u8], _a: &str, _rd: Rd| many(PublicOrSecret::from_reader_many(b).map(|x| x.0)))),
        ent(tn, "from_reader_many_buf(binary)", false, Box::new(|b: &[u8], _a: &str, rd: Rd| match rd {
            Rd::Slice => many(PublicOrSecret::from_reader_many_buf(b).map(|x| x.0)),
            Rd::Buf(c) => many(PublicOrSecret::from_reader_many_buf(BufReader::with_capacity(c, b)).map(|x| x.0)),
        })),
        ent(tn, "from_armor_many", false, Box::new(|_b: &[u8], a: &str, _rd: Rd| many(PublicOrSecret::from_armor_many(a.as_bytes()).map(|x| x.0)))),
        ent(tn, "from_armor_many_buf", false, Box::new(|_b: &[u8], a: &str, rd: Rd| {
            many(PublicOrSecret::from_armor_many_buf(BufReader::with_capacity(armor_cap(rd), a.as_bytes())).map(|x| x.0))
        })),
        ent(tn, "from_reader_many(armored)", false, Box::new(|_b: &[u8], a: &str, _rd: Rd| many(PublicOrSecret::from_reader_many(a.as_bytes()).map(|x| x.0)))),
    ]
}

fn any_entries(what: &str) -> Vec<Entry> {
    let tn = format!("Any[{what}]");
    vec![
        ent(&tn, "from_string", true, Box::new(|_b: &[u8], a: &str, _rd: Rd| any_outcome(Any::from_string(a)))),
        ent(&tn, "from_armor", true, Box::new(|_b: &[u8], a: &str, _rd: Rd| any_outcome(Any::from_armor(a.as_bytes())))),
        ent(&tn, "from_armor_buf", true, Box::new(|_b: &[u8], a: &str, rd: Rd| any_outcome(Any::from_armor_buf(BufReader::with_capacity(armor_cap(rd), a.as_bytes()))))),
    ]
}

fn cleartext_outcome(r: pgp::errors::Result<(CleartextSignedMessage, pgp::armor::Headers)>) -> Outcome {
    let mut o = Outcome::default();
    o.push_pkts(r.map(|(c, _)| cleartext_packets(&c)).map_err(|e| short_err(&e)));
    o
}

fn cleartext_entries() -> Vec<Entry> {
    let tn = "CleartextSignedMessage";
    let mut v = vec![
        ent(tn, "from_string", true, Box::new(|_b: &[u8], a: &str, _rd: Rd| cleartext_outcome(CleartextSignedMessage::from_string(a)))),
        ent(tn, "from_armor", true, Box::new(|_b: &[u8], a: &str, _rd: Rd| cleartext_outcome(CleartextSignedMessage::from_armor(a.as_bytes())))),
        ent(tn, "from_armor_buf", true, Box::new(|_b: &[u8], a: &str, rd: Rd| {
            cleartext_outcome(CleartextSignedMessage::from_armor_buf(BufReader::with_capacity(armor_cap(rd), a.as_bytes()), Default::default()))
        })),
    ];
    v.extend(any_entries("cleartext"));
    v
}

#[derive(Clone, Copy)]
enum MsgKind<'k> {
    Signed(&'k SignedPublicKey),
    Password,
    Plain,
}

/// what a reader of the message has to do to get at the (authenticated) payload
fn consume_message(mut m: Message<'_>, kind: MsgKind) -> Result<Vec<u8>, String> {
    if let MsgKind::Password = kind {
        m = m.decrypt_with_password(&"pw".into()).map_err(|e| format!("decrypt: {e}"))?;
    }
    let mut depth = 0;
    while m.is_compressed() {
        m = m.decompress().map_err(|e| format!("decompress: {e}"))?;
        depth += 1;
        if depth > 4 {
            return Err("nested too deep".into());
        }
    }
    let d = m.as_data_vec().map_err(|e| format!("read: {e}"))?;
    if let MsgKind::Signed(k) = kind {
        m.verify(&k.primary_key).map_err(|e| format!("verify: {e}"))?;
    }
    Ok(d)
}

const MSG_ENTRIES: [&str; 8] = [
    "Message::from_bytes",
    "Message::from_armor",
    "Message::from_string",
    "Message::from_reader(binary)",
    "Message::from_reader(armored)",
    "Any[message]::from_string",
    "Any[message]::from_armor",
    "Any[message]::from_armor_buf",
];

fn run_msg_entry(e: usize, bin: &[u8], text: &str, rd: Rd, kind: MsgKind) -> Result<Vec<u8>, String> {
    let pe = |e: pgp::errors::Error| format!("parse: {}", short_err(&e));
    let from_any = |r: pgp::errors::Result<(Any<'_>, pgp::armor::Headers)>| match r.map_err(pe)? {
        (Any::Message(m), _) => consume_message(m, kind),
        _ => Err("Any: not a message".to_string()),
    };
    match e {
        0 => match rd {
            Rd::Slice => consume_message(Message::from_bytes(bin).map_err(pe)?, kind),
            Rd::Buf(c) => consume_message(Message::from_bytes(BufReader::with_capacity(c, bin)).map_err(pe)?, kind),
        },
        1 => consume_message(Message::from_armor(BufReader::with_capacity(armor_cap(rd), text.as_bytes())).map_err(pe)?.0, kind),
        2 => consume_message(Message::from_string(text).map_err(pe)?.0, kind),
        3 => match rd {
            Rd::Slice => consume_message(Message::from_reader(bin).map_err(pe)?.0, kind),
            Rd::Buf(c) => consume_message(Message::from_reader(BufReader::with_capacity(c, bin)).map_err(pe)?.0, kind),
        },
        4 => consume_message(Message::from_reader(BufReader::with_capacity(armor_cap(rd), text.as_bytes())).map_err(pe)?.0, kind),
        5 => from_any(Any::from_string(text)),
        6 => from_any(Any::from_armor(text.as_bytes())),
        _ => from_any(Any::from_armor_buf(BufReader::with_capacity(armor_cap(rd), text.as_bytes()))),
    }
}

enum IcKind {
    /// composed objects that serialise back to their packets
    Objects(Vec<Entry>),
    Message { payload: Vec<u8>, signer: Option<usize>, password: bool },
}

struct IcObj {
    class: &'static str,
    name: String,
    /// armor label; None: the stream is the signature block of a cleartext signed document
    label: Option<&'static str>,
    /// (tag, body, object index)
    pkts: Vec<(u8, Vec<u8>, usize)>,
    kind: IcKind,
    /// a Marker in front and a Padding packet behind are skipped by the parser (extra variant)
    skippable_variant: bool,
    /// every offset also in the quick tier
    small: bool,
}

fn ic_text(label: Option<&'static str>, data: &[u8], variant: usize) -> String {
    let le = if variant % 3 == 2 { "\r\n" } else { "\n" };
    match label {
        Some(l) => rfc::armor::armor_encode(l, &[], data, variant % 2 == 0, le),
        None => {
            let mut s = String::from("-----BEGIN PGP SIGNED MESSAGE-----\nHash: SHA256\n\nframing test\n- dashed line\n");
            s.push_str(&rfc::armor::armor_encode("PGP SIGNATURE", &[], data, variant % 2 == 0, "\n"));
            s
        }
    }
}

fn lib_packets(ctx: &mut Ctx, what: &str, bytes: &[u8], obj: usize) -> Option<Vec<(u8, Vec<u8>, usize)>> {
    match deframe(bytes) {
        Ok(p) => Some(p.into_iter().map(|r| (r.tag, r.body, obj)).collect()),
        Err(e) => {
            ctx.inconclusive(format!("IC: reference cannot deframe {what}: {e}"));
            None
        }
    }
}

fn ic_objects(ctx: &mut Ctx) -> (Vec<IcObj>, Vec<SignedPublicKey>) {
    let specs = [
        zoo::Spec::simple(false, zoo::Alg::Ed25519Legacy, Some(zoo::Alg::EcdhCv25519)),
        zoo::Spec::simple(true, zoo::Alg::Ed25519, Some(zoo::Alg::X25519)),
        zoo::Spec::simple(false, zoo::Alg::EcdsaP256, Some(zoo::Alg::EcdhP256)),
        zoo::Spec::simple(false, zoo::Alg::Rsa2048, Some(zoo::Alg::Rsa2048)),
    ];
    let mut objs = vec![];
    let mut pubs = vec![];
    let mut tpks = vec![];
    let mut tsks = vec![];
    let mut sigs: Vec<(u8, Vec<u8>, usize)> = vec![];
    let payload = pat(1500, 17);
    for (ki, spec) in specs.iter().enumerate() {
        let key = zoo::key(spec, 0);
        let pubkey = key.to_public_key();
        let small = ki < 2;
        let kn = spec.name();
        let tpk = pubkey.to_bytes().ok().and_then(|b| lib_packets(ctx, "a certificate", &b, 0)).unwrap_or_default();
        let tsk = key.to_bytes().ok().and_then(|b| lib_packets(ctx, "a secret key", &b, 0)).unwrap_or_default();
        let mut e = std_entries::<SignedPublicKey>("SignedPublicKey");
        e.extend(pos_entries());
        e.extend(any_entries("public key"));
        objs.push(IcObj { class: "certificate", name: format!("certificate {kn}"), label: Some("PGP PUBLIC KEY BLOCK"), pkts: tpk.clone(), kind: IcKind::Objects(e), skippable_variant: true, small });
        let mut e = std_entries::<SignedSecretKey>("SignedSecretKey");
        e.extend(pos_entries());
        e.extend(any_entries("secret key"));
        objs.push(IcObj { class: "secret-key", name: format!("secret key {kn}"), label: Some("PGP PRIVATE KEY BLOCK"), pkts: tsk.clone(), kind: IcKind::Objects(e), skippable_variant: true, small });
        // a detached signature by this key
        match DetachedSignature::sign_binary_data(ctx_rng(40 + ki as u64), &key.primary_key, &Password::empty(), HashAlgorithm::Sha256, &payload[..]) {
            Ok(s) => {
                if let Some(p) = s.to_bytes().ok().and_then(|b| lib_packets(ctx, "a signature", &b, sigs.len())) {
                    sigs.extend(p);
                }
            }
            Err(e) => ctx.inconclusive(format!("IC: cannot make a detached signature: {e}")),
        }
        // messages
        if ki < 2 {
            let mut b = MessageBuilder::from_bytes("", payload.clone());
            b.sign(&key.primary_key, Password::empty(), HashAlgorithm::Sha256);
            match b.to_vec(ctx_rng(50 + ki as u64)) {
                Ok(v) => {
                    if let Some(p) = lib_packets(ctx, "a signed message", &v, 0) {
                        // the same, inside a compressed packet (algorithm 0: framing only)
                        let mut cbody = vec![0u8];
                        for (t, b, _) in &p {
                            cbody.extend(frame(*t, b, &LenForm::NewMin).unwrap_or_default());
                        }
                        objs.push(IcObj { class: "message-signed", name: format!("signed message {kn}"), label: Some("PGP MESSAGE"), pkts: p, kind: IcKind::Message { payload: payload.clone(), signer: Some(ki), password: false }, skippable_variant: false, small: false });
                        objs.push(IcObj { class: "message-compressed-signed", name: format!("compressed signed message {kn}"), label: Some("PGP MESSAGE"), pkts: vec![(8, cbody, 0)], kind: IcKind::Message { payload: payload.clone(), signer: Some(ki), password: false }, skippable_variant: false, small: false });
                    }
                }
                Err(e) => ctx.inconclusive(format!("IC: cannot build signed message: {e}")),
            }
            let mut rng = ctx_rng(60 + ki as u64);
            let s2k = StringToKey::new_iterated(&mut rng, Default::default(), 2);
            let r = if spec.v6 {
                let mut b = MessageBuilder::from_bytes("", payload.clone()).seipd_v2(&mut rng, SymmetricKeyAlgorithm::AES128, AeadAlgorithm::Ocb, ChunkSize::C256B);
                b.encrypt_with_password(ctx_rng(61), s2k, &"pw".into())
                    .and_then(|b| b.encrypt_to_key(ctx_rng(62), &pubkey.public_subkeys[0]).map(|_| ()))
                    .and_then(|_| b.to_vec(&mut rng))
            } else {
                let mut b = MessageBuilder::from_bytes("", payload.clone()).seipd_v1(&mut rng, SymmetricKeyAlgorithm::AES128);
                b.encrypt_with_password(s2k, &"pw".into())
                    .and_then(|b| b.encrypt_to_key(ctx_rng(62), &pubkey.public_subkeys[0]).map(|_| ()))
                    .and_then(|_| b.to_vec(&mut rng))
            };
            match r {
                Ok(v) => {
                    if let Some(p) = lib_packets(ctx, "an encrypted message", &v, 0) {
                        objs.push(IcObj { class: "message-encrypted", name: format!("encrypted message {kn}"), label: Some("PGP MESSAGE"), pkts: p, kind: IcKind::Message { payload: payload.clone(), signer: None, password: true }, skippable_variant: false, small: false });
                    }
                }
                Err(e) => ctx.inconclusive(format!("IC: cannot build encrypted message: {e}")),
            }
        }
        pubs.push(pubkey);
        tpks.push(tpk);
        tsks.push(tsk);
    }
    // a plain literal message
    objs.push(IcObj { class: "message-literal", name: "literal message".into(), label: Some("PGP MESSAGE"), pkts: vec![(11, literal_body(b"", &payload), 0)], kind: IcKind::Message { payload: payload.clone(), signer: None, password: false }, skippable_variant: false, small: false });
    // key rings
    let ring = |a: &[(u8, Vec<u8>, usize)], b: &[(u8, Vec<u8>, usize)]| -> Vec<(u8, Vec<u8>, usize)> {
        a.iter().cloned().chain(b.iter().map(|(t, x, _)| (*t, x.clone(), 1))).collect()
    };
    let mut e = std_entries::<SignedPublicKey>("SignedPublicKey");
    e.extend(pos_entries());
    objs.push(IcObj { class: "ring-public", name: "ring of two certificates".into(), label: Some("PGP PUBLIC KEY BLOCK"), pkts: ring(&tpks[0], &tpks[1]), kind: IcKind::Objects(e), skippable_variant: true, small: true });
    let mut e = std_entries::<SignedSecretKey>("SignedSecretKey");
    e.extend(pos_entries());
    objs.push(IcObj { class: "ring-secret", name: "ring of two secret keys".into(), label: Some("PGP PRIVATE KEY BLOCK"), pkts: ring(&tsks[1], &tsks[0]), kind: IcKind::Objects(e), skippable_variant: true, small: true });
    objs.push(IcObj { class: "ring-mixed", name: "ring of a secret key and a certificate".into(), label: Some("PGP PRIVATE KEY BLOCK"), pkts: ring(&tsks[0], &tpks[2]), kind: IcKind::Objects(pos_entries()), skippable_variant: true, small: true });
    // detached signatures: one, and several in one stream
    if !sigs.is_empty() {
        let mut e = std_entries::<DetachedSignature>("DetachedSignature");
        e.extend(any_entries("signature"));
        objs.push(IcObj { class: "signature", name: "one detached signature".into(), label: Some("PGP SIGNATURE"), pkts: sigs[..1].to_vec(), kind: IcKind::Objects(e), skippable_variant: true, small: true });
        let mut e = std_entries::<DetachedSignature>("DetachedSignature");
        e.extend(any_entries("signature"));
        objs.push(IcObj { class: "signatures", name: format!("{} detached signatures", sigs.len()), label: Some("PGP SIGNATURE"), pkts: sigs.clone(), kind: IcKind::Objects(e), skippable_variant: true, small: true });
        // in a cleartext signed document all signatures belong to the one object
        let all0: Vec<_> = sigs.iter().map(|(t, b, _)| (*t, b.clone(), 0)).collect();
        objs.push(IcObj { class: "cleartext-signatures", name: "signature block of a cleartext signed message".into(), label: None, pkts: all0, kind: IcKind::Objects(cleartext_entries()), skippable_variant: false, small: true });
    }
    (objs, pubs)
}

fn ic_case(ctx: &mut Ctx, obj: &IcObj, pubs: &[SignedPublicKey], oi: usize, variant: usize, skippable: bool, slice: (usize, usize)) {
    let mut pkts = obj.pkts.clone();
    if pkts.is_empty() {
        return;
    }
    if skippable {
        // the Padding packet behind is its own "object": a single-object entry point need not read it
        let last_obj = pkts.last().map(|p| p.2).unwrap_or(0);
        pkts.insert(0, (10, b"PGP".to_vec(), 0));
        pkts.push((21, pat(70 + 150 * (variant % 2), 5), last_obj + 1));
    }
    let forms: Vec<LenForm> = pkts.iter().enumerate().map(|(i, (t, b, _))| rotate_form(*t, b.len(), variant + i, false)).collect();
    let Some(laid) = lay_out(&pkts, &forms) else {
        ctx.inconclusive("IC: reference framer refused a form");
        return;
    };
    let used: Vec<&'static str> = laid.pk.iter().map(|p| p.form).collect();
    let n = laid.stream.len();
    let all = obj.small || !ctx.quick();
    let mut offs = laid.cut_offsets(all, &mut ctx.rng("IC.offsets", (oi * 64 + variant) as u64));
    offs.push(n);
    let want_upto = |k: usize, only_obj0: bool| -> Pkts {
        pkts[..k].iter().filter(|p| !skipped(p.0) && (!only_obj0 || p.2 == 0)).map(|p| (p.0, p.1.clone())).collect()
    };
    let class = obj.class;
    for (ci, c) in offs.iter().enumerate() {
        // long streams are spread over several cases (interleaved offsets)
        if ci % slice.1 != slice.0 {
            continue;
        }
        let cut = laid.classify(*c);
        let bin = &laid.stream[..*c];
        // the reference decides what the cut stream is
        let ref_ok = deframe(bin).is_ok();
        let ref_expected = !matches!(cut, Cut::Header(_) | Cut::Body(_));
        if ref_ok != ref_expected {
            ctx.inconclusive(format!("IC generator: reference deframer disagrees with the layout ({cut:?})"));
            continue;
        }
        let text = ic_text(obj.label, bin, variant);
        let (k, wher) = match cut {
            Cut::Boundary(k) => (k, "boundary"),
            Cut::Header(k) => (k, "header"),
            Cut::Body(k) => (k, "body"),
            Cut::Uncut => (pkts.len(), "uncut"),
        };
        if let Some(p) = laid.pk.get(k) {
            ctx.seen("IC.cells(tag-class,form,cut)", format!("{}:{}:{}", tag_class(p.tag), p.form, wher));
            ctx.seen("IC.cut_tags", format!("{}", p.tag));
        }
        ctx.tally(&format!("IC.cuts.{wher}"), 1);
        ctx.cover(&("IC", oi, variant, skippable, *c));
        let where_text = match laid.pk.get(k) {
            Some(p) if wher == "body" => format!("inside packet {k} (tag {}, {}, {} of {} body octets present)", p.tag, p.form, c - p.body, p.end - p.body),
            Some(p) if wher == "header" => format!("inside the header of packet {k} (tag {}, {})", p.tag, p.form),
            Some(p) => format!("on the boundary in front of packet {k} (tag {})", p.tag),
            None => "not at all".to_string(),
        };
        match &obj.kind {
            IcKind::Objects(entries) => {
                for (ei, entry) in entries.iter().enumerate() {
                    let rd = RDS[(ci + ei) % RDS.len()];
                    let replay = || json!({"family": "IC", "object": obj.name, "entry": entry.name, "forms": used, "cut": c, "of": n, "reader": format!("{rd:?}"), "input": hexs(bin), "armored": text});
                    let Some(out) = ctx.guarded("C17/composed-cut", replay, || (entry.run)(bin, &text, rd)) else { continue };
                    ctx.eval();
                    ctx.seen("IC.entries", entry.name.clone());
                    if let Some(why) = &out.bad_rewrite {
                        ctx.violation(format!("C17/composed-cut/rewrite/{class}"), format!("{}: {why}", entry.name), replay());
                    }
                    let got = out.ok_packets();
                    match cut {
                        Cut::Uncut => {
                            let want = want_upto(pkts.len(), entry.single);
                            if out.has_err() {
                                ctx.violation(format!("C17/composed-cut/rejects-legal/{class}"), format!("{} on the complete {} (packet framings {used:?}): {}", entry.name, obj.name, out.short()), replay());
                            } else if got != want {
                                ctx.violation(format!("C17/composed-cut/differs/{class}"), format!("{} on the complete {} (packet framings {used:?}): {} packets expected, got {}", entry.name, obj.name, want.len(), out.short()), replay());
                            }
                        }
                        _ => {
                            let demanded = !entry.single || laid.pk[k].obj == 0;
                            if wher == "body" && demanded && !out.has_err() {
                                ctx.violation(
                                    format!("C17/composed-cut/accepted/{class}"),
                                    format!(
                                        "{}: the {} ({} packets, {n} octets, framings {used:?}) cut at offset {c}, {where_text}: no error, returned [{}]; the body of packet {k} is shorter than its declared length, the uncut stream gives {} packets",
                                        entry.name, obj.name, pkts.len(), out.short(), want_upto(pkts.len(), entry.single).len()
                                    ),
                                    replay(),
                                );
                            }
                            if wher == "header" {
                                ctx.tally(if out.has_err() { "IC.header_cut.error" } else { "IC.header_cut.silent" }, 1);
                            }
                            if !is_subsequence(&got, &want_upto(k, false)) {
                                ctx.violation(
                                    format!("C17/composed-cut/foreign-packet/{class}"),
                                    format!("{}: the {} cut at offset {c}, {where_text}: returned [{}], which holds a packet that is not one of the {k} complete packets in front of the cut", entry.name, obj.name, out.short()),
                                    replay(),
                                );
                            }
                        }
                    }
                }
            }
            IcKind::Message { payload, signer, password } => {
                let kind = match (signer, password) {
                    (Some(i), _) => MsgKind::Signed(&pubs[*i]),
                    (None, true) => MsgKind::Password,
                    _ => MsgKind::Plain,
                };
                for (ei, ename) in MSG_ENTRIES.iter().enumerate() {
                    let rd = RDS[(ci + ei) % RDS.len()];
                    let replay = || json!({"family": "IC", "object": obj.name, "entry": ename, "forms": used, "cut": c, "of": n, "reader": format!("{rd:?}"), "input": hexs(bin), "armored": text});
                    let Some(r) = ctx.guarded("C17/composed-cut", replay, || run_msg_entry(ei, bin, &text, rd, kind)) else { continue };
                    ctx.eval();
                    ctx.seen("IC.entries", *ename);
                    match (cut, r) {
                        (Cut::Uncut, Err(e)) => ctx.violation(format!("C17/composed-cut/rejects-legal/{class}"), format!("{ename} on the complete {} (packet framings {used:?}): {e}", obj.name), replay()),
                        (Cut::Uncut, Ok(d)) => {
                            if &d != payload {
                                ctx.violation(format!("C17/composed-cut/differs/{class}"), format!("{ename} on the complete {} (packet framings {used:?}): {} octets read, payload has {}", obj.name, d.len(), payload.len()), replay());
                            }
                        }
                        (Cut::Body(_), Ok(d)) => ctx.violation(
                            format!("C17/composed-cut/accepted/{class}"),
                            format!("{ename}: the {} ({} packets, {n} octets, framings {used:?}) cut at offset {c}, {where_text}: parsed, read ({} octets) and checked without any error", obj.name, pkts.len(), d.len()),
                            replay(),
                        ),
                        (_, Ok(d)) => {
                            if !payload.starts_with(&d) {
                                ctx.violation(format!("C17/composed-cut/foreign-packet/{class}"), format!("{ename}: the {} cut at offset {c}, {where_text}: read {} octets that are not a prefix of the payload", obj.name, d.len()), replay());
                            }
                            if wher == "header" {
                                ctx.tally("IC.header_cut.silent", 1);
                            }
                        }
                        (_, Err(_)) => {
                            if wher == "header" {
                                ctx.tally("IC.header_cut.error", 1);
                            }
                        }
                    }
                }
            }
        }
    }
    if oi == 0 && variant == 1 && slice.0 == 0 {
        let c = laid.pk.get(2).map(|p| p.body + 3).unwrap_or(0).min(n);
        ctx.sample(json!({"family": "IC", "object": obj.name, "forms": used, "cut": c, "of": n, "input": hexs(&laid.stream[..c]), "expected": "error from every composed parser"}));
    }
}

fn family_ic(ctx: &mut Ctx) {
    // the number and order of cases does not depend on the objects' contents
    let (objs, pubs) = ic_objects(ctx);
    for o in &objs {
        ctx.seen("IC.objects", o.class);
    }
    let nv = ctx.qt(7usize, 14usize);
    for (oi, obj) in objs.iter().enumerate() {
        // every offset of a long stream through all entry points is too much for one case
        let slices = if ctx.quick() || obj.small { 1 } else { 8 };
        for variant in 0..nv + usize::from(obj.skippable_variant) {
            for sl in 0..slices {
                if !ctx.mine() {
                    continue;
                }
                describe_case(&format!("IC: {} variant {variant} offsets {sl} mod {slices}", obj.name));
                ic_case(ctx, obj, &pubs, oi, variant % nv, variant >= nv, (sl, slices));
            }
        }
    }
}

// ------------------------------------------------------------------------------------------------
// Family W: everything MessageBuilder writes is deframed by the reference

#[derive(Clone, Copy, Debug, PartialEq, Eq, Hash)]
enum Enc {
    None,
    V1,
    V2,
}

#[derive(Clone, Debug, Hash)]
struct WCfg {
    cs: u32,
    size: usize,
    from_reader: bool,
    sched: usize,
    comp: Option<u8>,
    enc: Enc,
    sign: bool,
}

impl WCfg {
    fn class(&self) -> String {
        format!(
            "{}-{}-{}",
            if self.from_reader { "reader" } else { "bytes" },
            match self.comp {
                None => "plain",
                Some(0) => "uncompressed",
                Some(1) => "zip",
                _ => "zlib",
            },
            match self.enc {
                Enc::None => "clear",
                Enc::V1 => "seipd1",
                Enc::V2 => "seipd2",
            }
        )
    }
}

const W_NAME: &[u8] = b"w.bin";

fn w_finish<'a, R: Read>(mut b: MessageBuilder<'a, R>, cfg: &WCfg, key: &'a SignedSecretKey, seed: u64) -> Result<(Vec<u8>, Option<Vec<u8>>), String> {
    let mut rng = ctx_rng(seed);
    b.partial_chunk_size(cfg.cs).map_err(|e| e.to_string())?;
    if let Some(c) = cfg.comp {
        b.compression(match c {
            0 => CompressionAlgorithm::Uncompressed,
            1 => CompressionAlgorithm::ZIP,
            _ => CompressionAlgorithm::ZLIB,
        });
    }
    if cfg.sign {
        b.sign(&key.primary_key, Password::empty(), HashAlgorithm::Sha256);
    }
    match cfg.enc {
        Enc::None => b.to_vec(&mut rng).map(|v| (v, None)).map_err(|e| e.to_string()),
        Enc::V1 => {
            let mut b = b.seipd_v1(&mut rng, SymmetricKeyAlgorithm::AES128);
            let s2k = StringToKey::new_iterated(&mut rng, Default::default(), 2);
            b.encrypt_with_password(s2k, &"pw".into()).map_err(|e| e.to_string())?;
            let sk = b.session_key().as_ref().to_vec();
            b.to_vec(&mut rng).map(|v| (v, Some(sk))).map_err(|e| e.to_string())
        }
        Enc::V2 => {
            let aead = [AeadAlgorithm::Ocb, AeadAlgorithm::Eax, AeadAlgorithm::Gcm][(seed % 3) as usize];
            let chunk = [ChunkSize::C64B, ChunkSize::C1KiB, ChunkSize::C4KiB][((seed / 3) % 3) as usize];
            let mut b = b.seipd_v2(&mut rng, SymmetricKeyAlgorithm::AES128, aead, chunk);
            let s2k = StringToKey::new_iterated(&mut rng, Default::default(), 2);
            b.encrypt_with_password(ctx_rng(seed + 1), s2k, &"pw".into()).map_err(|e| e.to_string())?;
            let sk = b.session_key().as_ref().to_vec();
            b.to_vec(&mut rng).map(|v| (v, Some(sk))).map_err(|e| e.to_string())
        }
    }
}

#[derive(Default, Debug)]
struct PlainInfo {
    ops: usize,
    sigs: usize,
    literals: usize,
    name: Vec<u8>,
    payload: Vec<u8>,
    lit_chunks: Vec<u32>,
    cmp: Vec<(u8, Vec<u32>)>,
}

fn inflate(alg: u8, data: &[u8]) -> Result<Vec<u8>, String> {
    let mut out = vec![];
    match alg {
        0 => out.extend_from_slice(data),
        1 => {
            flate2::read::DeflateDecoder::new(data).read_to_end(&mut out).map_err(|e| format!("inflate: {e}"))?;
        }
        2 => {
            flate2::read::ZlibDecoder::new(data).read_to_end(&mut out).map_err(|e| format!("zlib: {e}"))?;
        }
        a => return Err(format!("compression algorithm {a} not handled by the harness")),
    }
    Ok(out)
}

/// (symptom, detail)
type WErr = (&'static str, String);

fn analyse_plain(stream: &[u8], depth: usize, info: &mut PlainInfo) -> Result<(), WErr> {
    let pk = deframe(stream).map_err(|e| ("deframe-error", format!("depth {depth}: {e}")))?;
    check_written(&pk).map_err(|e| ("illegal", format!("depth {depth}: {e}")))?;
    let consumed: usize = pk.iter().map(|r| r.encoded_len).sum();
    if consumed != stream.len() {
        return Err(("length-mismatch", format!("depth {depth}: packets cover {consumed} of {}", stream.len())));
    }
    for p in &pk {
        match p.tag {
            4 => info.ops += 1,
            2 => info.sigs += 1,
            11 => {
                info.literals += 1;
                let b = &p.body;
                if b.len() < 6 || b.len() < 6 + b[1] as usize {
                    return Err(("structure", format!("literal body of {} octets too short", b.len())));
                }
                let nl = b[1] as usize;
                info.name = b[2..2 + nl].to_vec();
                info.payload = b[6 + nl..].to_vec();
                info.lit_chunks = p.partial_chunks.clone();
            }
            8 => {
                if depth >= 3 {
                    return Err(("structure", "compression nested too deep".into()));
                }
                if p.body.is_empty() {
                    return Err(("structure", "empty compressed packet".into()));
                }
                info.cmp.push((p.body[0], p.partial_chunks.clone()));
                let inner = inflate(p.body[0], &p.body[1..]).map_err(|e| ("compressed-body-corrupt", e))?;
                analyse_plain(&inner, depth + 1, info)?;
            }
            t => return Err(("structure", format!("unexpected packet type {t} at depth {depth}"))),
        }
    }
    Ok(())
}

fn w_case(ctx: &mut Ctx, cfg: &WCfg, key: &SignedSecretKey, seed: u64) {
    let compressible = cfg.comp.is_some_and(|c| c > 0) && seed % 2 == 1;
    let payload: Vec<u8> = if compressible { (0..cfg.size).map(|i| b"framing "[i % 8]).collect() } else { pat(cfg.size, seed as u32) };
    let class = cfg.class();
    let replay = || json!({"family": "W", "cfg": format!("{cfg:?}"), "seed": seed, "compressible": compressible});
    let scheds = [Sched::All, Sched::Random(seed, 700), Sched::Cycle(vec![511, 1, 512]), Sched::Fixed(4096), Sched::Fixed(1)];
    let Some((res, ev)) = ctx.guarded("C17/writer", replay, || {
        hooks::record(|| {
            if cfg.from_reader {
                let src = SchedReader::new(payload.clone(), scheds[cfg.sched % scheds.len()].clone());
                w_finish(MessageBuilder::from_reader(W_NAME, src), cfg, key, seed)
            } else {
                w_finish(MessageBuilder::from_bytes(W_NAME, payload.clone()), cfg, key, seed)
            }
        })
    }) else {
        return;
    };
    ctx.eval();
    let (out, sk) = match res {
        Ok(x) => x,
        Err(e) => {
            ctx.violation(format!("C17/writer/builder-error/{class}"), format!("MessageBuilder failed: {e}"), replay());
            return;
        }
    };
    let replay = || json!({"family": "W", "cfg": format!("{cfg:?}"), "seed": seed, "compressible": compressible, "stream": hexs(&out)});
    // outer layer
    let mut info = PlainInfo::default();
    let mut enc_chunks: Option<Vec<u32>> = None;
    let verdict: Result<(), WErr> = (|| {
        if cfg.enc == Enc::None {
            return analyse_plain(&out, 0, &mut info);
        }
        let pk = deframe(&out).map_err(|e| ("deframe-error", format!("outer: {e}")))?;
        check_written(&pk).map_err(|e| ("illegal", format!("outer: {e}")))?;
        let tags: Vec<u8> = pk.iter().map(|p| p.tag).collect();
        if tags != [3, 18] {
            return Err(("structure", format!("encrypted message has packet types {tags:?}, expected [3, 18]")));
        }
        let body = &pk[1].body;
        enc_chunks = Some(pk[1].partial_chunks.clone());
        let sk = sk.as_deref().unwrap_or_default();
        let plain = match cfg.enc {
            Enc::V1 => {
                if body.first() != Some(&1) {
                    return Err(("structure", "SEIPD version octet is not 1".into()));
                }
                rfc::sym::seipd_v1_decrypt(7, sk, &body[1..]).map_err(|e| ("encrypted-body-corrupt", format!("reference SEIPDv1 decryption of the deframed body: {e:?}")))?
            }
            _ => rfc::sym::seipd_v2_decrypt(body, sk).map_err(|e| ("encrypted-body-corrupt", format!("reference SEIPDv2 decryption of the deframed body: {e:?}")))?,
        };
        analyse_plain(&plain, 0, &mut info)
    })();
    if let Err((sym, detail)) = verdict {
        ctx.violation(format!("C17/writer/{sym}/{class}"), format!("{cfg:?}: {detail}"), replay());
        return;
    }
    let want_sigs = usize::from(cfg.sign);
    if info.literals != 1 || info.ops != want_sigs || info.sigs != want_sigs || info.cmp.len() != usize::from(cfg.comp.is_some()) {
        ctx.violation(format!("C17/writer/structure/{class}"), format!("{cfg:?}: found {} literal, {} OPS, {} signatures, {} compressed layers", info.literals, info.ops, info.sigs, info.cmp.len()), replay());
        return;
    }
    // (the builder deliberately writes an empty file name; the name is not part of this property)
    if info.payload != payload {
        ctx.violation(
            format!("C17/writer/payload-differs/{class}"),
            format!("{cfg:?}: literal body carries {} octets (name {:?}), payload has {} (first difference at {:?})", info.payload.len(), String::from_utf8_lossy(&info.name), payload.len(), first_diff(&info.payload, &payload)),
            replay(),
        );
        return;
    }
    if let Some((alg, _)) = info.cmp.first() {
        if Some(*alg) != cfg.comp {
            ctx.violation(format!("C17/writer/structure/{class}"), format!("{cfg:?}: compression algorithm octet {alg}"), replay());
        }
    }
    // coverage: chunk shapes written
    let shape = |c: &[u32]| match c.len() {
        0 => "fixed",
        1 => "1-partial",
        2 => "2-partial",
        _ => "3+-partial",
    };
    ctx.seen("W.literal_shapes", shape(&info.lit_chunks));
    if let Some((_, c)) = info.cmp.first() {
        ctx.seen("W.compressed_shapes", shape(c));
    }
    if let Some(c) = &enc_chunks {
        ctx.seen("W.encrypted_shapes", shape(c));
    }
    for c in info.lit_chunks.iter().chain(info.cmp.iter().flat_map(|x| x.1.iter())).chain(enc_chunks.iter().flatten()) {
        ctx.seen("W.chunk_sizes_written", format!("{c}"));
    }
    ctx.seen("W.classes", class.clone());
    // hook evidence and the two conservation invariants
    if hooks::available() {
        for (site, chunks) in [("lit.chunk", Some(&info.lit_chunks)), ("cmp.chunk", info.cmp.first().map(|x| &x.1)), ("enc.chunk", enc_chunks.as_ref())] {
            let evs: Vec<_> = ev.iter().filter(|e| e.site == site).collect();
            for e in &evs {
                let phase = match (e.a, e.c) {
                    (1, 0) => "single-fixed",
                    (1, _) => "first-partial",
                    (0, 1) => "middle-partial",
                    _ => {
                        if e.b == 0 {
                            "final-fixed-empty"
                        } else {
                            "final-fixed"
                        }
                    }
                };
                ctx.seen(&format!("hook.{site}.phase"), phase);
            }
            if let Some(chunks) = chunks {
                let partial_events = evs.iter().filter(|e| e.c == 1).count();
                if !evs.is_empty() && partial_events != chunks.len() {
                    ctx.violation(
                        format!("C17/writer/hook-chunk-mismatch/{class}"),
                        format!("{cfg:?}: generator {site} reported {partial_events} partial chunks, the stream carries {}", chunks.len()),
                        replay(),
                    );
                }
            }
            if site == "lit.chunk" && !evs.is_empty() {
                let sum: u64 = evs.iter().map(|e| e.b).sum();
                if sum != payload.len() as u64 {
                    ctx.violation(format!("C17/writer/hook-chunk-mismatch/{class}"), format!("{cfg:?}: lit.chunk bodies sum to {sum}, payload {}", payload.len()), replay());
                }
            }
        }
    }
    ctx.cover(&("W", cfg));
    if cfg.from_reader && cfg.size > cfg.cs as usize && cfg.enc == Enc::None && cfg.comp.is_none() && !cfg.sign && cfg.cs == 512 {
        ctx.sample(json!({"family": "W", "cfg": format!("{cfg:?}"), "literal_chunks": info.lit_chunks, "stream_prefix": hexs(&out[..out.len().min(48)])}));
    }
}

fn family_writer(ctx: &mut Ctx) {
    let key = zoo::key(&zoo::Spec::simple(false, zoo::Alg::Ed25519Legacy, None), 0);
    // the builder writes an empty file name: literal header = mode, name length, date
    let hl = 6;
    let css: Vec<u32> = ctx.qt(vec![512, 1024, 2048, 4096, 8192], vec![512, 1024, 2048, 4096, 8192, 16384, 65536]);
    let mut seed = 0u64;
    for cs in css {
        let c = cs as usize;
        let mut sizes = vec![0, 1, c - hl - 1, c - hl, c - hl + 1, c - 1, c, c + 1, 2 * c - hl - 1, 2 * c - hl, 2 * c - hl + 1, 2 * c, 3 * c - hl, 3 * c + 5];
        if !ctx.quick() {
            sizes.extend([c - 2, c - 22, c - 23, 2 * c - 1, 2 * c + 1, 4 * c - hl, 5 * c + 1, 70000]);
        }
        for (si, size) in sizes.into_iter().enumerate() {
            for from_reader in [false, true] {
                seed += 100;
                if !ctx.mine() {
                    continue;
                }
                describe_case(&format!("W: chunk size {cs} payload {size} from_reader {from_reader}"));
                let mut k = 0u64;
                for comp in [None, Some(0u8), Some(1), Some(2)] {
                    for enc in [Enc::None, Enc::V1, Enc::V2] {
                        for sign in [false, true] {
                            k += 1;
                            let cfg = WCfg { cs, size, from_reader, sched: si + k as usize, comp, enc, sign };
                            w_case(ctx, &cfg, &key, seed + k);
                        }
                    }
                }
                ctx.seen("W.partial_chunk_sizes_configured", format!("{cs}"));
            }
        }
    }
    // default chunk size (512 KiB) once per source kind, thorough only
    if !ctx.quick() {
        for (i, size) in [512 * 1024 - 12usize, 512 * 1024 - 11, 1024 * 1024 + 7].into_iter().enumerate() {
            if !ctx.mine() {
                continue;
            }
            describe_case(&format!("W: default chunk size payload {size}"));
            for (j, comp) in [None, Some(0u8)].into_iter().enumerate() {
                let cfg = WCfg { cs: 512 * 1024, size, from_reader: true, sched: 0, comp, enc: [Enc::None, Enc::V1, Enc::V2][(i + j) % 3], sign: false };
                w_case(ctx, &cfg, &key, 900_000 + i as u64);
            }
        }
    }
    // WP: single packets written with their header (fixed lengths around the encoding thresholds)
    for (li, len) in boundary_lens(ctx).into_iter().enumerate() {
        if !ctx.mine() {
            continue;
        }
        describe_case(&format!("WP: packets with body {len}"));
        let data = pat(len, li as u32);
        // literal: body = 6 + name + data
        for name in [&b""[..], &b"abc"[..]] {
            if len < 6 + name.len() {
                continue;
            }
            let d = &data[..len - 6 - name.len()];
            let Ok(lit) = pgp::packet::LiteralData::from_bytes(name.to_vec(), bytes::Bytes::copy_from_slice(d)) else { continue };
            let p = Packet::from(lit);
            let Some(Ok(ser)) = ctx.guarded("C17/writer", || json!({"family": "WP", "len": len}), || p.to_bytes()) else { continue };
            if let Some(pk) = written_ok(ctx, "LiteralData to_bytes", "packet", &ser, &|| json!({"family": "WP", "len": len, "stream": hexs(&ser)})) {
                if pk.len() != 1 || pk[0].tag != 11 || pk[0].body.len() != len || !pk[0].body.ends_with(d) || ser.len() != p.write_len() {
                    ctx.violation("C17/writer/packet-differs", format!("literal with body {len}: deframed to {:?}, write_len {}", pk.iter().map(|r| (r.tag, r.body.len())).collect::<Vec<_>>(), p.write_len()), json!({"family": "WP", "len": len, "stream": hexs(&ser)}));
                }
                ctx.cover(&("WP", "lit", len, name.len()));
            }
        }
        // user id, old and new header
        if let Ok(sid) = std::str::from_utf8(&ascii(len, 3)) {
            for ver in [PacketHeaderVersion::New, PacketHeaderVersion::Old] {
                let Ok(uid) = pgp::packet::UserId::from_str(ver, sid) else { continue };
                let p = Packet::from(uid);
                let Some(Ok(ser)) = ctx.guarded("C17/writer", || json!({"family": "WP", "len": len}), || p.to_bytes()) else { continue };
                ctx.eval();
                match deframe(&ser) {
                    Ok(pk) if pk.len() == 1 && pk[0].tag == 13 && pk[0].body == sid.as_bytes() && pk[0].new_format == (ver == PacketHeaderVersion::New) && ser.len() == p.write_len() => {
                        ctx.cover(&("WP", "uid", len, ver == PacketHeaderVersion::New));
                    }
                    other => ctx.violation("C17/writer/packet-differs", format!("user id of {len} octets ({ver:?} header): {:?}", other.map(|v| v.iter().map(|r| (r.tag, r.new_format, r.body.len())).collect::<Vec<_>>())), json!({"family": "WP", "len": len, "stream": hexs(&ser)})),
                }
            }
        }
    }
}

pub fn run(ctx: &mut Ctx) {
    // finite sub-spaces enumerated completely: see meta/C17.json "exhaustive_note"
    ctx.exhaustive = true;
    family_header_codec(ctx);
    family_ra(ctx);
    family_rb(ctx);
    family_rm(ctx);
    family_rz(ctx);
    family_illegal(ctx);
    family_ic(ctx);
    family_writer(ctx);
}
