//! C10 — ASCII armor round trip, checksum correctness and tolerant reading.
//!
//! Oracles
//!  1. writer: `armor::write` (and the second emitter in `MessageBuilder::to_armored_*`) against the
//!     independent reference (`rfc::armor`): BEGIN/END lines, header lines, body lines <= 64 chars of
//!     canonical base64 of the data, `=`+CRC-24 line, for every length, block type, header map,
//!     checksum on/off, source write chunking and sink schedule.
//!  2. reader: `Dearmor` over the library output and over reference-produced formatting variants
//!     must give the same (bytes, type, headers, checksum field) for every source read schedule,
//!     source wrapper, consumer pattern and consumer call sequence (families A, L and P).
//!  3. CRC option: accepted iff the checksum matches; status values.
//!  4. `to_armored_*` / `from_armor*` of keys, messages, detached signatures.
//!
//! Violation signatures (`<variant>` = name of the formatting variant or `lib-output`):
//!  * `C10/writer/<clause>` and `C10/composed/<object>/<clause>` with clause in `error`, `not-utf8`,
//!    `malformed`, `begin-end-line`, `header-lines`, `line-longer-than-64`, `body-not-canonical-base64`,
//!    `body-not-data`, `checksum-missing`, `checksum-wrong`, `checksum-unrequested`,
//!    `checksum-line-malformed`, `trailing-garbage`; `C10/composed/<object>/{armor-error,
//!    string-vs-bytes, read-error/<api>, roundtrip-differs/<api>, headers-differ/<api>}`.
//!  * `C10/reader/<symptom>/<variant>` with symptom in `armor-header-error`, `armor-footer-error`,
//!    `crc-error`, `other-error`, `type-differs`, `data-differs`, `headers-differ`,
//!    `checksum-field-differs`, `status-differs`, `rest-differs`, `data-after-end` (calls made after
//!    the end of the stream was reported deliver octets); the same with
//!    `schedule-dependent/` in front when the baseline drive (whole input in one window) of the same
//!    input met the expectation.
//!  * `C10/reader/call-sequence-dependent/<symptom>` (no input class): the same input over the same
//!    source side and entry point meets the expectation when the consumer uses plain `read_to_end`,
//!    but not under a legal, unusual call sequence on the `Read` side of the `Dearmor` (zero-length
//!    reads before / between / after real reads, 1-octet reads, a read of exactly the data length,
//!    reads larger than the data, calls after the end, `read` mixed with `read_to_end`, `take`,
//!    `read_vectored`; see `PAT_NAMES`). With the CRC option on, the same drives report under
//!    `C10/crc-check/<symptom>/call-pattern`.
//!  * `C10/crc-check/<symptom>/<variant>`: `no-checksum-rejected`, `status-differs/no-checksum`,
//!    `status-differs/correct-checksum`, `data-differs`, `correct-checksum-rejected/calc=other`,
//!    `wrong-checksum-accepted`, `wrong-checksum-other-failure`, `<error class>`.
//!  * four signatures without input class, each naming one defect present on the tree the monitor
//!    was written against:
//!    `C10/crc-check/correct-checksum-rejected/calc=B704CE` and
//!    `C10/crc-check/wrong-checksum-accepted/calc=B704CE` (CRC accumulator updated on a copy: the
//!    calculated value stays at the initial value, so every correct checksum over non-empty data is
//!    rejected and a footer equal to the initial value is accepted),
//!    `C10/reader/schedule-dependent/armor-header-error/headers-present` (a window of the source
//!    ending inside the armor header lines makes header parsing fail),
//!    `C10/reader/headers-differ/hdr-value-ends-with-colon` (a header value ending in ':' is read
//!    back as part of the key).
//!  * `<prefix>/panic/<file:line>` from the panic guard.

use std::collections::BTreeMap;
use std::io::{self, BufRead, BufReader, Read};

use pgp::armor::{self, ArmorCrc24Status, BlockType, Dearmor, DearmorOptions, Headers, PKCS1Type};
use pgp::composed::{
    ArmorOptions, Deserializable, DetachedSignature, Message, MessageBuilder, SignedPublicKey,
    SignedSecretKey,
};
use pgp::crypto::hash::HashAlgorithm;
use pgp::ser::Serialize;
use pgp::types::Password;
use rand::{Rng, RngCore, SeedableRng};
use serde_json::{json, Value};

use crate::core::{hexs, Ctx};
use crate::rfc;
use crate::shim::{drain_read, Consume, Sched, SchedReader, SchedWriter};
use crate::zoo;

const CRC_INIT: u32 = 0xB704CE;
const ENTRY_NAMES: [&str; 3] = ["read", "read_header", "read_only_header+after_header"];
const SIG_HEADER_SPLIT: &str = "C10/reader/schedule-dependent/armor-header-error/headers-present";
const COLON_CLASS: &str = "hdr-value-ends-with-colon";

// ------------------------------------------------------------------------------------------
// payload handed to armor::write, written in configurable pieces

#[derive(Clone, Debug)]
enum Chunking {
    Whole,
    Fixed(usize),
    Random(u64),
}

impl Chunking {
    fn name(&self) -> String {
        match self {
            Chunking::Whole => "whole".into(),
            Chunking::Fixed(n) => format!("fixed{n}"),
            Chunking::Random(_) => "random".into(),
        }
    }
}

struct Raw<'a> {
    data: &'a [u8],
    chunk: &'a Chunking,
}

impl Serialize for Raw<'_> {
    fn to_writer<W: io::Write>(&self, w: &mut W) -> pgp::errors::Result<()> {
        match self.chunk {
            Chunking::Whole => w.write_all(self.data)?,
            Chunking::Fixed(n) => {
                for c in self.data.chunks((*n).max(1)) {
                    w.write_all(c)?;
                }
            }
            Chunking::Random(seed) => {
                let mut r = rand_chacha::ChaCha8Rng::seed_from_u64(*seed);
                let mut p = 0;
                while p < self.data.len() {
                    let n = r.gen_range(1..=200usize).min(self.data.len() - p);
                    w.write_all(&self.data[p..p + n])?;
                    p += n;
                }
            }
        }
        Ok(())
    }
    fn write_len(&self) -> usize {
        self.data.len()
    }
}

fn lib_write(
    data: &[u8],
    typ: BlockType,
    headers: Option<&Headers>,
    crc: bool,
    chunk: &Chunking,
    sink: &Sched,
) -> Result<Vec<u8>, String> {
    let raw = Raw { data, chunk };
    match sink {
        Sched::All => {
            let mut v = Vec::new();
            armor::write(&raw, typ, &mut v, headers, crc).map_err(|e| e.to_string())?;
            Ok(v)
        }
        s => {
            let mut w = SchedWriter::new(s.clone());
            let h = w.handle();
            armor::write(&raw, typ, &mut w, headers, crc).map_err(|e| e.to_string())?;
            let v = h.borrow().clone();
            Ok(v)
        }
    }
}

// ------------------------------------------------------------------------------------------
// block types with their labels (labels written down here from RFC 9580 6.2 / PEM usage; not
// taken from the library's Display impl)

fn block_types() -> Vec<(BlockType, String)> {
    let mut v: Vec<(BlockType, String)> = vec![
        (BlockType::PublicKey, "PGP PUBLIC KEY BLOCK".into()),
        (BlockType::PrivateKey, "PGP PRIVATE KEY BLOCK".into()),
        (BlockType::Message, "PGP MESSAGE".into()),
        (BlockType::Signature, "PGP SIGNATURE".into()),
        (BlockType::File, "PGP ARMORED FILE".into()),
        (BlockType::CleartextMessage, "PGP SIGNED MESSAGE".into()),
        (BlockType::PublicKeyPKCS1(PKCS1Type::RSA), "RSA PUBLIC KEY".into()),
        (BlockType::PublicKeyPKCS1(PKCS1Type::DSA), "DSA PUBLIC KEY".into()),
        (BlockType::PublicKeyPKCS1(PKCS1Type::EC), "EC PUBLIC KEY".into()),
        (BlockType::PublicKeyPKCS8, "PUBLIC KEY".into()),
        (BlockType::PublicKeyOpenssh, "OPENSSH PUBLIC KEY".into()),
        (BlockType::PrivateKeyPKCS1(PKCS1Type::RSA), "RSA PRIVATE KEY".into()),
        (BlockType::PrivateKeyPKCS1(PKCS1Type::DSA), "DSA PRIVATE KEY".into()),
        (BlockType::PrivateKeyPKCS1(PKCS1Type::EC), "EC PRIVATE KEY".into()),
        (BlockType::PrivateKeyPKCS8, "PRIVATE KEY".into()),
        (BlockType::PrivateKeyOpenssh, "OPENSSH PRIVATE KEY".into()),
    ];
    for (x, y) in [
        (1usize, 1usize),
        (3, 14),
        (14, 0),
        (0, 0),
        (10, 9),
        (255, 256),
        (usize::MAX, usize::MAX),
    ] {
        v.push((BlockType::MultiPartMessage(x, y), format!("PGP MESSAGE, PART {x}/{y}")));
    }
    v
}

fn type_class(t: &BlockType) -> &'static str {
    match t {
        BlockType::PublicKey => "PublicKey",
        BlockType::PrivateKey => "PrivateKey",
        BlockType::Message => "Message",
        BlockType::MultiPartMessage(_, _) => "MultiPartMessage",
        BlockType::Signature => "Signature",
        BlockType::File => "File",
        BlockType::CleartextMessage => "CleartextMessage",
        BlockType::PublicKeyPKCS1(PKCS1Type::RSA) => "PublicKeyPKCS1-RSA",
        BlockType::PublicKeyPKCS1(PKCS1Type::DSA) => "PublicKeyPKCS1-DSA",
        BlockType::PublicKeyPKCS1(PKCS1Type::EC) => "PublicKeyPKCS1-EC",
        BlockType::PublicKeyPKCS8 => "PublicKeyPKCS8",
        BlockType::PublicKeyOpenssh => "PublicKeyOpenssh",
        BlockType::PrivateKeyPKCS1(PKCS1Type::RSA) => "PrivateKeyPKCS1-RSA",
        BlockType::PrivateKeyPKCS1(PKCS1Type::DSA) => "PrivateKeyPKCS1-DSA",
        BlockType::PrivateKeyPKCS1(PKCS1Type::EC) => "PrivateKeyPKCS1-EC",
        BlockType::PrivateKeyPKCS8 => "PrivateKeyPKCS8",
        BlockType::PrivateKeyOpenssh => "PrivateKeyOpenssh",
    }
}

const ALL_TYPE_CLASSES: [&str; 17] = [
    "PublicKey",
    "PrivateKey",
    "Message",
    "MultiPartMessage",
    "Signature",
    "File",
    "CleartextMessage",
    "PublicKeyPKCS1-RSA",
    "PublicKeyPKCS1-DSA",
    "PublicKeyPKCS1-EC",
    "PublicKeyPKCS8",
    "PublicKeyOpenssh",
    "PrivateKeyPKCS1-RSA",
    "PrivateKeyPKCS1-DSA",
    "PrivateKeyPKCS1-EC",
    "PrivateKeyPKCS8",
    "PrivateKeyOpenssh",
];

// ------------------------------------------------------------------------------------------
// header sets

#[derive(Clone, Debug)]
struct HeaderSet {
    name: &'static str,
    /// None = `headers: None`
    map: Option<Vec<(String, Vec<String>)>>,
    /// "" or a class suffix that becomes part of violation signatures for this input class
    class: &'static str,
    /// usable with the cleartext block type (only `Hash` headers are legal there)
    cleartext_ok: bool,
}

impl HeaderSet {
    fn to_headers(&self) -> Option<Headers> {
        self.map.as_ref().map(|m| {
            let mut h: Headers = BTreeMap::new();
            for (k, vs) in m {
                h.entry(k.clone()).or_default().extend(vs.iter().cloned());
            }
            h
        })
    }
    /// header lines in emission order: keys sorted bytewise, values in insertion order
    fn pairs(&self) -> Vec<(String, String)> {
        let mut merged: BTreeMap<String, Vec<String>> = BTreeMap::new();
        if let Some(m) = &self.map {
            for (k, vs) in m {
                merged.entry(k.clone()).or_default().extend(vs.iter().cloned());
            }
        }
        let mut out = vec![];
        for (k, vs) in merged {
            for v in vs {
                out.push((k.clone(), v));
            }
        }
        out
    }
}

fn s(x: &str) -> String {
    x.to_string()
}

fn fixed_header_sets() -> Vec<HeaderSet> {
    let hs = |name, map: Option<Vec<(&str, Vec<&str>)>>, class, cleartext_ok| HeaderSet {
        name,
        map: map.map(|m| {
            m.into_iter()
                .map(|(k, vs)| (s(k), vs.into_iter().map(s).collect()))
                .collect()
        }),
        class,
        cleartext_ok,
    };
    vec![
        hs("none", None, "", true),
        hs("empty-map", Some(vec![]), "", true),
        hs("key-without-values", Some(vec![("Comment", vec![])]), "", true),
        hs("version", Some(vec![("Version", vec!["rPGP 1.0"])]), "", false),
        hs("hash", Some(vec![("Hash", vec!["SHA256"])]), "", true),
        hs("hash-two", Some(vec![("Hash", vec!["SHA256", "SHA3-512"])]), "", true),
        hs("repeated-key", Some(vec![("Comment", vec!["first", "second", "first"])]), "", false),
        hs("empty-value", Some(vec![("Comment", vec![""])]), "", false),
        hs("empty-values-mixed", Some(vec![("Comment", vec!["", "x", ""]), ("Version", vec![""])]), "", false),
        hs(
            "utf8",
            Some(vec![("Comment", vec!["Gr\u{fc}\u{df}e, \u{43c}\u{438}\u{440}, \u{65e5}\u{672c}\u{8a9e} \u{1f511}"]), ("Version", vec!["1"])]),
            "",
            false,
        ),
        hs(
            "three-keys",
            Some(vec![("Charset", vec!["UTF-8"]), ("Comment", vec!["a b  c"]), ("MessageID", vec!["abc123"])]),
            "",
            false,
        ),
        hs(
            "colon-inside",
            Some(vec![("Comment", vec!["see https://example.org/a: b", "k: v: w"]), ("X-a-1", vec![":x"])]),
            "",
            false,
        ),
        hs("spaces", Some(vec![("Comment", vec![" lead and trail ", "\ttab\t"])]), "", false),
        hs(
            "dashes",
            Some(vec![("Comment", vec!["----- not a line -----", "=abcd", "-"]), ("a-b-c", vec!["-----BEGIN"])]),
            "",
            false,
        ),
        hs(
            "long",
            Some(vec![(
                "Comment-0123456789-abcdefghijklmnopqrstuvwxyz-ABCDEFGHIJKLMNOPQRSTUVWXYZ",
                vec!["0123456789012345678901234567890123456789012345678901234567890123456789012345678901234567890123456789012345678901234567890123456789012345678901234567890123456789012345678901234567890123456789"],
            )]),
            "",
            false,
        ),
        hs("value-ends-with-colon", Some(vec![("Comment", vec!["note:"])]), "hdr-value-ends-with-colon", false),
        hs(
            "value-ends-with-colon-2",
            Some(vec![("Comment", vec!["x"]), ("Version", vec!["a:"])]),
            "hdr-value-ends-with-colon",
            false,
        ),
    ]
}

/// random header set: 0..3 keys from [A-Za-z0-9-]+, 1..3 values of random UTF-8 without CR/LF.
/// Values ending in ':' are a separate (fixed) input class and are not generated here.
fn random_header_set(rng: &mut rand_chacha::ChaCha8Rng) -> HeaderSet {
    const KEYCH: &[u8] = b"ABCDEFGHIJKLMNOPQRSTUVWXYZabcdefghijklmnopqrstuvwxyz0123456789-";
    const VALCH: &[char] = &[
        'a', 'b', 'z', 'A', 'Z', '0', '9', ' ', ' ', '\t', ':', '-', '=', '+', '/', '.', ',', ';', '<', '>', '@', '"', '\'',
        '\u{e9}', '\u{fc}', '\u{416}', '\u{4e2d}', '\u{1f600}', '\u{7f}', '\u{1}', '\u{a0}', '\u{2028}',
    ];
    let nkeys = rng.gen_range(0..=3usize);
    let mut m = vec![];
    for _ in 0..nkeys {
        let kl = rng.gen_range(1..=12usize);
        let k: String = (0..kl).map(|_| KEYCH[rng.gen_range(0..KEYCH.len())] as char).collect();
        let nv = rng.gen_range(1..=3usize);
        let mut vs = vec![];
        for _ in 0..nv {
            let vl = rng.gen_range(0..=24usize);
            let mut v: String = (0..vl).map(|_| VALCH[rng.gen_range(0..VALCH.len())]).collect();
            while v.ends_with(':') {
                v.pop();
            }
            vs.push(v);
        }
        m.push((k, vs));
    }
    HeaderSet { name: "random", map: Some(m), class: "", cleartext_ok: false }
}

// ------------------------------------------------------------------------------------------
// reference re-formatter: produces the tolerated formatting variants

#[derive(Clone, Debug)]
struct Fmt {
    eol: &'static str,
    /// this many 70-character text lines in front (on top of `lead`)
    long_lead: usize,
    lead: Vec<&'static str>,
    sep_ws: &'static str,
    width: usize,
    blank_every: usize,
    blank_before_crc: usize,
    blank_before_end: usize,
    final_newline: bool,
    trailing: Vec<&'static str>,
}

impl Default for Fmt {
    fn default() -> Self {
        Fmt {
            eol: "\n",
            long_lead: 0,
            lead: vec![],
            sep_ws: "",
            width: 64,
            blank_every: 0,
            blank_before_crc: 0,
            blank_before_end: 0,
            final_newline: true,
            trailing: vec![],
        }
    }
}

const VARIANTS: [&str; 16] = [
    "plain",
    "crlf",
    "ws-separator",
    "leading-text",
    "leading-blank",
    "no-final-newline",
    "blank-in-body",
    "trailing-text",
    "width-76",
    "width-small",
    "crlf-ws-leading",
    "crlf-blank-trailing-nofinal",
    "leading-blank-crlf",
    "all-mixed",
    "long-leading",
    "leading-dashes",
];

fn variant_fmt(name: &str, k: usize) -> Fmt {
    let d = Fmt::default();
    match name {
        "plain" => d,
        "crlf" => Fmt { eol: "\r\n", ..d },
        "ws-separator" => Fmt { sep_ws: [" ", "\t", " \t ", "    "][k % 4], ..d },
        "leading-text" => Fmt {
            lead: [
                vec!["Hello, this is some text in front"],
                vec!["From: someone", "Subject: key", "", "> quoted ---- text"],
                vec!["x"],
            ][k % 3]
                .clone(),
            ..d
        },
        "leading-blank" => Fmt { lead: [vec![""], vec!["", "", ""], vec![" ", "\t"]][k % 3].clone(), ..d },
        "no-final-newline" => Fmt { final_newline: false, ..d },
        "blank-in-body" => Fmt {
            blank_every: [1, 2, 5][k % 3],
            blank_before_crc: k % 2,
            blank_before_end: (k / 2) % 2,
            ..d
        },
        "trailing-text" => Fmt {
            trailing: [vec!["some trailing text"], vec!["", "-- ", "signature line", ""], vec!["x"]][k % 3].clone(),
            ..d
        },
        "width-76" => Fmt { width: 76, ..d },
        "width-small" => Fmt { width: [1, 4, 3, 60, 63, 65][k % 6], ..d },
        "crlf-ws-leading" => Fmt { eol: "\r\n", sep_ws: " \t", lead: vec!["intro line", ""], ..d },
        "crlf-blank-trailing-nofinal" => Fmt {
            eol: "\r\n",
            blank_every: 3,
            blank_before_crc: 1,
            trailing: vec!["bye"],
            final_newline: false,
            ..d
        },
        "leading-blank-crlf" => Fmt { eol: "\r\n", lead: vec!["", ""], ..d },
        "all-mixed" => Fmt {
            eol: if k % 2 == 0 { "\r\n" } else { "\n" },
            lead: vec!["text", ""],
            sep_ws: "  ",
            width: [48, 76, 64][k % 3],
            blank_every: 4,
            blank_before_crc: 1,
            blank_before_end: 1,
            final_newline: k % 4 < 2,
            trailing: vec!["", "tail"],
            long_lead: 0,
        },
        "long-leading" => Fmt { long_lead: [12, 45][k % 2], eol: if k % 3 == 0 { "\r\n" } else { "\n" }, ..d },
        // text in front whose dashes sit right before the BEGIN line (never five in a row)
        "leading-dashes" => Fmt {
            lead: [
                vec!["-"],
                vec!["---"],
                vec!["-- "],
                vec!["1-2"],
                vec!["released 2017-02-14", "a----"],
                vec!["text - with - dashes", "----"],
                vec!["----", ""],
                vec!["- - - - -", "--", "-"],
            ][k % 8]
                .clone(),
            eol: if (k / 8) % 2 == 1 { "\r\n" } else { "\n" },
            ..d
        },
        _ => unreachable!(),
    }
}

/// crc: None = no checksum line; Some(v) = `=`+base64(v) (v may be deliberately wrong)
fn ref_format(label: &str, pairs: &[(String, String)], data: &[u8], crc: Option<u32>, f: &Fmt) -> Vec<u8> {
    let mut lines: Vec<String> = vec![];
    for i in 0..f.long_lead {
        lines.push(format!("{i:04} Lorem ipsum dolor sit amet, consectetur adipiscing elit, sed do ---- x"));
    }
    for l in &f.lead {
        lines.push(l.to_string());
    }
    lines.push(format!("-----BEGIN {label}-----"));
    for (k, v) in pairs {
        lines.push(format!("{k}: {v}"));
    }
    lines.push(f.sep_ws.to_string());
    let b64 = rfc::armor::b64_encode(data);
    for (i, l) in b64.as_bytes().chunks(f.width.max(1)).enumerate() {
        if f.blank_every > 0 && i > 0 && i % f.blank_every == 0 {
            lines.push(String::new());
        }
        lines.push(String::from_utf8(l.to_vec()).unwrap());
    }
    if let Some(c) = crc {
        for _ in 0..f.blank_before_crc {
            lines.push(String::new());
        }
        lines.push(format!("={}", rfc::armor::b64_encode(&[(c >> 16) as u8, (c >> 8) as u8, c as u8])));
    }
    for _ in 0..f.blank_before_end {
        lines.push(String::new());
    }
    lines.push(format!("-----END {label}-----"));
    for l in &f.trailing {
        lines.push(l.to_string());
    }
    let mut out = lines.join(f.eol);
    if f.final_newline {
        out.push_str(f.eol);
    }
    out.into_bytes()
}

// ------------------------------------------------------------------------------------------
// consumer call sequences that `shim::Consume` does not have: legal but unusual uses of `Read`
// (zero-length reads before / between / after real reads, reads of exactly the data length, reads
// larger than the data, calls after the end of the stream, `read` mixed with `read_to_end`, `take`
// and `read_vectored`). None of them may change what the dearmorer delivers.

#[derive(Clone, Debug)]
enum Op {
    /// `read` into a buffer of this many octets; 0 is legal and says nothing about the end
    Read(usize),
    /// `read_vectored` over buffers of these sizes (without buffers, or with empty ones only, the
    /// std default implementation hands an empty slice to `read`)
    Vectored(Vec<usize>),
    /// `by_ref().take(n).read_to_end(..)`
    Take(usize),
    /// `read_to_end`
    ToEnd,
}

#[derive(Clone, Debug)]
struct Pat {
    /// stable class name (coverage set `call_patterns`)
    name: &'static str,
    /// calls made once at the start
    pre: Vec<Op>,
    /// calls repeated until one of them observes the end of the stream
    cycle: Vec<Op>,
}

/// calls made after the end of the stream was observed: each has to report the end again
fn after_end_ops() -> Vec<Op> {
    vec![Op::Read(0), Op::Read(1), Op::ToEnd, Op::Read(4096), Op::Vectored(vec![]), Op::Take(5), Op::Read(0)]
}

const PAT_NAMES: [&str; 16] = [
    "zero,to-end",
    "zero,zero,(read1)*",
    "(read1,zero)*",
    "(read-k,zero)*",
    "read-part,zero,to-end",
    "read-len,zero,to-end",
    "read-len,zero,(read1)*",
    "(read-len+1)*",
    "(read-larger-than-data)*",
    "read-part,to-end",
    "(take-k)*",
    "take0,(take-k,zero)*",
    "vectored-none,(vectored,vectored-empty)*",
    "(random-sizes-with-zeros)*",
    "(zero,read-k)*",
    "to-end",
];

/// the k-th call pattern for an armor whose data has `len` octets; sizes come from the edges of
/// the decoder's windows and from `rng`
fn pat_k(k: usize, len: usize, rng: &mut rand_chacha::ChaCha8Rng) -> Pat {
    const EDGE: [usize; 14] = [1, 2, 3, 7, 47, 48, 49, 64, 100, 767, 768, 769, 1024, 4096];
    let mut edge = |rng: &mut rand_chacha::ChaCha8Rng| {
        if rng.gen_range(0..4) == 0 {
            rng.gen_range(1..=len.max(1))
        } else {
            EDGE[rng.gen_range(0..EDGE.len())]
        }
    };
    let e = edge(rng);
    // a size that ends inside the data
    let part = if len <= 1 {
        1
    } else {
        match rng.gen_range(0..5) {
            0 => 1,
            1 => (len / 3).max(1),
            2 => len / 2,
            3 => len - 1,
            _ => rng.gen_range(1..len),
        }
    };
    use Op::*;
    let i = k % PAT_NAMES.len();
    let (pre, cycle) = match i {
        0 => (vec![Read(0)], vec![ToEnd]),
        1 => (vec![Read(0), Read(0)], vec![Read(1)]),
        2 => (vec![], vec![Read(1), Read(0)]),
        3 => (vec![], vec![Read(e), Read(0)]),
        4 => (vec![Read(part), Read(0)], vec![ToEnd]),
        5 => (vec![Read(len), Read(0)], vec![ToEnd]),
        6 => (vec![Read(len), Read(0)], vec![Read(1)]),
        7 => (vec![], vec![Read(len + 1)]),
        8 => (vec![], vec![Read(2 * len + 8192)]),
        9 => (vec![Read(part)], vec![ToEnd]),
        10 => (vec![], vec![Take(e)]),
        11 => (vec![Take(0)], vec![Take(e), Read(0)]),
        12 => (vec![Vectored(vec![])], vec![Vectored(vec![0, e, 3]), Vectored(vec![0, 0])]),
        13 => {
            let mut c: Vec<Op> = (0..12).map(|_| if rng.gen_range(0..3) == 0 { Read(0) } else { Read(edge(rng)) }).collect();
            c.push(Read(e));
            (vec![], c)
        }
        14 => (vec![], vec![Read(0), Read(e)]),
        _ => (vec![], vec![ToEnd]),
    };
    Pat { name: PAT_NAMES[i], pre, cycle }
}

impl Pat {
    fn describe(&self) -> String {
        format!("calls[{}] start={:?} repeat={:?}", self.name, self.pre, self.cycle)
    }
}

/// One call. Appends what was delivered; Ok(true) = the call observed the end of the stream.
fn do_op<R: Read>(r: &mut R, op: &Op, out: &mut Vec<u8>) -> io::Result<bool> {
    match op {
        Op::Read(n) => {
            let mut buf = vec![0xA5u8; *n];
            let k = r.read(&mut buf)?;
            if k > *n {
                return Err(io::Error::other(format!("read into {n} octets returned {k}")));
            }
            out.extend_from_slice(&buf[..k]);
            Ok(*n > 0 && k == 0)
        }
        Op::Vectored(sizes) => {
            let mut bufs: Vec<Vec<u8>> = sizes.iter().map(|n| vec![0xA5u8; *n]).collect();
            let total: usize = sizes.iter().sum();
            let k = {
                let mut sl: Vec<io::IoSliceMut> = bufs.iter_mut().map(|b| io::IoSliceMut::new(&mut b[..])).collect();
                r.read_vectored(&mut sl)?
            };
            if k > total {
                return Err(io::Error::other(format!("read_vectored into {total} octets returned {k}")));
            }
            let mut left = k;
            for b in &bufs {
                let n = left.min(b.len());
                out.extend_from_slice(&b[..n]);
                left -= n;
            }
            Ok(total > 0 && k == 0)
        }
        Op::Take(n) => {
            let mut v = vec![];
            let res = r.by_ref().take(*n as u64).read_to_end(&mut v);
            out.extend_from_slice(&v);
            let k = res?;
            Ok(k < *n)
        }
        Op::ToEnd => {
            let mut v = vec![];
            let res = r.read_to_end(&mut v);
            out.extend_from_slice(&v);
            res?;
            Ok(true)
        }
    }
}

struct PatRun {
    data: Vec<u8>,
    err: Option<String>,
    /// octets delivered by calls made after the end of the stream had been reported
    after_end: usize,
}

/// Drives `r` with the pattern up to the end of the stream, then makes the calls of
/// `after_end_ops`. `max_cycles` bounds the repetitions (every repetition delivers at least one
/// octet or observes the end).
fn drive_pat<R: Read>(r: &mut R, p: &Pat, max_cycles: usize) -> PatRun {
    let mut out = vec![];
    let mut eof = false;
    let fail = |out: Vec<u8>, what: &str, op: &Op, e: io::Error| PatRun {
        data: out,
        err: Some(format!("{e} (in {what} call {op:?})")),
        after_end: 0,
    };
    for op in &p.pre {
        match do_op(r, op, &mut out) {
            Ok(e) => eof = e,
            Err(e) => return fail(out, "start", op, e),
        }
        if eof {
            break;
        }
    }
    let mut cycles = 0usize;
    while !eof {
        for op in &p.cycle {
            match do_op(r, op, &mut out) {
                Ok(e) => eof = e,
                Err(e) => return fail(out, "repeated", op, e),
            }
            if eof {
                break;
            }
        }
        cycles += 1;
        if cycles > max_cycles && !eof {
            return PatRun { data: out, err: Some("monitor: the call pattern did not reach the end of the stream".into()), after_end: 0 };
        }
    }
    let n_end = out.len();
    for op in &after_end_ops() {
        match do_op(r, op, &mut out) {
            Ok(_) => {}
            Err(e) => return fail(out, "after-end", op, e),
        }
    }
    let after_end = out.len() - n_end;
    PatRun { data: out, err: None, after_end }
}

// ------------------------------------------------------------------------------------------
// driving the Dearmor

#[derive(Clone, Debug)]
enum Src {
    /// the SchedReader itself is the BufRead
    Direct,
    /// std BufReader (8 KiB) over the SchedReader used as plain Read
    Std,
    /// std BufReader with this capacity
    StdCap(usize),
}

impl Src {
    fn name(&self) -> String {
        match self {
            Src::Direct => "direct".into(),
            Src::Std => "bufreader".into(),
            Src::StdCap(n) => format!("bufreader{n}"),
        }
    }
}

#[derive(Clone, Debug)]
struct Drive {
    sched: Sched,
    src: Src,
    cons: Consume,
    /// 0 = plain `read`, 1 = `read_header` first, 2 = `read_only_header` + `Dearmor::after_header`
    entry: u8,
    /// the first window handed to the Dearmor covers everything up to the start of the body
    /// (leading text, BEGIN line, header lines, separator line); the schedule applies after it
    safe: bool,
    /// call sequence on the consumer side that `shim::Consume` does not have (replaces `cons`)
    pat: Option<Pat>,
}

impl Drive {
    fn baseline() -> Self {
        Drive { sched: Sched::All, src: Src::Direct, cons: Consume::ToEnd, entry: 0, safe: false, pat: None }
    }
    fn name(&self) -> String {
        format!(
            "{}|{}|{}|{}{}",
            self.sched.name(),
            self.src.name(),
            match &self.pat {
                Some(p) => p.describe(),
                None => self.cons.name(),
            },
            ENTRY_NAMES[self.entry as usize],
            if self.safe { "|head-in-one-window" } else { "" }
        )
    }
    /// Variant of this drive for inputs that carry header lines: the head is delivered in one
    /// window (small-capacity wrappers would split it again, they are replaced).
    fn head_safe(mut self, k: usize) -> Self {
        self.safe = true;
        if matches!(self.src, Src::StdCap(_)) {
            self.src = if k % 2 == 0 { Src::Direct } else { Src::Std };
        }
        self
    }
    fn for_pairs(self, pairs: &[(String, String)], k: usize) -> Self {
        if pairs.is_empty() {
            self
        } else {
            self.head_safe(k)
        }
    }
    /// class used for coverage (random seeds removed)
    fn class(&self) -> String {
        let sc = match &self.sched {
            Sched::Random(_, m) => format!("rand/{m}"),
            o => o.name(),
        };
        format!("{}|{}{}", sc, self.src.name(), if self.safe { "|safe" } else { "" })
    }
    fn is_baseline(&self) -> bool {
        matches!(self.sched, Sched::All) && matches!(self.src, Src::Direct) && self.pat.is_none()
    }
    /// the same drive with this consumer call sequence
    fn with_pat(mut self, p: Pat) -> Self {
        self.pat = Some(p);
        self
    }
    /// the same source side and entry point, consumer = plain `read_to_end`
    fn plain_consumer(&self) -> Self {
        let mut d = self.clone();
        d.pat = None;
        d.cons = Consume::ToEnd;
        d
    }
}

fn sched_list(seed: u64) -> Vec<Sched> {
    vec![
        Sched::All,
        Sched::Fixed(1),
        Sched::Fixed(3),
        Sched::Fixed(63),
        Sched::Fixed(64),
        Sched::Fixed(65),
        Sched::Random(seed, 100),
        Sched::Cycle(vec![1, 64, 2, 130]),
        Sched::Fixed(1024),
        Sched::Random(seed ^ 0x5555, 5000),
        Sched::Fixed(2),
        Sched::Fixed(127),
    ]
}

const SCHED_CLASSES: [&str; 12] = [
    "all", "fixed1", "fixed3", "fixed63", "fixed64", "fixed65", "rand/100", "cycle[1, 64, 2, 130]", "fixed1024",
    "rand/5000", "fixed2", "fixed127",
];

fn src_list() -> Vec<Src> {
    vec![Src::Direct, Src::Std, Src::StdCap(1), Src::StdCap(7), Src::StdCap(64), Src::StdCap(1000)]
}

fn cons_list() -> Vec<Consume> {
    vec![
        Consume::ToEnd,
        Consume::Read(1),
        Consume::Read(2),
        Consume::Read(3),
        Consume::Read(7),
        Consume::Read(48),
        Consume::Read(767),
        Consume::Read(768),
        Consume::Read(769),
        Consume::Read(4096),
        Consume::ReadCycle(vec![1, 13, 512, 3]),
    ]
}

/// deterministic choice of the k-th drive
fn drive_k(k: usize, seed: u64) -> Drive {
    let sl = sched_list(seed);
    let srcs = src_list();
    let cl = cons_list();
    Drive {
        sched: sl[k % sl.len()].clone(),
        src: srcs[(k / sl.len() + k) % srcs.len()].clone(),
        cons: cl[(k / 3 + k / 7) % cl.len()].clone(),
        entry: [0u8, 0, 1, 0, 2][k % 5],
        safe: false,
        pat: None,
    }
}

/// offset of the first body byte: after the separator line that follows the BEGIN line
fn body_start(input: &[u8]) -> usize {
    let Some(b) = input.windows(10).position(|w| w == b"-----BEGIN") else { return 0 };
    let mut pos = b;
    let mut first = true;
    while pos < input.len() {
        let end = input[pos..].iter().position(|c| *c == b'\n').map(|i| pos + i + 1).unwrap_or(input.len());
        let line = &input[pos..end];
        if !first && line.iter().all(|c| matches!(c, b' ' | b'\t' | b'\r' | b'\n')) {
            return end;
        }
        first = false;
        pos = end;
    }
    input.len()
}

/// head in one window, then the scheduled reader
struct HeadThen {
    head: Vec<u8>,
    hpos: usize,
    rest: SchedReader,
}

impl Read for HeadThen {
    fn read(&mut self, buf: &mut [u8]) -> io::Result<usize> {
        if self.hpos < self.head.len() {
            let n = buf.len().min(self.head.len() - self.hpos);
            buf[..n].copy_from_slice(&self.head[self.hpos..self.hpos + n]);
            self.hpos += n;
            Ok(n)
        } else {
            self.rest.read(buf)
        }
    }
}

impl BufRead for HeadThen {
    fn fill_buf(&mut self) -> io::Result<&[u8]> {
        if self.hpos < self.head.len() {
            Ok(&self.head[self.hpos..])
        } else {
            self.rest.fill_buf()
        }
    }
    fn consume(&mut self, amt: usize) {
        if self.hpos < self.head.len() {
            self.hpos += amt;
        } else {
            self.rest.consume(amt)
        }
    }
}

#[derive(Debug, Clone)]
struct Got {
    data: Vec<u8>,
    err: Option<String>,
    typ: Option<BlockType>,
    pairs: Vec<(String, String)>,
    checksum: Option<u64>,
    status: ArmorCrc24Status,
    /// bytes left in the reader after the armor (only when finished cleanly)
    rest: Option<Vec<u8>>,
    /// octets delivered by calls made after the end of the stream had been reported
    after_end: usize,
}

fn flatten(h: &Headers) -> Vec<(String, String)> {
    let mut out = vec![];
    for (k, vs) in h {
        for v in vs {
            out.push((k.clone(), v.clone()));
        }
    }
    out
}

fn run_dearmor(input: &[u8], d: &Drive, opts: DearmorOptions, want_rest: bool) -> Got {
    let cut = if d.safe { body_start(input) } else { 0 };
    let sr = HeadThen { head: input[..cut].to_vec(), hpos: 0, rest: SchedReader::new(input[cut..].to_vec(), d.sched.clone()) };
    let src: Box<dyn BufRead> = match d.src {
        Src::Direct => Box::new(sr),
        Src::Std => Box::new(BufReader::with_capacity(8192.max(cut), sr)),
        Src::StdCap(n) => Box::new(BufReader::with_capacity(n, sr)),
    };
    let mut de = Dearmor::with_options(src, opts);
    let mut err = None;
    if d.entry == 1 {
        if let Err(e) = de.read_header() {
            err = Some(format!("read_header: {e}"));
        }
    } else if d.entry == 2 {
        // the path used by Any::from_armor: header alone, then a fresh Dearmor over the rest
        // (after_header takes no options: no CRC checking on this path, callers use it only
        // for runs without the CRC option)
        let limit = de.max_buffer_limit();
        match de.read_only_header() {
            Ok((typ, headers, _leading, rest)) => de = Dearmor::after_header(typ, headers, rest, limit),
            Err(e) => {
                return Got {
                    data: vec![],
                    err: Some(format!("read_only_header: {e}")),
                    typ: None,
                    pairs: vec![],
                    checksum: None,
                    status: ArmorCrc24Status::NoCrc24,
                    rest: None,
                    after_end: 0,
                }
            }
        }
    }
    let mut data = vec![];
    let mut after_end = 0;
    if err.is_none() {
        if let Some(p) = &d.pat {
            // every repetition of a pattern delivers an octet or ends: more repetitions than
            // encoded octets means that the dearmorer delivers data without end
            let pr = drive_pat(&mut de, p, input.len() + 64);
            data = pr.data;
            err = pr.err;
            after_end = pr.after_end;
        } else {
            let dr = drain_read(&mut de, &d.cons);
            data = dr.data;
            err = dr.err.map(|e| e.to_string());
        }
    }
    let typ = de.typ;
    let pairs = flatten(&de.headers);
    let checksum = de.checksum;
    let status = de.crc24_status();
    let mut rest = None;
    if err.is_none() && want_rest {
        let (_t, _h, _c, mut r) = de.into_parts();
        let mut v = vec![];
        if r.read_to_end(&mut v).is_ok() {
            rest = Some(v);
        }
    }
    Got { data, err, typ, pairs, checksum, status, rest, after_end }
}

fn status_name(s: &ArmorCrc24Status) -> &'static str {
    match s {
        ArmorCrc24Status::NoCrc24 => "NoCrc24",
        ArmorCrc24Status::CheckedOk { .. } => "CheckedOk",
        ArmorCrc24Status::CheckedInvalid { .. } => "CheckedInvalid",
        ArmorCrc24Status::Unchecked { .. } => "Unchecked",
    }
}

fn err_class(e: &str) -> &'static str {
    if e.contains("armor header") {
        "armor-header-error"
    } else if e.contains("armor footer") {
        "armor-footer-error"
    } else if e.contains("crc24") {
        "crc-error"
    } else {
        "other-error"
    }
}

struct Expect<'a> {
    data: &'a [u8],
    typ: BlockType,
    pairs: &'a [(String, String)],
    /// checksum value present in the input, if any
    footer: Option<u32>,
    /// header set of the class "a value ends with ':'"
    colon: bool,
}

/// What a run without CRC checking (or with a matching checksum) has to deliver. Returns the
/// symptom of the first mismatch.
fn mismatch(got: &Got, ex: &Expect) -> Option<(String, String)> {
    if let Some(e) = &got.err {
        return Some((err_class(e).to_string(), format!("error: {e}")));
    }
    if got.after_end > 0 {
        return Some((
            "data-after-end".into(),
            format!("{} octets delivered by calls made after the end of the stream had been reported", got.after_end),
        ));
    }
    if got.typ != Some(ex.typ) {
        return Some(("type-differs".into(), format!("type {:?}, want {:?}", got.typ, ex.typ)));
    }
    if got.data != ex.data {
        let p = got.data.iter().zip(ex.data.iter()).position(|(a, b)| a != b).unwrap_or(got.data.len().min(ex.data.len()));
        return Some((
            "data-differs".into(),
            format!("got {} bytes, want {} bytes, first difference at {}", got.data.len(), ex.data.len(), p),
        ));
    }
    if got.pairs != ex.pairs {
        return Some(("headers-differ".into(), format!("headers {:?}, want {:?}", got.pairs, ex.pairs)));
    }
    if got.checksum != ex.footer.map(u64::from) {
        return Some((
            "checksum-field-differs".into(),
            format!("checksum field {:?}, want {:?}", got.checksum, ex.footer),
        ));
    }
    None
}

// ------------------------------------------------------------------------------------------

struct Mon<'c> {
    ctx: &'c mut Ctx,
    types: Vec<(BlockType, String)>,
    hsets: Vec<HeaderSet>,
}

impl Mon<'_> {
    /// Oracle 1
    fn check_writer(
        &mut self,
        emitter: &str,
        out: &[u8],
        label: &str,
        pairs: &[(String, String)],
        data: &[u8],
        crc: bool,
        replay: &Value,
    ) {
        self.ctx.eval();
        let want = rfc::armor::armor_encode(label, pairs, data, crc, "\n");
        if out == want.as_bytes() {
            self.ctx.tally("writer.identical_to_reference", 1);
            return;
        }
        let pre = format!("C10/{emitter}");
        let Ok(st) = std::str::from_utf8(out) else {
            self.ctx.violation(format!("{pre}/not-utf8"), "armored output is not UTF-8", replay.clone());
            return;
        };
        // the property does not fix the writer's line ending: a consistent CRLF output is judged
        // clause by clause like an LF output
        let st_norm;
        let st = if st.contains("\r\n") && !st.replace("\r\n", "").contains(['\r', '\n']) {
            st_norm = st.replace("\r\n", "\n");
            &st_norm[..]
        } else {
            st
        };
        let p = match rfc::armor::armor_parse_strict(st) {
            Ok(p) => p,
            Err(e) => {
                let sig = if e.contains("canonical") {
                    format!("{pre}/body-not-canonical-base64")
                } else if e.contains("begin line") || e.contains("no end line") {
                    format!("{pre}/begin-end-line")
                } else if e.contains("header") {
                    format!("{pre}/header-lines")
                } else if e.contains("crc") {
                    format!("{pre}/checksum-line-malformed")
                } else {
                    format!("{pre}/malformed")
                };
                self.ctx.violation(sig, format!("reference parser rejects emitted armor: {e}; len={}", data.len()), replay.clone());
                return;
            }
        };
        let mut bad = false;
        let v = |ctx: &mut Ctx, sy: &str, det: String| {
            ctx.violation(format!("{pre}/{sy}"), det, replay.clone());
        };
        if p.typ != label {
            bad = true;
            v(self.ctx, "begin-end-line", format!("label {:?}, want {:?}", p.typ, label));
        }
        if p.headers != pairs {
            bad = true;
            v(self.ctx, "header-lines", format!("header lines {:?}, want {:?}", p.headers, pairs));
        }
        if let Some(l) = p.body_lines.iter().find(|l| l.len() > 64) {
            bad = true;
            v(self.ctx, "line-longer-than-64", format!("body line of {} chars (data len {})", l.len(), data.len()));
        }
        if p.data != data {
            bad = true;
            v(self.ctx, "body-not-data", format!("body decodes to {} bytes, data has {}", p.data.len(), data.len()));
        }
        let want_crc = rfc::armor::crc24(data);
        match (crc, p.crc) {
            (true, None) => {
                bad = true;
                v(self.ctx, "checksum-missing", "checksum requested but no checksum line".into());
            }
            (true, Some(c)) if c != want_crc => {
                bad = true;
                v(self.ctx, "checksum-wrong", format!("emitted checksum {c:06X}, CRC-24 of data is {want_crc:06X} (len {})", data.len()));
            }
            (false, Some(_)) => {
                bad = true;
                v(self.ctx, "checksum-unrequested", "checksum line although include_checksum=false".into());
            }
            _ => {}
        }
        if !p.rest.is_empty() {
            bad = true;
            v(self.ctx, "trailing-garbage", format!("text after the END line: {:?}", p.rest));
        }
        if !bad {
            self.ctx.tally("writer.conforming_but_differs_from_reference", 1);
        }
    }

    /// Oracle 2: one input, one drive, CRC check off. `base_ok` tells whether the baseline drive
    /// of the same input met the expectation (then a failure here is schedule dependence).
    fn check_read(
        &mut self,
        input: &[u8],
        ex: &Expect,
        d: &Drive,
        inclass: &str,
        base_ok: Option<bool>,
        want_rest: Option<&[u8]>,
        replay: &Value,
    ) -> bool {
        let rp = || {
            let mut r = replay.clone();
            r["drive"] = json!(d.name());
            r["input"] = json!(hexs(input));
            r
        };
        let got = self.ctx.guarded(&format!("C10/reader/{inclass}"), rp, || {
            run_dearmor(input, d, DearmorOptions::new(), want_rest.is_some())
        });
        self.ctx.eval();
        let Some(got) = got else { return false };
        self.ctx.seen("crc_status", status_name(&got.status));
        self.ctx.seen("schedule_kinds", match &d.sched {
            Sched::Random(_, mx) => format!("rand/{mx}"),
            o => o.name(),
        });
        self.ctx.seen("source_wrappers", d.src.name());
        self.ctx.seen("entries", ENTRY_NAMES[d.entry as usize]);
        match &d.pat {
            Some(p) => self.ctx.seen("call_patterns", p.name),
            None => self.ctx.seen("consumers", d.cons.name()),
        }
        let mut mm = mismatch(&got, ex);
        if mm.is_none() {
            let want_status = match ex.footer {
                None => ArmorCrc24Status::NoCrc24,
                Some(f) => ArmorCrc24Status::Unchecked { footer_crc: f },
            };
            if got.status != want_status {
                mm = Some(("status-differs".into(), format!("crc24_status {:?}, want {:?}", got.status, want_status)));
            }
        }
        if mm.is_none() {
            if let (Some(w), Some(r)) = (want_rest, &got.rest) {
                if w != &r[..] {
                    mm = Some((
                        "rest-differs".into(),
                        format!("bytes left after the armor: {:?}, want {:?}", String::from_utf8_lossy(r), String::from_utf8_lossy(w)),
                    ));
                }
            }
        }
        match mm {
            None => true,
            Some((sy, det)) => {
                let sig = if sy == "armor-header-error" && !ex.pairs.is_empty() && !d.safe && !d.is_baseline() {
                    // one defect, one signature: a window of the source ends inside the header lines
                    SIG_HEADER_SPLIT.to_string()
                } else if sy == "headers-differ" && ex.colon {
                    format!("C10/reader/headers-differ/{COLON_CLASS}")
                } else if base_ok == Some(true) && d.pat.is_some() {
                    // base_ok of a call-pattern drive comes from the same source side read with
                    // plain read_to_end (check_read_calls)
                    // (one signature per symptom: the input class is in the detail and the replay)
                    format!("C10/reader/call-sequence-dependent/{sy}")
                } else if base_ok == Some(true) && !d.is_baseline() {
                    format!("C10/reader/schedule-dependent/{sy}/{inclass}")
                } else {
                    format!("C10/reader/{sy}/{inclass}")
                };
                self.ctx.violation(sig, format!("{det}; drive {}; data len {}; input class {inclass}", d.name(), ex.data.len()), rp());
                false
            }
        }
    }

    /// Oracle 2 for a consumer call pattern (`d.pat`): the same source side and entry point are
    /// first read with plain `read_to_end`; when that meets the expectation, a failure of the
    /// pattern drive is a dependence on the caller's call sequence.
    #[allow(clippy::too_many_arguments)]
    fn check_read_calls(
        &mut self,
        input: &[u8],
        ex: &Expect,
        d: &Drive,
        inclass: &str,
        base_ok: Option<bool>,
        want_rest: Option<&[u8]>,
        replay: &Value,
    ) -> bool {
        let plain = d.plain_consumer();
        let ok = if plain.is_baseline() && plain.entry == 0 && base_ok.is_some() {
            base_ok == Some(true)
        } else {
            self.check_read(input, ex, &plain, inclass, base_ok, None, replay)
        };
        self.check_read(input, ex, d, inclass, Some(ok), want_rest, replay)
    }

    /// Oracle 3: CRC check enabled.
    /// `footer`: checksum in the input (None = no checksum line); `data` = what the body encodes.
    fn check_crc(&mut self, input: &[u8], data: &[u8], footer: Option<u32>, d: &Drive, inclass: &str, replay: &Value) {
        self.check_crc_h(input, data, footer, d, inclass, false, replay)
    }

    #[allow(clippy::too_many_arguments)]
    fn check_crc_h(&mut self, input: &[u8], data: &[u8], footer: Option<u32>, d: &Drive, inclass: &str, has_headers: bool, replay: &Value) {
        let rp = || {
            let mut r = replay.clone();
            r["drive"] = json!(d.name());
            r["input"] = json!(hexs(input));
            r["crc_check"] = json!(true);
            r
        };
        let mut dd = d.clone();
        if dd.entry == 2 {
            dd.entry = 0;
        }
        let d = &dd;
        let got = self.ctx.guarded(&format!("C10/crc-check/{inclass}"), rp, || {
            run_dearmor(input, d, DearmorOptions::new().enable_crc24_check(), false)
        });
        self.ctx.eval();
        let Some(got) = got else { return };
        self.ctx.seen("crc_status", status_name(&got.status));
        if let Some(e) = &got.err {
            if has_headers && !d.safe && !d.is_baseline() && err_class(e) == "armor-header-error" {
                self.ctx.violation(SIG_HEADER_SPLIT, format!("error: {e}; drive {}", d.name()), rp());
                return;
            }
        }
        let actual = rfc::armor::crc24(data);
        let det = |what: &str| {
            format!(
                "{what}: data len {}, CRC-24(data)={actual:06X}, footer={:?}, result={:?}, status={:?}, drive {}",
                data.len(),
                footer.map(|f| format!("{f:06X}")),
                got.err,
                got.status,
                d.name()
            )
        };
        match footer {
            None => {
                self.ctx.seen("crc_cases", "absent");
                if got.err.is_some() || got.data != data {
                    self.ctx.violation(format!("C10/crc-check/no-checksum-rejected/{inclass}"), det("input without checksum not decoded"), rp());
                } else if got.status != ArmorCrc24Status::NoCrc24 {
                    self.ctx.violation(format!("C10/crc-check/status-differs/no-checksum/{inclass}"), det("status is not NoCrc24"), rp());
                }
            }
            Some(f) if f == actual => {
                self.ctx.seen("crc_cases", if data.is_empty() { "correct-empty" } else { "correct" });
                match &got.err {
                    None => {
                        if got.data != data {
                            self.ctx.violation(format!("C10/crc-check/data-differs/{inclass}"), det("decoded bytes differ"), rp());
                        } else if got.status != (ArmorCrc24Status::CheckedOk { crc: f }) {
                            self.ctx.violation(format!("C10/crc-check/status-differs/correct-checksum/{inclass}"), det("status is not CheckedOk"), rp());
                        } else {
                            self.ctx.tally("crc.correct_accepted", 1);
                        }
                    }
                    Some(e) => {
                        let stuck = matches!(
                            got.status,
                            ArmorCrc24Status::CheckedInvalid { footer_crc, calculated_crc }
                                if footer_crc == f && calculated_crc == CRC_INIT
                        );
                        if stuck && !data.is_empty() && e.contains("invalid crc24 checksum") {
                            // the known defect: accumulator updated on a copy (stable signature, no
                            // input class: it is one defect)
                            self.ctx.violation(
                                "C10/crc-check/correct-checksum-rejected/calc=B704CE",
                                det("correct checksum rejected, calculated CRC is the initial value"),
                                rp(),
                            );
                        } else if e.contains("crc24") {
                            self.ctx.violation(
                                format!("C10/crc-check/correct-checksum-rejected/calc=other/{inclass}"),
                                det("correct checksum rejected"),
                                rp(),
                            );
                        } else {
                            self.ctx.violation(
                                format!("C10/crc-check/{}/{inclass}", err_class(e)),
                                det("input with correct checksum failed for another reason"),
                                rp(),
                            );
                        }
                    }
                }
            }
            Some(f) => {
                self.ctx.seen("crc_cases", "wrong");
                let rejected = got.err.as_ref().is_some_and(|e| e.contains("crc24"))
                    && matches!(got.status, ArmorCrc24Status::CheckedInvalid { footer_crc, .. } if footer_crc == f);
                if rejected {
                    self.ctx.tally("crc.wrong_rejected", 1);
                } else if got.err.is_none() {
                    // a footer equal to the CRC-24 initial value on non-empty data is the other face
                    // of the known accumulator defect (calculated value stuck at 0xB704CE): one
                    // stable signature without input class; any other acceptance is a different one
                    let stuck = f == CRC_INIT
                        && !data.is_empty()
                        && got.status == (ArmorCrc24Status::CheckedOk { crc: CRC_INIT });
                    let sig = if stuck {
                        "C10/crc-check/wrong-checksum-accepted/calc=B704CE".to_string()
                    } else {
                        format!("C10/crc-check/wrong-checksum-accepted/{inclass}")
                    };
                    self.ctx.violation(sig, det("checksum does not match but the input was accepted"), rp());
                } else {
                    self.ctx.violation(
                        format!("C10/crc-check/wrong-checksum-other-failure/{inclass}"),
                        det("mismatching checksum: failure is not the CRC error / status not CheckedInvalid"),
                        rp(),
                    );
                }
            }
        }
    }
}

/// checksum line of an emitted armor as the reference parser sees it (outer None: not parsable,
/// the writer oracle has reported that already)
fn emitted_footer(out: &[u8]) -> Option<Option<u32>> {
    let st = std::str::from_utf8(out).ok()?;
    rfc::armor::armor_parse_strict(st).ok().map(|p| p.crc)
}

fn gen_data(rng: &mut rand_chacha::ChaCha8Rng, len: usize, kind: usize) -> Vec<u8> {
    match kind % 8 {
        0 => vec![0u8; len],
        1 => vec![0xFFu8; len],
        2 => (0..len).map(|i| [0xFB, 0xEF, 0xBE][i % 3]).collect(), // base64 '+' only
        3 => (0..len).map(|i| i as u8).collect(),
        _ => {
            let mut v = vec![0u8; len];
            rng.fill_bytes(&mut v);
            v
        }
    }
}

pub fn run(ctx: &mut Ctx) {
    let quick = ctx.quick();
    // thorough enumerates the small scopes named in meta/C10.json completely
    ctx.exhaustive = !quick;
    let mut m = Mon { types: block_types(), hsets: fixed_header_sets(), ctx };
    let ntypes = m.types.len();
    let nh = m.hsets.len();
    let base = Drive::baseline();
    let chunkings = [
        Chunking::Whole,
        Chunking::Fixed(1),
        Chunking::Fixed(3),
        Chunking::Fixed(47),
        Chunking::Fixed(48),
        Chunking::Fixed(49),
        Chunking::Random(0),
        Chunking::Fixed(1024),
    ];
    let sinks = [Sched::All, Sched::All, Sched::Fixed(1), Sched::All, Sched::Random(7, 10), Sched::All, Sched::Cycle(vec![1, 65, 3])];

    // --------------------------------------------------------------------------------------
    // thread CPU time per family (summed over shards by the driver)
    let mut t_fam = crate::core::thread_cpu_s();
    let mut lap = |ctx: &mut Ctx, name: &str| {
        let now = crate::core::thread_cpu_s();
        ctx.tally(&format!("cpu_ms.family_{name}"), ((now - t_fam) * 1000.0) as u64);
        t_fam = now;
    };
    // Family A: every payload length; per length one (type, header set) pair (rotating so that
    // each pair meets lengths of every residue mod 3 and mod 48), checksum on and off,
    // all formatting variants, rotating drives.
    let maxlen = if quick { 1100usize } else { 4096 };
    let reps = if quick { 10usize } else { 24 };
    let nflips = if quick { 8usize } else { 24 };
    for len in 0..=maxlen {
        if !m.ctx.mine() {
            continue;
        }
        crate::core::describe_case(&format!("A len={len}"));
        m.ctx.seen("len_mod3", format!("{}", len % 3));
        for r in 0..reps {
        let mut rng = m.ctx.rng("A", (len * 16 + r) as u64);
        let kind = if r == 0 { 7 } else { rng.gen_range(0..16usize) };
        let data = gen_data(&mut rng, len, kind);
        let seed = rng.gen::<u64>();
        // kk replaces the length in all rotations so that repetitions take other combinations
        let kk = len + r * 1009;
        // rotate (type, header set) pairs: successive lengths move through types, and the header
        // set index advances in a way that is coprime with the residues
        let ti = (len + r * 7) % ntypes;
        let (typ, label) = m.types[ti].clone();
        let mut hi = (len / ntypes + len + r * 5) % (nh + 1);
        let hs = loop {
            let cand = if hi == nh { random_header_set(&mut rng) } else { m.hsets[hi].clone() };
            if typ != BlockType::CleartextMessage || cand.cleartext_ok {
                break cand;
            }
            hi = (hi + 1) % nh;
        };
        let headers = hs.to_headers();
        let pairs = hs.pairs();
        let crc_ref = rfc::armor::crc24(&data);
        let hs_colon = !hs.class.is_empty();
        m.ctx.seen("block_types", type_class(&typ));
        m.ctx.seen("header_sets", hs.name);

        for (ci, crc) in [true, false].into_iter().enumerate() {
            let chunk = match &chunkings[(kk + ci) % chunkings.len()] {
                Chunking::Random(_) => Chunking::Random(seed),
                c => c.clone(),
            };
            let sink = sinks[(kk / 2 + ci) % sinks.len()].clone();
            let replay = json!({"family": "A", "len": len, "type": label, "headers": hs.name, "pairs": pairs, "crc": crc,
                "chunking": chunk.name(), "sink": sink.name(), "data": hexs(&data)});
            let out = m.ctx.guarded("C10/writer", || replay.clone(), || {
                lib_write(&data, typ, headers.as_ref(), crc, &chunk, &sink)
            });
            let Some(out) = out else { continue };
            let out = match out {
                Ok(o) => o,
                Err(e) => {
                    m.ctx.eval();
                    m.ctx.violation("C10/writer/error", format!("armor::write failed: {e}"), replay);
                    continue;
                }
            };
            m.check_writer("writer", &out, &label, &pairs, &data, crc, &replay);
            m.ctx.cover(&("A-w", len, ti, hs.name, crc, kind % 8));
            // read the library output back: baseline + 3 rotating drives
            // the reader is judged on what the text really contains (the checksum line as emitted)
            let Some(emitted) = emitted_footer(&out) else { continue };
            let ex = Expect { data: &data, typ, pairs: &pairs, footer: emitted, colon: hs_colon };
            let inclass = "lib-output".to_string();
            let bok = m.check_read(&out, &ex, &base, &inclass, None, Some(b""), &replay);
            for j in 0..3 {
                let d = drive_k(kk * 3 + j + ci * 5, seed).for_pairs(&pairs, kk + j);
                m.ctx.seen("schedules", d.class());
                m.ctx.cover(&("A-r", len, crc, d.class()));
                m.check_read(&out, &ex, &d, &inclass, Some(bok), None, &replay);
            }
            // CRC check enabled on the library output
            let d = drive_k(kk + ci, seed).for_pairs(&pairs, kk);
            m.check_crc(&out, &data, ex.footer, &d, &inclass, &replay);
            // one consumer call pattern (rotating), over the baseline source and over a rotating one
            let pk = kk + ci * 7;
            let pat = pat_k(pk, len, &mut rng);
            m.ctx.cover(&("A-c", len, crc, pat.name));
            let d = if r % 2 == 0 { base.clone() } else { drive_k(kk * 5 + ci, seed).for_pairs(&pairs, kk) };
            m.check_read_calls(&out, &ex, &d.with_pat(pat), &inclass, Some(bok), Some(b""), &replay);
        }

        // formatting variants produced by the reference
        for (vi, vname) in VARIANTS.iter().enumerate() {
            let f = variant_fmt(vname, kk + vi);
            let with_crc = (kk + vi) % 4 != 0;
            let footer = with_crc.then_some(crc_ref);
            let input = ref_format(&label, &pairs, &data, footer, &f);
            let replay = json!({"family": "A", "len": len, "type": label, "headers": hs.name, "pairs": pairs,
                "variant": vname, "with_crc": with_crc, "data": hexs(&data)});
            let ex = Expect { data: &data, typ, pairs: &pairs, footer, colon: hs_colon };
            let inclass = vname.to_string();
            m.ctx.seen("variants", *vname);
            m.ctx.seen("variants", if with_crc { "with-checksum" } else { "absent-checksum" });
            let bok = m.check_read(&input, &ex, &base, &inclass, None, None, &replay);
            let d = drive_k(kk * 7 + vi, seed).for_pairs(&pairs, kk + vi);
            m.ctx.seen("schedules", d.class());
            m.ctx.cover(&("A-v", len, vname, with_crc, d.class()));
            m.check_read(&input, &ex, &d, &inclass, Some(bok), None, &replay);
            // two of the variants per repetition also with a consumer call pattern
            if vi % 8 == kk % 8 {
                let pat = pat_k(kk / 8 + vi + r, len, &mut rng);
                m.ctx.cover(&("A-vc", len, vname, with_crc, pat.name));
                let dp = if vi < 8 { base.clone() } else { d.clone() };
                m.check_read_calls(&input, &ex, &dp.with_pat(pat), &inclass, Some(bok), None, &replay);
            }
            // CRC option over the variant: correct / absent, and one wrong value
            let d2 = drive_k(kk * 11 + vi + 1, seed).for_pairs(&pairs, kk);
            m.check_crc(&input, &data, footer, &d2, &inclass, &replay);
            if (kk + vi) % 3 == 0 {
                let wrong = crc_ref ^ (1 << ((kk + vi) % 24));
                let input = ref_format(&label, &pairs, &data, Some(wrong), &f);
                m.check_crc(&input, &data, Some(wrong), &d2, &inclass, &replay);
                // and with the option off the wrong checksum is carried, unchecked
                let ex = Expect { data: &data, typ, pairs: &pairs, footer: Some(wrong), colon: hs_colon };
                m.check_read(&input, &ex, &d2, &inclass, None, None, &replay);
            }
        }

        // single-bit flips: all 24 checksum bits; data bits: all for len <= 32, else sampled
        if r < 2 {
            let f = Fmt::default();
            let replay = json!({"family": "A-flip", "len": len, "type": label, "data": hexs(&data)});
            let d = drive_k(kk, seed);
            for b in 0..24 {
                let wrong = crc_ref ^ (1 << b);
                let input = ref_format(&label, &[], &data, Some(wrong), &f);
                m.check_crc(&input, &data, Some(wrong), &d, "checksum-bit-flip", &replay);
            }
            let nbits = len * 8;
            let bits: Vec<usize> = if len <= 32 {
                (0..nbits).collect()
            } else {
                (0..nflips).map(|_| rng.gen_range(0..nbits)).collect()
            };
            for b in bits {
                let mut dd = data.clone();
                dd[b / 8] ^= 1 << (b % 8);
                // the footer still carries the checksum of the original data
                let input = ref_format(&label, &[], &dd, Some(crc_ref), &f);
                m.check_crc(&input, &dd, Some(crc_ref), &d, "data-bit-flip", &replay);
            }
            m.ctx.cover(&("A-flip", len, r));
        }
        if r == 0 && (len == 100 || len == 1000) {
            m.ctx.sample(json!({"family": "A", "len": len, "type": label, "headers": pairs,
                "armored": String::from_utf8_lossy(&ref_format(&label, &pairs, &data, Some(crc_ref), &Fmt::default()))}));
        }
        }
    }

    lap(m.ctx, "A");
    // --------------------------------------------------------------------------------------
    // Family E: exhaustive small payloads — every payload of length 0, 1 and 2 (quick: every
    // 16th two-byte payload) and 512 three-byte payloads over the sextet-edge byte values:
    // write vs reference, read back, CRC option.
    {
        let edge = [0x00u8, 0x01, 0x3F, 0x40, 0x7F, 0x80, 0xFB, 0xFF];
        let (typ, label) = m.types[2].clone();
        for b0 in 0..=256usize {
            if !m.ctx.mine() {
                continue;
            }
            crate::core::describe_case(&format!("E b0={b0}"));
            let mut payloads: Vec<Vec<u8>> = vec![];
            if b0 == 256 {
                payloads.push(vec![]);
                for a in edge {
                    for b in edge {
                        for c in edge {
                            payloads.push(vec![a, b, c]);
                        }
                    }
                }
            } else {
                payloads.push(vec![b0 as u8]);
                for b1 in 0..256usize {
                    if quick && (b1 + b0) % 16 != 0 {
                        continue;
                    }
                    payloads.push(vec![b0 as u8, b1 as u8]);
                }
            }
            for data in payloads {
                let replay = json!({"family": "E", "type": label, "data": hexs(&data)});
                let out = m.ctx.guarded("C10/writer", || replay.clone(), || lib_write(&data, typ, None, true, &Chunking::Whole, &Sched::All));
                let Some(Ok(out)) = out else {
                    m.ctx.violation("C10/writer/error", "armor::write failed", replay);
                    continue;
                };
                m.check_writer("writer", &out, &label, &[], &data, true, &replay);
                let Some(emitted) = emitted_footer(&out) else { continue };
                let ex = Expect { data: &data, typ, pairs: &[], footer: emitted, colon: false };
                m.check_read(&out, &ex, &base, "lib-output", None, Some(b""), &replay);
                m.check_crc(&out, &data, emitted, &base, "lib-output", &replay);
                m.ctx.cover(&("E", &data));
            }
        }
    }

    // a checksum line carrying the CRC-24 initial value over non-empty data must be rejected
    if m.ctx.mine() {
        let (_, label) = m.types[2].clone();
        for (i, len) in [1usize, 3, 100, 768].into_iter().enumerate() {
            let mut rng = m.ctx.rng("init-footer", len as u64);
            let mut data = gen_data(&mut rng, len, 7);
            while rfc::armor::crc24(&data) == CRC_INIT {
                data[0] = data[0].wrapping_add(1);
            }
            let input = ref_format(&label, &[], &data, Some(CRC_INIT), &Fmt::default());
            let replay = json!({"family": "init-footer", "len": len, "data": hexs(&data)});
            m.check_crc(&input, &data, Some(CRC_INIT), &drive_k(i * 5, 1), "footer-is-crc-init", &replay);
            m.ctx.cover(&("init-footer", len));
        }
    }
    lap(m.ctx, "E");
    // --------------------------------------------------------------------------------------
    // Family M: configuration matrix — every block type x every header set x checksum on/off x
    // boundary lengths, every schedule class and source wrapper.
    let mlens: Vec<usize> = if quick {
        vec![0, 1, 2, 3, 47, 48, 49, 100]
    } else {
        vec![0, 1, 2, 3, 4, 5, 6, 46, 47, 48, 49, 50, 95, 96, 97, 100, 767, 768, 769, 1024]
    };
    for ti in 0..ntypes {
        for hi in 0..nh + 2 {
            if !m.ctx.mine() {
                continue;
            }
            let (typ, label) = m.types[ti].clone();
            crate::core::describe_case(&format!("M type={label} hs={hi}"));
            let mut rng = m.ctx.rng("M", (ti * 100 + hi) as u64);
            let hs = if hi >= nh { random_header_set(&mut rng) } else { m.hsets[hi].clone() };
            if typ == BlockType::CleartextMessage && !hs.cleartext_ok {
                continue;
            }
            let headers = hs.to_headers();
            let pairs = hs.pairs();
            let hs_colon = !hs.class.is_empty();
            let seed = rng.gen::<u64>();
            m.ctx.seen("block_types", type_class(&typ));
            m.ctx.seen("header_sets", hs.name);
            for (li, &len) in mlens.iter().enumerate() {
                let data = gen_data(&mut rng, len, 7);
                let crc_ref = rfc::armor::crc24(&data);
                for crc in [true, false] {
                    let replay = json!({"family": "M", "len": len, "type": label, "headers": hs.name, "pairs": pairs, "crc": crc, "data": hexs(&data)});
                    let out = m.ctx.guarded("C10/writer", || replay.clone(), || {
                        lib_write(&data, typ, headers.as_ref(), crc, &Chunking::Whole, &Sched::All)
                    });
                    let Some(out) = out else { continue };
                    let out = match out {
                        Ok(o) => o,
                        Err(e) => {
                            m.ctx.eval();
                            m.ctx.violation("C10/writer/error", format!("armor::write failed: {e}"), replay);
                            continue;
                        }
                    };
                    m.check_writer("writer", &out, &label, &pairs, &data, crc, &replay);
                    let Some(emitted) = emitted_footer(&out) else { continue };
                    let ex = Expect { data: &data, typ, pairs: &pairs, footer: emitted, colon: hs_colon };
                    let inclass = "lib-output".to_string();
                    let bok = m.check_read(&out, &ex, &base, &inclass, None, Some(b""), &replay);
                    m.ctx.cover(&("M", ti, hs.name, hi, len, crc));
                    // every schedule with a rotating wrapper / consumer
                    let sl = sched_list(seed);
                    let srcs = src_list();
                    let cl = cons_list();
                    for (si, sc) in sl.iter().enumerate() {
                        let k = si + li + hi + ti + crc as usize;
                        let d = Drive {
                            sched: sc.clone(),
                            src: srcs[k % srcs.len()].clone(),
                            cons: cl[(k / 2) % cl.len()].clone(),
                            entry: [0u8, 1, 0, 2][k % 4],
                            safe: false,
                            pat: None,
                        };
                        // inputs with header lines: the head goes in one window; the raw schedule
                        // (which cuts header lines) is exercised once per (type, header set) cell
                        let raw_too = !pairs.is_empty() && li == 3 && crc;
                        if raw_too {
                            m.ctx.seen("schedules", d.class());
                            m.ctx.tally("reader.raw_schedule_over_header_lines", 1);
                            m.check_read(&out, &ex, &d, &inclass, Some(bok), None, &replay);
                            m.check_crc_h(&out, &data, ex.footer, &d, &inclass, true, &replay);
                        }
                        let d = d.for_pairs(&pairs, k);
                        m.ctx.seen("schedules", d.class());
                        m.check_read(&out, &ex, &d, &inclass, Some(bok), None, &replay);
                    }
                    // variants: two per cell, rotating
                    for j in 0..2 {
                        let vi = (li * 2 + j + hi + ti) % VARIANTS.len();
                        let vname = VARIANTS[vi];
                        let f = variant_fmt(vname, len + ti);
                        let exv = Expect { data: &data, typ, pairs: &pairs, footer: crc.then_some(crc_ref), colon: hs_colon };
                        let ex = &exv;
                        let input = ref_format(&label, &pairs, &data, ex.footer, &f);
                        let inclass = vname.to_string();
                        let bok = m.check_read(&input, ex, &base, &inclass, None, None, &replay);
                        let d = drive_k(ti * 31 + hi * 7 + li * 3 + j, seed).for_pairs(&pairs, j);
                        m.check_read(&input, ex, &d, &inclass, Some(bok), None, &replay);
                        m.check_crc(&input, &data, ex.footer, &d, &inclass, &replay);
                    }
                }
            }
        }
    }

    // the RFC's "PART X" form (no total) reads as (X, 0)
    if m.ctx.mine() {
        let data = b"multi part".to_vec();
        for (x, lab) in [(14usize, "PGP MESSAGE, PART 14"), (1, "PGP MESSAGE, PART 1"), (0, "PGP MESSAGE, PART 0")] {
            let input = ref_format(lab, &[], &data, Some(rfc::armor::crc24(&data)), &Fmt::default());
            let ex = Expect { data: &data, typ: BlockType::MultiPartMessage(x, 0), pairs: &[], footer: Some(rfc::armor::crc24(&data)), colon: false };
            let replay = json!({"family": "part-x", "label": lab});
            let bok = m.check_read(&input, &ex, &base, "part-x-form", None, None, &replay);
            m.check_read(&input, &ex, &drive_k(x + 1, 3), "part-x-form", Some(bok), None, &replay);
            m.ctx.cover(&("part-x", x));
        }
    }

    lap(m.ctx, "M");
    // --------------------------------------------------------------------------------------
    // Family S: all drives (schedule x wrapper x consumer x entry) on a few inputs whose size sits
    // on the decoder's internal edges (1024-char base64 window = 768 bytes, 128-byte footer
    // look-ahead), with and without headers.
    let slens: Vec<usize> = if quick {
        vec![0, 1, 48, 765, 766, 767, 768, 769, 770, 771, 1536, 1537]
    } else {
        vec![0, 1, 2, 3, 47, 48, 49, 95, 96, 97, 764, 765, 766, 767, 768, 769, 770, 771, 772, 1535, 1536, 1537, 2304, 3072, 3073]
    };
    for (li, &len) in slens.iter().enumerate() {
        for hsel in 0..2 {
            if !m.ctx.mine() {
                continue;
            }
            crate::core::describe_case(&format!("S len={len} hsel={hsel}"));
            let mut rng = m.ctx.rng("S", (len * 2 + hsel) as u64);
            let data = gen_data(&mut rng, len, 7);
            let seed = rng.gen::<u64>();
            let hs = if hsel == 0 { m.hsets[0].clone() } else { m.hsets[10].clone() };
            let pairs = hs.pairs();
            let hs_colon = false;
            let (typ, label) = m.types[(li + hsel) % ntypes].clone();
            if typ == BlockType::CleartextMessage {
                continue;
            }
            let crc_ref = rfc::armor::crc24(&data);
            let sl = sched_list(seed);
            let srcs = src_list();
            let cl = cons_list();
            for (vi, vname) in ["plain", "crlf", "all-mixed", "no-final-newline"].iter().enumerate() {
                let footer = (vi != 3).then_some(crc_ref);
                let f = variant_fmt(vname, li);
                let input = ref_format(&label, &pairs, &data, footer, &f);
                let ex = Expect { data: &data, typ, pairs: &pairs, footer, colon: hs_colon };
                let replay = json!({"family": "S", "len": len, "type": label, "pairs": pairs, "variant": vname, "data": hexs(&data)});
                let bok = m.check_read(&input, &ex, &base, vname, None, None, &replay);
                for sc in sl.iter() {
                    for src in srcs.iter() {
                        for (ci, cons) in cl.iter().enumerate() {
                            // consumer patterns: all for the plain variant, a rotating third otherwise
                            if vi != 0 && (ci + li + vi) % 3 != 0 {
                                continue;
                            }
                            let d = Drive { sched: sc.clone(), src: src.clone(), cons: cons.clone(), entry: ((ci + vi) % 3) as u8, safe: false, pat: None };
                            if !pairs.is_empty() {
                                if matches!(src, Src::StdCap(_)) {
                                    continue;
                                }
                                if vi == 0 && ci == 0 {
                                    // raw schedule over header lines, once per schedule x wrapper
                                    m.ctx.tally("reader.raw_schedule_over_header_lines", 1);
                                    m.check_read(&input, &ex, &d, vname, Some(bok), None, &replay);
                                }
                            }
                            let d = d.for_pairs(&pairs, ci);
                            m.ctx.cover(&("S", len, hsel, vname, d.class(), ci));
                            m.ctx.seen("schedules", d.class());
                            m.ctx.seen("consumers", cons.name());
                            m.check_read(&input, &ex, &d, vname, Some(bok), None, &replay);
                        }
                    }
                }
            }
        }
    }

    lap(m.ctx, "S");
    // --------------------------------------------------------------------------------------
    // Family P: consumer call patterns — every pattern of PAT_NAMES x data length classes (empty,
    // below / on / above a base64 quantum, a 64-column line, the decoder's 1024-character window
    // and multiples of it, larger) x checksum line present / absent x library output and
    // reference-formatted variants x several source sides and entry points, CRC option off and on.
    let mut plens: Vec<usize> = if quick {
        vec![0, 1, 2, 3, 4, 47, 48, 49, 96, 100, 255, 500, 766, 767, 768, 769, 770, 1000, 1535, 1536, 1537, 2000, 2304, 3072, 3073, 5000, 8192, 20000]
    } else {
        (0..=100).chain([255, 256, 500, 764, 765, 766, 767, 768, 769, 770, 771, 772, 1000, 1023, 1024, 1025, 1535, 1536, 1537, 2000, 2303, 2304, 2305, 3071, 3072, 3073, 4096, 5000, 8191, 8192, 8193, 20000, 65536, 100_000]).collect()
    };
    let nfixed_p = plens.len();
    plens.extend(std::iter::repeat(0).take(if quick { 8 } else { 64 }));
    for (li, len0) in plens.clone().into_iter().enumerate() {
        for with_footer in [true, false] {
            if !m.ctx.mine() {
                continue;
            }
            let mut rng = m.ctx.rng("P", (li * 2 + with_footer as usize) as u64);
            let len = if li < nfixed_p { len0 } else { rng.gen_range(1..=6000usize) };
            crate::core::describe_case(&format!("P len={len} footer={with_footer}"));
            let data = gen_data(&mut rng, len, if li % 5 == 4 { 3 } else { 7 });
            let seed = rng.gen::<u64>();
            let (typ, label) = m.types[(li * 3 + with_footer as usize) % ntypes].clone();
            // every third length class with header lines (head delivered in one window)
            let hs = if li % 3 == 2 && typ != BlockType::CleartextMessage { m.hsets[10].clone() } else { m.hsets[0].clone() };
            let headers = hs.to_headers();
            let pairs = hs.pairs();
            let crc_ref = rfc::armor::crc24(&data);
            let footer = with_footer.then_some(crc_ref);
            m.ctx.seen("len_mod3", format!("{}", len % 3));
            let replay = json!({"family": "P", "len": len, "type": label, "headers": hs.name, "pairs": pairs,
                "with_checksum": with_footer, "data": if len <= 4096 { json!(hexs(&data)) } else { json!(null) }});
            // inputs: what the library writes, and three formatting variants from the reference
            let mut inputs: Vec<(String, Vec<u8>, Option<u32>, bool)> = vec![];
            let out = m.ctx.guarded("C10/writer", || replay.clone(), || {
                lib_write(&data, typ, headers.as_ref(), with_footer, &Chunking::Whole, &Sched::All)
            });
            match out {
                Some(Ok(o)) => {
                    if let Some(emitted) = emitted_footer(&o) {
                        inputs.push(("lib-output".into(), o, emitted, true));
                    } else {
                        m.check_writer("writer", &o, &label, &pairs, &data, with_footer, &replay);
                    }
                }
                Some(Err(e)) => m.ctx.violation("C10/writer/error", format!("armor::write failed: {e}"), replay.clone()),
                None => {}
            }
            for j in 0..3 {
                let vname = if j == 0 { "plain" } else { VARIANTS[(li * 2 + j + with_footer as usize) % VARIANTS.len()] };
                let input = ref_format(&label, &pairs, &data, footer, &variant_fmt(vname, li + j));
                inputs.push((vname.to_string(), input, footer, false));
            }
            for (ii, (inclass, input, foot, is_lib)) in inputs.iter().enumerate() {
                let ex = Expect { data: &data, typ, pairs: &pairs, footer: *foot, colon: false };
                let want_rest: Option<&[u8]> = if *is_lib { Some(b"") } else { None };
                let mut replay = replay.clone();
                replay["input_class"] = json!(inclass);
                let replay = &replay;
                let bok = m.check_read(input, &ex, &base, inclass, None, want_rest, &replay);
                // source sides: the baseline and two rotating ones, the plain consumer first
                let mut sides = vec![base.clone()];
                for j in 0..2 {
                    let mut d = drive_k(li * 7 + ii * 3 + j + with_footer as usize * 5, seed).for_pairs(&pairs, li + j);
                    d.entry = ((li + ii + j) % 3) as u8;
                    sides.push(d);
                }
                for (si, side) in sides.iter().enumerate() {
                    let plain = side.plain_consumer();
                    let sok = if si == 0 { bok } else { m.check_read(input, &ex, &plain, inclass, Some(bok), None, &replay) };
                    m.ctx.seen("schedules", side.class());
                    for pi in 0..PAT_NAMES.len() {
                        // the large inputs take the patterns in rotation on the non-baseline sides
                        if si > 0 && len > 8192 && (pi + li + si) % 4 != 0 {
                            continue;
                        }
                        let pat = pat_k(pi, len, &mut rng);
                        m.ctx.cover(&("P", len, with_footer, inclass.clone(), pat.name, side.class(), side.entry));
                        let d = plain.clone().with_pat(pat);
                        m.check_read(input, &ex, &d, inclass, Some(sok), want_rest, &replay);
                        // CRC option on (Dearmor::after_header takes no options: entry 2 becomes 0)
                        if (pi + si + ii) % 2 == 0 {
                            m.check_crc_h(input, &data, *foot, &d, "call-pattern", !pairs.is_empty(), &replay);
                        }
                    }
                }
            }
        }
    }
    lap(m.ctx, "P");
    // --------------------------------------------------------------------------------------
    // Family L: large payloads (sampled sizes up to 1 MiB in thorough, 192 KiB in quick)
    let mut lsizes: Vec<usize> = vec![4097, 8191, 8192, 8193, 12288, 16383, 16384, 16385, 49152, 65535, 65536, 65537];
    if quick {
        lsizes.extend([100_000, 196_608]);
    } else {
        lsizes.extend([100_000, 131_071, 131_072, 262_144, 262_145, 393_216, 524_287, 524_288, 786_432, 1_048_575, 1_048_576]);
    }
    let nrand_l = if quick { 12 } else { 120 };
    for i in 0..lsizes.len() + nrand_l {
        if !m.ctx.mine() {
            continue;
        }
        let mut rng = m.ctx.rng("L", i as u64);
        let len = if i < lsizes.len() {
            lsizes[i]
        } else {
            rng.gen_range(4097..=if quick { 200_000usize } else { 1_048_576 })
        };
        crate::core::describe_case(&format!("L len={len}"));
        let data = gen_data(&mut rng, len, 7);
        let seed = rng.gen::<u64>();
        let (typ, label) = m.types[i % ntypes].clone();
        let hs = if typ == BlockType::CleartextMessage { m.hsets[4].clone() } else { m.hsets[(i * 5) % nh].clone() };
        if !hs.class.is_empty() {
            continue;
        }
        let hs_colon = false;
        let headers = hs.to_headers();
        let pairs = hs.pairs();
        let crc_ref = rfc::armor::crc24(&data);
        let crc = i % 3 != 2;
        let chunk = match &chunkings[i % chunkings.len()] {
            Chunking::Random(_) => Chunking::Random(seed),
            c => c.clone(),
        };
        let replay = json!({"family": "L", "i": i, "len": len, "type": label, "headers": hs.name, "crc": crc, "chunking": chunk.name()});
        m.ctx.seen("len_mod3", format!("{}", len % 3));
        let out = m.ctx.guarded("C10/writer", || replay.clone(), || lib_write(&data, typ, headers.as_ref(), crc, &chunk, &Sched::All));
        let Some(Ok(out)) = out else {
            m.ctx.violation("C10/writer/error", "armor::write failed on large payload", replay);
            continue;
        };
        m.check_writer("writer", &out, &label, &pairs, &data, crc, &replay);
        let Some(emitted) = emitted_footer(&out) else { continue };
        let ex = Expect { data: &data, typ, pairs: &pairs, footer: emitted, colon: hs_colon };
        let bok = m.check_read(&out, &ex, &base, "lib-output", None, Some(b""), &replay);
        for j in 0..4 {
            let d = drive_k(i * 4 + j, seed).for_pairs(&pairs, j);
            m.ctx.cover(&("L", len, d.class()));
            m.check_read(&out, &ex, &d, "lib-output", Some(bok), None, &replay);
        }
        m.check_crc(&out, &data, ex.footer, &drive_k(i, seed).for_pairs(&pairs, i), "lib-output", &replay);
        {
            let pat = pat_k(i, len, &mut rng);
            let d = if i % 2 == 0 { base.clone() } else { drive_k(i * 7 + 2, seed).for_pairs(&pairs, i) };
            m.ctx.cover(&("L-c", len, pat.name));
            m.check_read_calls(&out, &ex, &d.with_pat(pat), "lib-output", Some(bok), Some(b""), &replay);
        }
        for j in 0..3 {
            let vi = (i + j * 5) % VARIANTS.len();
            let vname = VARIANTS[vi];
            let exv = Expect { data: &data, typ, pairs: &pairs, footer: crc.then_some(crc_ref), colon: hs_colon };
            let input = ref_format(&label, &pairs, &data, exv.footer, &variant_fmt(vname, i));
            let d = drive_k(i * 3 + j + 1, seed).for_pairs(&pairs, j);
            m.ctx.cover(&("L-v", len, vname, d.class()));
            m.check_read(&input, &exv, &d, vname, None, None, &replay);
        }
        // one data-bit flip with the option on
        let mut dd = data.clone();
        let b = rng.gen_range(0..len * 8);
        dd[b / 8] ^= 1 << (b % 8);
        let input = ref_format(&label, &[], &dd, Some(crc_ref), &Fmt::default());
        m.check_crc(&input, &dd, Some(crc_ref), &drive_k(i + 1, seed), "data-bit-flip", &replay);
        if i == 0 {
            m.ctx.sample(json!({"family": "L", "len": len, "type": label, "armored_len": out.len(), "crc24": format!("{crc_ref:06X}")}));
        }
    }

    lap(m.ctx, "L");
    // --------------------------------------------------------------------------------------
    // Family K: to_armored_* / from_armor* of keys, messages, detached signatures
    composed(&mut m);
    lap(m.ctx, "K");

    let have: Vec<String> = m.ctx.sets.get("block_types").map(|s| s.iter().cloned().collect()).unwrap_or_default();
    m.ctx.extra.insert("block_types_this_shard".into(), json!(have));
    m.ctx.extra.insert("block_type_classes".into(), json!(ALL_TYPE_CLASSES));
    m.ctx.extra.insert("schedule_classes".into(), json!(SCHED_CLASSES));
}

// ------------------------------------------------------------------------------------------
// Family K

/// `Read` source handing out fixed pieces, Send + Debug (Message::from_armor wants both)
#[derive(Debug)]
struct PieceReader {
    data: Vec<u8>,
    pos: usize,
    n: usize,
    /// size of the first piece (0 = n)
    first: usize,
}

impl PieceReader {
    /// pieces of n bytes; the armor head (up to the body) comes in one piece when there are header
    /// lines (see SIG_HEADER_SPLIT)
    fn new(data: Vec<u8>, n: usize, has_headers: bool) -> Self {
        let first = if has_headers { body_start(&data) } else { 0 };
        PieceReader { data, pos: 0, n, first }
    }
}

impl Read for PieceReader {
    fn read(&mut self, buf: &mut [u8]) -> io::Result<usize> {
        let want = if self.pos == 0 && self.first > 0 { self.first } else { self.n };
        let n = want.min(buf.len()).min(self.data.len() - self.pos);
        buf[..n].copy_from_slice(&self.data[self.pos..self.pos + n]);
        self.pos += n;
        Ok(n)
    }
}

fn arm_opts(h: &Option<Headers>, crc: bool) -> ArmorOptions<'_> {
    ArmorOptions { headers: h.as_ref(), include_checksum: crc }
}

fn composed(m: &mut Mon) {
    let quick = m.ctx.quick();
    let hsel = [0usize, 3, 9, 10, 6];
    // keys
    let mut specs = vec![
        zoo::Spec::simple(false, zoo::Alg::Ed25519Legacy, Some(zoo::Alg::EcdhCv25519)),
        zoo::Spec::simple(true, zoo::Alg::Ed25519, Some(zoo::Alg::X25519)),
        zoo::Spec::simple(false, zoo::Alg::EcdsaP256, Some(zoo::Alg::EcdhP256)),
    ];
    if !quick {
        specs.push(zoo::Spec::simple(false, zoo::Alg::Rsa2048, Some(zoo::Alg::Rsa2048)));
        specs.push(zoo::Spec::simple(true, zoo::Alg::Ed448, Some(zoo::Alg::X448)));
        let mut locked = zoo::Spec::simple(false, zoo::Alg::Ed25519Legacy, Some(zoo::Alg::EcdhCv25519));
        locked.passphrase = Some("pw".into());
        locked.uids = 3;
        specs.push(locked);
    }
    for (si, spec) in specs.iter().enumerate() {
        for (hj, &hidx) in hsel.iter().enumerate() {
            if !m.ctx.mine() {
                continue;
            }
            crate::core::describe_case(&format!("K key {} hs={hidx}", spec.name()));
            let hs = m.hsets[hidx].clone();
            let headers = hs.to_headers();
            let pairs = hs.pairs();
            let crc = (si + hj) % 2 == 0;
            let sk = zoo::key(spec, 0);
            let pk = zoo::public(&sk);
            let replay = json!({"family": "K", "object": "key", "spec": spec.name(), "headers": hs.name, "crc": crc});
            // secret key
            let r = m.ctx.guarded("C10/composed/secret-key", || replay.clone(), || {
                let bin = sk.to_bytes().map_err(|e| e.to_string())?;
                let arm = sk.to_armored_string(arm_opts(&headers, crc)).map_err(|e| e.to_string())?;
                let arm_b = sk.to_armored_bytes(arm_opts(&headers, crc)).map_err(|e| e.to_string())?;
                let back = SignedSecretKey::from_string(&arm).map_err(|e| format!("from_string: {e}"));
                let back2 = SignedSecretKey::from_armor_single(PieceReader::new(arm.clone().into_bytes(), 5, !pairs.is_empty()))
                    .map_err(|e| format!("from_armor_single: {e}"));
                let crlf = arm.replace('\n', "\r\n");
                let back3 = SignedSecretKey::from_reader_single(crlf.as_bytes()).map_err(|e| format!("from_reader_single: {e}"));
                Ok::<_, String>((bin, arm, arm_b, back, back2, back3))
            });
            if let Some(r) = r {
                match r {
                    Err(e) => m.ctx.violation("C10/composed/secret-key/armor-error", e, replay.clone()),
                    Ok((bin, arm, arm_b, back, back2, back3)) => {
                        m.check_writer("composed/secret-key", arm.as_bytes(), "PGP PRIVATE KEY BLOCK", &pairs, &bin, crc, &replay);
                        if arm.as_bytes() != &arm_b[..] {
                            m.ctx.violation("C10/composed/secret-key/string-vs-bytes", "to_armored_string and to_armored_bytes differ", replay.clone());
                        }
                        let mut chk = |name: &str, b: Result<(SignedSecretKey, Headers), String>| match b {
                            Ok((k, h)) => {
                                // armor must be transparent: same object as parsing the binary form,
                                // and it must serialise to the same bytes
                                let via_bin = SignedSecretKey::from_bytes(&bin[..]).ok();
                                if via_bin.as_ref() != Some(&sk) {
                                    m.ctx.tally("K.note.binary_parse_of_to_bytes_is_not_identity(secret-key)", 1);
                                }
                                if via_bin.is_some() && Some(&k) != via_bin.as_ref() || k.to_bytes().ok().as_deref() != Some(&bin[..]) {
                                    m.ctx.violation(format!("C10/composed/secret-key/roundtrip-differs/{name}"), "key differs after armor round trip", replay.clone());
                                }
                                if flatten(&h) != pairs {
                                    m.ctx.violation(format!("C10/composed/secret-key/headers-differ/{name}"), format!("headers {:?}, want {:?}", flatten(&h), pairs), replay.clone());
                                }
                            }
                            Err(e) => m.ctx.violation(format!("C10/composed/secret-key/read-error/{name}"), e, replay.clone()),
                        };
                        chk("from_string", back);
                        chk("from_armor_single", back2);
                        chk("from_reader_single-crlf", back3.map(|(k, h)| (k, h.unwrap_or_default())));
                        m.ctx.evals_add(3);
                        m.ctx.cover(&("K-sk", si, hidx, crc));
                        m.ctx.seen("composed_objects", "secret-key");
                    }
                }
            }
            // public key
            let r = m.ctx.guarded("C10/composed/public-key", || replay.clone(), || {
                let bin = pk.to_bytes().map_err(|e| e.to_string())?;
                let arm = pk.to_armored_string(arm_opts(&headers, crc)).map_err(|e| e.to_string())?;
                let back = SignedPublicKey::from_string(&arm).map_err(|e| format!("from_string: {e}"));
                let lead = format!("Here is my key:\n\n{}\nthanks\n", arm.trim_end_matches('\n'));
                let back2 = SignedPublicKey::from_armor_single(PieceReader::new(lead.into_bytes(), 4096, false))
                    .map_err(|e| format!("from_armor_single: {e}"));
                Ok::<_, String>((bin, arm, back, back2))
            });
            if let Some(r) = r {
                match r {
                    Err(e) => m.ctx.violation("C10/composed/public-key/armor-error", e, replay.clone()),
                    Ok((bin, arm, back, back2)) => {
                        m.check_writer("composed/public-key", arm.as_bytes(), "PGP PUBLIC KEY BLOCK", &pairs, &bin, crc, &replay);
                        let mut chk = |name: &str, b: Result<(SignedPublicKey, Headers), String>| match b {
                            Ok((k, h)) => {
                                let via_bin = SignedPublicKey::from_bytes(&bin[..]).ok();
                                if via_bin.as_ref() != Some(&pk) {
                                    m.ctx.tally("K.note.binary_parse_of_to_bytes_is_not_identity(public-key)", 1);
                                }
                                if via_bin.is_some() && Some(&k) != via_bin.as_ref() || k.to_bytes().ok().as_deref() != Some(&bin[..]) {
                                    m.ctx.violation(format!("C10/composed/public-key/roundtrip-differs/{name}"), "key differs after armor round trip", replay.clone());
                                }
                                if flatten(&h) != pairs {
                                    m.ctx.violation(format!("C10/composed/public-key/headers-differ/{name}"), format!("headers {:?}, want {:?}", flatten(&h), pairs), replay.clone());
                                }
                            }
                            Err(e) => m.ctx.violation(format!("C10/composed/public-key/read-error/{name}"), e, replay.clone()),
                        };
                        chk("from_string", back);
                        chk("from_armor_single-leading-text", back2);
                        m.ctx.evals_add(2);
                        m.ctx.cover(&("K-pk", si, hidx, crc));
                        m.ctx.seen("composed_objects", "public-key");
                        if si == 0 && hj == 1 {
                            m.ctx.sample(json!({"family": "K", "object": "public key", "spec": spec.name(), "armored": arm}));
                        }
                    }
                }
            }
        }
    }

    // messages: the MessageBuilder armor emitter is a second copy of the writer
    let msizes: Vec<usize> = if quick {
        (0..=200).chain([765, 766, 767, 768, 4000, 8192, 20000]).collect()
    } else {
        (0..=1100).chain([4000, 8192, 20000, 65536, 300_000]).collect()
    };
    for (i, &len) in msizes.iter().enumerate() {
        if !m.ctx.mine() {
            continue;
        }
        crate::core::describe_case(&format!("K message len={len}"));
        let mut rng = m.ctx.rng("K-msg", len as u64);
        let payload = gen_data(&mut rng, len, 7);
        let hs = m.hsets[hsel[i % hsel.len()]].clone();
        let headers = hs.to_headers();
        let pairs = hs.pairs();
        let crc = i % 2 == 0;
        let replay = json!({"family": "K", "object": "message", "len": len, "headers": hs.name, "crc": crc, "payload": hexs(&payload)});
        let r = m.ctx.guarded("C10/composed/message", || replay.clone(), || {
            let r1 = rand_chacha::ChaCha8Rng::seed_from_u64(1);
            let r2 = rand_chacha::ChaCha8Rng::seed_from_u64(1);
            let bin = MessageBuilder::from_bytes("f", payload.clone()).to_vec(r1).map_err(|e| e.to_string())?;
            let arm = MessageBuilder::from_bytes("f", payload.clone())
                .to_armored_string(r2, arm_opts(&headers, crc))
                .map_err(|e| e.to_string())?;
            let back = match Message::from_string(&arm) {
                Ok((mut msg, h)) => msg.as_data_vec().map(|d| (d, h)).map_err(|e| format!("as_data_vec: {e}")),
                Err(e) => Err(format!("from_string: {e}")),
            };
            let back2 = match Message::from_armor(BufReader::new(PieceReader::new(arm.replace('\n', "\r\n").into_bytes(), 7, !pairs.is_empty()))) {
                Ok((mut msg, h)) => msg.as_data_vec().map(|d| (d, h)).map_err(|e| format!("as_data_vec: {e}")),
                Err(e) => Err(format!("from_armor: {e}")),
            };
            Ok::<_, String>((bin, arm, back, back2))
        });
        let Some(r) = r else { continue };
        match r {
            Err(e) => m.ctx.violation("C10/composed/message/armor-error", e, replay.clone()),
            Ok((bin, arm, back, back2)) => {
                m.check_writer("composed/message", arm.as_bytes(), "PGP MESSAGE", &pairs, &bin, crc, &replay);
                for (name, b) in [("from_string", back), ("from_armor-crlf-pieces", back2)] {
                    m.ctx.eval();
                    match b {
                        Ok((d, h)) => {
                            if d != payload {
                                m.ctx.violation(format!("C10/composed/message/roundtrip-differs/{name}"), "payload differs after armor round trip", replay.clone());
                            }
                            if flatten(&h) != pairs {
                                m.ctx.violation(format!("C10/composed/message/headers-differ/{name}"), format!("headers {:?}, want {:?}", flatten(&h), pairs), replay.clone());
                            }
                        }
                        Err(e) => m.ctx.violation(format!("C10/composed/message/read-error/{name}"), e, replay.clone()),
                    }
                }
                m.ctx.cover(&("K-msg", len, hs.name, crc));
                m.ctx.seen("composed_objects", "message");
            }
        }
    }

    // detached signatures
    let key = zoo::key(&zoo::Spec::simple(false, zoo::Alg::Ed25519Legacy, None), 0);
    for i in 0..(if quick { 10usize } else { 40 }) {
        if !m.ctx.mine() {
            continue;
        }
        crate::core::describe_case(&format!("K signature {i}"));
        let mut rng = m.ctx.rng("K-sig", i as u64);
        let mut doc = vec![0u8; i * 37];
        rng.fill_bytes(&mut doc);
        let hs = m.hsets[hsel[i % hsel.len()]].clone();
        let headers = hs.to_headers();
        let pairs = hs.pairs();
        let crc = i % 2 == 1;
        let replay = json!({"family": "K", "object": "signature", "i": i, "headers": hs.name, "crc": crc});
        let r = m.ctx.guarded("C10/composed/signature", || replay.clone(), || {
            let sig = DetachedSignature::sign_binary_data(&mut rng, &key.primary_key, &Password::empty(), HashAlgorithm::Sha256, &doc[..])
                .map_err(|e| e.to_string())?;
            let bin = sig.to_bytes().map_err(|e| e.to_string())?;
            let arm = sig.to_armored_string(arm_opts(&headers, crc)).map_err(|e| e.to_string())?;
            let back = DetachedSignature::from_string(&arm).map_err(|e| format!("from_string: {e}"));
            let back2 = DetachedSignature::from_armor_single(PieceReader::new(arm.replace('\n', "\r\n").into_bytes(), 3, !pairs.is_empty()))
                .map_err(|e| format!("from_armor_single: {e}"));
            Ok::<_, String>((sig, bin, arm, back, back2))
        });
        let Some(r) = r else { continue };
        match r {
            Err(e) => m.ctx.violation("C10/composed/signature/armor-error", e, replay.clone()),
            Ok((sig, bin, arm, back, back2)) => {
                m.check_writer("composed/signature", arm.as_bytes(), "PGP SIGNATURE", &pairs, &bin, crc, &replay);
                for (name, b) in [("from_string", back), ("from_armor_single-crlf-pieces", back2)] {
                    m.ctx.eval();
                    match b {
                        Ok((sg, h)) => {
                            if sg != sig || sg.to_bytes().ok().as_deref() != Some(&bin[..]) {
                                m.ctx.violation(format!("C10/composed/signature/roundtrip-differs/{name}"), "signature differs after armor round trip", replay.clone());
                            }
                            if flatten(&h) != pairs {
                                m.ctx.violation(format!("C10/composed/signature/headers-differ/{name}"), format!("headers {:?}, want {:?}", flatten(&h), pairs), replay.clone());
                            }
                        }
                        Err(e) => m.ctx.violation(format!("C10/composed/signature/read-error/{name}"), e, replay.clone()),
                    }
                }
                m.ctx.cover(&("K-sig", i, hs.name, crc));
                m.ctx.seen("composed_objects", "signature");
            }
        }
    }
}
