//! C06 — signature completeness: what any signing API signs, every verify API accepts.
//!
//! Matrix monitor. For every payload the signature is made through each signing interface
//!   S1 DetachedSignature::sign_binary_data      S2 DetachedSignature::sign_text_data
//!   S3 SignatureConfig::sign(reader) Binary/Text S4 SignatureConfig::into_hasher + io::Write + SignatureHasher::sign
//!   S5 MessageBuilder::sign (binary/text, 1-3 signers, +-compression, +-SEIPDv1/v2, bytes/reader source)
//!   S6 CleartextSignedMessage::{sign,new}        S6many CleartextSignedMessage::new_many
//!   S7 key builder self-signatures (+ SignatureConfig::sign_key direct-key signature)
//! and verified through every applicable verification interface
//!   V1 Signature::verify(reader)   V2 DetachedSignature::verify   V3 armor -> from_string -> verify
//!   V4 / V4armor Message parse -> (decrypt) -> (decompress) -> read -> verify*/verify_read
//!   V5 / V5armor CleartextSignedMessage::verify / verify_many (directly, after armor round trip)
//!   V6 / V6armor / V6bytes verify_bindings (directly, after armor / binary export + import)
//!   V7 cross interface: message signature extracted and verified as detached signature;
//!      detached signature spliced in front of a literal packet and verified as a message.
//! Every verification must be Ok. The oracle is agreement of two library paths (the property is
//! about agreement); the digests themselves are checked against the RFC reference by C11/C14.

use std::collections::HashSet;
use std::fmt::Display;
use std::io::{Read, Write};

use pgp::composed::{
    ArmorOptions, CleartextSignedMessage, Deserializable, DetachedSignature, Encryption,
    KeyType, Message, MessageBuilder, PlainSessionKey, RawSessionKey, SecretKeyParamsBuilder,
    SignedPublicKey, SignedSecretKey, SubkeyParamsBuilder, VerificationResult,
};
use pgp::crypto::aead::{AeadAlgorithm, ChunkSize};
use pgp::crypto::hash::HashAlgorithm;
use pgp::crypto::sym::SymmetricKeyAlgorithm;
use pgp::packet::{
    DataMode, Signature, SignatureConfig, SignatureType, Subpacket, SubpacketData,
};
use pgp::ser::Serialize;
use pgp::types::{CompressionAlgorithm, KeyDetails, KeyVersion, Password, Timestamp};
use rand::{Rng, RngCore};
use rand_chacha::ChaCha8Rng;
use serde_json::{json, Value};

use crate::core::{self, hexs, Ctx};
use crate::hooks;
use crate::rfc;
use crate::shim::{chunks_by_splits, composition_splits, Sched, SchedReader};
use crate::zoo::{self, Alg, Spec};

const CR: u8 = b'\r';
const LF: u8 = b'\n';
const HASHES: [HashAlgorithm; 3] = [HashAlgorithm::Sha256, HashAlgorithm::Sha512, HashAlgorithm::Sha3_256];

/// Full list of matrix cells the workload exercises (also in meta/C06.json required_sets).
pub const CELLS: [&str; 38] = [
    "S1->V1", "S1->V2", "S1->V3", "S1->V7",
    "S2->V1", "S2->V2", "S2->V3", "S2->V7",
    "S3bin->V1", "S3bin->V2", "S3bin->V3", "S3bin->V7",
    "S3text->V1", "S3text->V2", "S3text->V3", "S3text->V7",
    "S4bin->V1", "S4bin->V2", "S4bin->V3", "S4bin->V7",
    "S4text->V1", "S4text->V2", "S4text->V3", "S4text->V7",
    "S5bin->V4", "S5bin->V4armor", "S5bin->V7",
    "S5text->V4", "S5text->V4armor", "S5text->V7",
    "S6->V1", "S6->V5", "S6->V5armor", "S6many->V5", "S6many->V5armor",
    "S7->V6", "S7->V6armor", "S7->V6bytes",
];

// ------------------------------------------------------------------------------------------
// payload classes (stable strings used in violation signatures)

/// A line's content (text before its "\r\n" / "\n", or the last line up to the end of the text)
/// ends in SP or TAB — exactly what the cleartext framework trims.
fn has_trailing_blank(p: &[u8]) -> bool {
    for line in p.split_inclusive(|b| *b == LF) {
        let content = if line.ends_with(b"\r\n") {
            &line[..line.len() - 2]
        } else if line.ends_with(b"\n") {
            &line[..line.len() - 1]
        } else {
            line
        };
        if matches!(content.last(), Some(b' ') | Some(b'\t')) {
            return true;
        }
    }
    false
}

fn has_leading_dash(p: &[u8]) -> bool {
    p.iter().enumerate().any(|(i, b)| *b == b'-' && (i == 0 || p[i - 1] == LF))
}

/// First matching class wins.
fn class(p: &[u8]) -> &'static str {
    if p.is_empty() {
        "empty"
    } else if has_trailing_blank(p) {
        "trailing-blank-line-end"
    } else if p.last() == Some(&CR) {
        "trailing-lone-CR"
    } else if has_leading_dash(p) {
        "leading-dash"
    } else if p.contains(&0) {
        "has-NUL"
    } else if std::str::from_utf8(p).is_err() {
        "non-UTF8"
    } else {
        "other"
    }
}

// ------------------------------------------------------------------------------------------
// keys

struct K {
    name: &'static str,
    sk: SignedSecretKey,
    pk: SignedPublicKey,
}

impl K {
    fn new(name: &'static str, spec: &Spec) -> K {
        let sk = zoo::key(spec, 0);
        let pk = sk.to_public_key();
        K { name, sk, pk }
    }
    fn v6(&self) -> bool {
        self.sk.primary_key.version() == KeyVersion::V6
    }
}

struct Env {
    /// 0: v4 Ed25519Legacy, 1: v6 Ed25519, 2: v4 ECDSA P-256, 3: v4 RSA-2048
    keys: Vec<K>,
    ts: Timestamp,
}

/// Per payload x key report context
struct Rep<'a> {
    p: &'a [u8],
    cls: &'static str,
    key: &'static str,
    hash: HashAlgorithm,
    cfg: String,
    family: &'static str,
    hooks: bool,
}

impl Rep<'_> {
    fn replay(&self, cell: &str) -> Value {
        json!({
            "family": self.family,
            "cell": cell,
            "payload": hexs(self.p),
            "payload_len": self.p.len(),
            "key": self.key,
            "hash": format!("{:?}", self.hash),
            "cfg": self.cfg,
        })
    }
    fn show(&self) -> String {
        let n = self.p.len().min(48);
        format!(
            "payload[{}]={:?}{} key={} hash={:?} {}",
            self.p.len(),
            String::from_utf8_lossy(&self.p[..n]),
            if self.p.len() > n { "..." } else { "" },
            self.key,
            self.hash,
            self.cfg
        )
    }
}

/// A verification result of matrix cell s->v: must be Ok.
fn ok<T, E: Display>(ctx: &mut Ctx, rep: &Rep, s: &str, v: &str, r: Result<T, E>) -> Option<T> {
    ctx.eval();
    let cell = format!("{s}->{v}");
    let out = match r {
        Ok(t) => Some(t),
        Err(e) => {
            ctx.violation(
                format!("C06/{cell}/rejected/{}", rep.cls),
                format!("signature made by {s} rejected by {v}: {e}; {}", rep.show()),
                rep.replay(&cell),
            );
            None
        }
    };
    ctx.seen("matrix", cell);
    out
}

/// Result of a signing call: must be Ok.
fn signed<T, E: Display>(ctx: &mut Ctx, rep: &Rep, s: &str, r: Result<T, E>) -> Option<T> {
    ctx.eval();
    match r {
        Ok(t) => Some(t),
        Err(e) => {
            ctx.violation(
                format!("C06/{s}/sign-error/{}", rep.cls),
                format!("signing through {s} failed: {e}; {}", rep.show()),
                rep.replay(s),
            );
            None
        }
    }
}

/// Result of serialising / re-parsing the library's own artefact on the way to cell s->v.
fn parsed<T, E: Display>(ctx: &mut Ctx, rep: &Rep, s: &str, v: &str, what: &str, r: Result<T, E>) -> Option<T> {
    match r {
        Ok(t) => Some(t),
        Err(e) => {
            let cell = format!("{s}->{v}");
            ctx.violation(
                format!("C06/{cell}/{what}/{}", rep.cls),
                format!("{what} of the artefact signed by {s} on the way to {v}: {e}; {}", rep.show()),
                rep.replay(&cell),
            );
            None
        }
    }
}

fn mk_config(env: &Env, k: &K, typ: SignatureType, hash: HashAlgorithm, rng: &mut ChaCha8Rng, rot: u64) -> pgp::errors::Result<SignatureConfig> {
    let alg = k.sk.primary_key.algorithm();
    let mut c = if k.v6() {
        SignatureConfig::v6(&mut *rng, typ, alg, hash)?
    } else {
        SignatureConfig::v4(typ, alg, hash)
    };
    c.hashed_subpackets = vec![
        Subpacket::regular(SubpacketData::SignatureCreationTime(env.ts))?,
        Subpacket::regular(SubpacketData::IssuerFingerprint(k.sk.primary_key.fingerprint()))?,
    ];
    if !k.v6() && rot % 2 == 0 {
        c.unhashed_subpackets = vec![Subpacket::regular(SubpacketData::IssuerKeyId(k.sk.primary_key.legacy_key_id()))?];
    }
    Ok(c)
}

fn literal_packet(p: &[u8]) -> Vec<u8> {
    // RFC 9580 5.9: format 'b', empty file name, date 0, data
    let mut body = vec![b'b', 0, 0, 0, 0, 0];
    body.extend_from_slice(p);
    rfc::frame::frame(11, &body, &rfc::frame::LenForm::NewMin).expect("literal frame")
}

fn sched_for(rot: u64) -> Sched {
    match rot % 5 {
        0 => Sched::All,
        1 => Sched::Fixed(1),
        2 => Sched::Cycle(vec![511, 1, 2, 8191, 1]),
        3 => Sched::Random(rot, 700),
        _ => Sched::Fixed(7),
    }
}

/// V1, V2, V3 and V7 (prefixed-signature message) for one detached signature.
fn verify_detached(ctx: &mut Ctx, rep: &Rep, s: &str, sig: &Signature, k: &K, rot: u64) {
    let p = rep.p;
    // V1 Signature::verify over a reader with an I/O schedule
    let sched = sched_for(rot);
    if rep.hooks {
        let (r, ev) = hooks::record(|| sig.verify(&k.pk.primary_key, SchedReader::new(p.to_vec(), sched)));
        for e in &ev {
            if e.site == "norm.rd.window" {
                let arm = match (e.b as u8, e.c as u8, e.a > 0) {
                    (CR, LF, true) => "CR|LF",
                    (CR, _, _) => "CR|other",
                    _ => "none",
                };
                ctx.seen("hook.norm.rd.window.arm", arm);
            }
        }
        ok(ctx, rep, s, "V1", r);
    } else {
        ok(ctx, rep, s, "V1", sig.verify(&k.pk.primary_key, SchedReader::new(p.to_vec(), sched)));
    }

    // V2 DetachedSignature::verify (SignedPublicKey as the verifying key)
    let ds = DetachedSignature::new(sig.clone());
    ok(ctx, rep, s, "V2", ds.verify(&k.pk, p));

    // V3 armor round trip
    if let Some(arm) = parsed(ctx, rep, s, "V3", "armor-error", ds.to_armored_string(ArmorOptions::default())) {
        if let Some((ds2, _)) = parsed(ctx, rep, s, "V3", "parse-error", DetachedSignature::from_string(&arm)) {
            ok(ctx, rep, s, "V3", ds2.verify(&k.pk.primary_key, p));
        }
    }

    // V7 [signature][literal] as a prefixed-signature message
    if let Some(mut bytes) = parsed(ctx, rep, s, "V7", "serialize-error", ds.to_bytes()) {
        bytes.extend_from_slice(&literal_packet(p));
        if let Some(mut m) = parsed(ctx, rep, s, "V7", "parse-error", Message::from_bytes(&bytes[..])) {
            if let Some(data) = parsed(ctx, rep, s, "V7", "read-error", m.as_data_vec()) {
                if data != p {
                    ctx.violation(format!("C06/{s}->V7/data-mismatch/{}", rep.cls), format!("literal data changed; {}", rep.show()), rep.replay("V7"));
                }
                ok(ctx, rep, s, "V7", m.verify(&k.pk.primary_key));
            }
        }
    }
}

// ------------------------------------------------------------------------------------------
// S1..S4

fn s1_s4(ctx: &mut Ctx, env: &Env, rep: &Rep, k: &K, rng: &mut ChaCha8Rng, rot: u64) {
    let p = rep.p;
    let pw = Password::empty();
    let hash = rep.hash;

    // S1
    if let Some(ds) = signed(ctx, rep, "S1", DetachedSignature::sign_binary_data(&mut *rng, &k.sk.primary_key, &pw, hash, p)) {
        verify_detached(ctx, rep, "S1", &ds.signature, k, rot);
    }
    // S2
    let src = SchedReader::new(p.to_vec(), sched_for(rot + 2));
    if let Some(ds) = signed(ctx, rep, "S2", DetachedSignature::sign_text_data(&mut *rng, &k.sk.primary_key, &pw, hash, src)) {
        verify_detached(ctx, rep, "S2", &ds.signature, k, rot + 1);
    }
    // S3 / S4
    for (typ, tn) in [(SignatureType::Binary, "bin"), (SignatureType::Text, "text")] {
        let s3 = format!("S3{tn}");
        let r = mk_config(env, k, typ, hash, rng, rot).and_then(|c| {
            c.sign(&k.sk.primary_key, &pw, SchedReader::new(p.to_vec(), sched_for(rot + 3)))
        });
        if let Some(sig) = signed(ctx, rep, &s3, r) {
            verify_detached(ctx, rep, &s3, &sig, k, rot + 2);
        }

        let s4 = format!("S4{tn}");
        // chunking of the writes: a composition chosen by rot for short payloads, random sizes above
        let splits: Vec<usize> = if p.len() <= 40 {
            let bits = p.len().saturating_sub(1);
            let mask = if bits == 0 { 0 } else { rng.gen::<u64>() & ((1u64 << bits) - 1) };
            match rot % 3 {
                0 => composition_splits(p.len(), mask),
                1 => composition_splits(p.len(), if bits == 0 { 0 } else { (1u64 << bits) - 1 }), // bytewise
                _ => composition_splits(p.len(), 0),
            }
        } else {
            let mut v = vec![];
            let mut pos = 0usize;
            loop {
                pos += match rot % 3 {
                    0 => rng.gen_range(1..=1024usize),
                    1 => [511usize, 1, 512, 8191, 1][v.len() % 5],
                    _ => 8192,
                };
                if pos >= p.len() {
                    break;
                }
                v.push(pos);
            }
            v
        };
        let r = mk_config(env, k, typ, hash, rng, rot + 1).and_then(|c| {
            let mut h = c.into_hasher()?;
            for c in chunks_by_splits(p, &splits) {
                h.write_all(c)?;
            }
            h.flush()?;
            h.sign(&k.sk.primary_key, &pw)
        });
        if let Some(sig) = signed(ctx, rep, &s4, r) {
            verify_detached(ctx, rep, &s4, &sig, k, rot + 3);
        }
    }
}

// ------------------------------------------------------------------------------------------
// S5 message builder

#[derive(Clone, Debug)]
struct MsgCfg {
    name: &'static str,
    nsig: usize,
    comp: Option<CompressionAlgorithm>,
    /// 0 none, 1 SEIPDv1, 2 SEIPDv2
    enc: u8,
    reader: bool,
    utf8: bool,
}

fn msg_cfgs() -> Vec<MsgCfg> {
    let c = |name, nsig, comp, enc, reader, utf8| MsgCfg { name, nsig, comp, enc, reader, utf8 };
    vec![
        c("plain-1", 1, None, 0, false, false),
        c("plain-2", 2, None, 0, false, false),
        c("zip-1", 1, Some(CompressionAlgorithm::ZIP), 0, false, false),
        c("seipd1-1", 1, None, 1, false, false),
        c("seipd2-2", 2, None, 2, false, false),
        c("zlib-3", 3, Some(CompressionAlgorithm::ZLIB), 0, false, false),
        c("reader-1", 1, None, 0, true, false),
        c("utf8-1", 1, None, 0, false, true),
        c("reader-seipd2-zip-2", 2, Some(CompressionAlgorithm::ZIP), 2, true, false),
        c("seipd1-zlib-3", 3, Some(CompressionAlgorithm::ZLIB), 1, false, false),
        c("plain-3", 3, None, 0, false, false),
        c("reader-utf8-2", 2, None, 0, true, true),
    ]
}

enum Out {
    Bin(Vec<u8>),
    Arm(String),
}

fn finish<'a, R: Read, E: Encryption>(
    mut b: MessageBuilder<'a, R, E>,
    cfg: &MsgCfg,
    text: bool,
    signers: &[(&'a K, HashAlgorithm)],
    armored: bool,
    rng: &mut ChaCha8Rng,
) -> pgp::errors::Result<Out> {
    if cfg.utf8 {
        b.data_mode(DataMode::Utf8)?;
    }
    if cfg.reader {
        b.partial_chunk_size(512)?;
    }
    if text {
        b.sign_text();
    } else {
        b.sign_binary();
    }
    if let Some(c) = cfg.comp {
        b.compression(c);
    }
    for (k, h) in signers {
        b.sign(&k.sk.primary_key, Password::empty(), *h);
    }
    if armored {
        Ok(Out::Arm(b.to_armored_string(&mut *rng, ArmorOptions::default())?))
    } else {
        Ok(Out::Bin(b.to_vec(&mut *rng)?))
    }
}

fn build_msg<'a>(
    p: &[u8],
    cfg: &MsgCfg,
    text: bool,
    signers: &[(&'a K, HashAlgorithm)],
    armored: bool,
    rng: &mut ChaCha8Rng,
) -> pgp::errors::Result<(Out, Option<PlainSessionKey>)> {
    let mut raw = vec![0u8; if cfg.enc == 2 { 32 } else { 16 }];
    rng.fill_bytes(&mut raw);
    let sess = match cfg.enc {
        1 => Some(PlainSessionKey::V3_4 { sym_alg: SymmetricKeyAlgorithm::AES128, key: RawSessionKey::from(raw.clone()) }),
        2 => Some(PlainSessionKey::V6 { key: RawSessionKey::from(raw.clone()) }),
        _ => None,
    };
    let rk = RawSessionKey::from(raw);
    let out = if cfg.reader {
        let src = SchedReader::new(p.to_vec(), Sched::Cycle(vec![511, 1, 2, 700, 8192]));
        let b = MessageBuilder::from_reader("", src);
        match cfg.enc {
            0 => finish(b, cfg, text, signers, armored, rng)?,
            1 => {
                let mut b = b.seipd_v1(&mut *rng, SymmetricKeyAlgorithm::AES128);
                b.set_session_key(rk)?;
                finish(b, cfg, text, signers, armored, rng)?
            }
            _ => {
                let mut b = b.seipd_v2(&mut *rng, SymmetricKeyAlgorithm::AES256, AeadAlgorithm::Ocb, ChunkSize::default());
                b.set_session_key(rk)?;
                finish(b, cfg, text, signers, armored, rng)?
            }
        }
    } else {
        let b = MessageBuilder::from_bytes("", p.to_vec());
        match cfg.enc {
            0 => finish(b, cfg, text, signers, armored, rng)?,
            1 => {
                let mut b = b.seipd_v1(&mut *rng, SymmetricKeyAlgorithm::AES128);
                b.set_session_key(rk)?;
                finish(b, cfg, text, signers, armored, rng)?
            }
            _ => {
                let mut b = b.seipd_v2(&mut *rng, SymmetricKeyAlgorithm::AES256, AeadAlgorithm::Ocb, ChunkSize::default());
                b.set_session_key(rk)?;
                finish(b, cfg, text, signers, armored, rng)?
            }
        }
    };
    Ok((out, sess))
}

fn open_msg<'a>(out: &'a Out, sess: &Option<PlainSessionKey>) -> Result<Message<'a>, String> {
    let mut m = match out {
        Out::Bin(b) => Message::from_bytes(&b[..]).map_err(|e| format!("from_bytes: {e}"))?,
        Out::Arm(s) => Message::from_string(s).map_err(|e| format!("from_string: {e}"))?.0,
    };
    if m.is_encrypted() {
        let Some(sk) = sess.clone() else {
            return Err("message is encrypted but the builder was not asked to encrypt".into());
        };
        m = m.decrypt_with_session_key(sk).map_err(|e| format!("decrypt: {e}"))?;
    }
    if m.is_compressed() {
        m = m.decompress().map_err(|e| format!("decompress: {e}"))?;
    }
    Ok(m)
}

#[allow(clippy::too_many_arguments)]
fn s5_one(ctx: &mut Ctx, env: &Env, rep: &mut Rep, k: &K, cfg: &MsgCfg, text: bool, armored: bool, rng: &mut ChaCha8Rng, rot: u64) {
    let p = rep.p;
    let s = if text { "S5text" } else { "S5bin" };
    let v = if armored { "V4armor" } else { "V4" };
    let mut cfg = cfg.clone();
    // Utf8 literal mode demands valid UTF-8 with CRLF-only line ends (documented Err otherwise, C14
    // checks that predicate): fall back to Binary literal mode, which is allowed with Text signatures.
    let utf8_ok = std::str::from_utf8(p).is_ok() && p.iter().enumerate().all(|(i, b)| *b != LF || (i > 0 && p[i - 1] == CR));
    if cfg.utf8 && !utf8_ok {
        cfg.utf8 = false;
        ctx.tally("S5.utf8-mode-not-applicable", 1);
    }
    // signers: this key first, then keys of other versions / algorithms
    let mut signers: Vec<(&K, HashAlgorithm)> = vec![(k, rep.hash)];
    for (j, other) in env.keys.iter().enumerate().take(3) {
        if signers.len() >= cfg.nsig {
            break;
        }
        if other.name != k.name {
            signers.push((other, HASHES[(rot as usize + j) % 3]));
        }
    }
    rep.cfg = format!("msg={}{} typ={} out={}", cfg.name, if cfg.utf8 { "(Utf8 literal)" } else { "" }, if text { "text" } else { "binary" }, if armored { "armor" } else { "bytes" });
    ctx.seen("S5.config", format!("{}/{}/{}", cfg.name, if text { "text" } else { "binary" }, if armored { "armor" } else { "bytes" }));
    if cfg.utf8 {
        ctx.tally("S5.utf8-literal-mode", 1);
    }

    let Some((out, sess)) = signed(ctx, rep, s, build_msg(p, &cfg, text, &signers, armored, rng)) else {
        return;
    };
    ctx.evals_add(signers.len() as u64 - 1);

    let Some(mut m) = parsed(ctx, rep, s, v, "parse-error", open_msg(&out, &sess)) else {
        return;
    };
    let Some(data) = parsed(ctx, rep, s, v, "read-error", m.as_data_vec()) else {
        return;
    };
    if data != p {
        ctx.violation(format!("C06/{s}->{v}/data-mismatch/{}", rep.cls), format!("message payload changed; {}", rep.show()), rep.replay(v));
        return;
    }
    // Message::verify checks the first signature: signer 0
    ok(ctx, rep, s, v, m.verify(&signers[0].0.pk.primary_key));
    // every signer must verify at some signature index
    let nsig = match &m {
        Message::Signed { reader, .. } => reader.num_signatures(),
        _ => 0,
    };
    if nsig != signers.len() {
        ctx.violation(
            format!("C06/{s}->{v}/signature-count/{}", rep.cls),
            format!("message carries {nsig} signatures, {} signers were configured; {}", signers.len(), rep.show()),
            rep.replay(v),
        );
    }
    for (i, (sk, _)) in signers.iter().enumerate() {
        let mut found = None;
        let mut last_err = String::new();
        for j in 0..nsig {
            match m.verify_nested_explicit(j, &sk.pk.primary_key) {
                Ok(_) => {
                    found = Some(j);
                    break;
                }
                Err(e) => last_err = e.to_string(),
            }
        }
        if found == Some(i) {
            ctx.tally("S5.signature-index-equals-signer-index", 1);
        }
        ok(ctx, rep, s, v, found.ok_or(format!("verify_nested_explicit: signer {i} ({}) verifies at no index: {last_err}", sk.name)));
    }
    {
        let keys: Vec<&dyn pgp::types::VerifyingKey> = signers.iter().map(|(sk, _)| &sk.pk.primary_key as &dyn pgp::types::VerifyingKey).collect();
        let r = m.verify_nested(&keys).map_err(|e| e.to_string()).and_then(|res| {
            match res.iter().position(|r| !matches!(r, VerificationResult::Valid(_))) {
                None => Ok(()),
                Some(i) => Err(format!("verify_nested: key {i} ({}) -> Invalid", signers[i].0.name)),
            }
        });
        ok(ctx, rep, s, v, r);
    }
    // V7: each signature packet of the message as a detached signature over the payload
    if let Message::Signed { reader, .. } = &m {
        for j in 0..nsig {
            if let Some(sig) = reader.signature(j) {
                let sig = sig.clone();
                let r = signers
                    .iter()
                    .find_map(|(sk, _)| sig.verify(&sk.pk.primary_key, p).ok())
                    .ok_or("message signature packet verifies with no signer key as a detached signature");
                ok(ctx, rep, s, "V7", r);
            }
        }
    }
    drop(m);
    // verify_read on a fresh parse (drains the message itself)
    if let Some(mut m2) = parsed(ctx, rep, s, v, "parse-error", open_msg(&out, &sess)) {
        ok(ctx, rep, s, v, m2.verify_read(&signers[0].0.pk.primary_key).map(|_| ()));
    }
    rep.cfg.clear();
}

fn s5(ctx: &mut Ctx, env: &Env, cfgs: &[MsgCfg], rep: &mut Rep, k: &K, rng: &mut ChaCha8Rng, rot: u64) {
    // base configuration in the four (type, output) combinations over two payload-rotations
    let base = &cfgs[0];
    s5_one(ctx, env, rep, k, base, false, rot % 2 == 1, rng, rot);
    s5_one(ctx, env, rep, k, base, true, rot % 2 == 0, rng, rot);
    // one rotating configuration
    let c = &cfgs[1 + (rot as usize / 4) % (cfgs.len() - 1)];
    s5_one(ctx, env, rep, k, c, rot % 2 == 0, (rot / 2) % 2 == 0, rng, rot);
}

// ------------------------------------------------------------------------------------------
// S6 cleartext framework

/// Trailing SP / TAB of every line removed, line endings left as they are.
fn trim_then_join(text: &str) -> String {
    let mut out = String::new();
    for line in text.split_inclusive('\n') {
        let (content, end) = if let Some(c) = line.strip_suffix("\r\n") {
            (c, "\r\n")
        } else if let Some(c) = line.strip_suffix('\n') {
            (c, "\n")
        } else {
            (line, "")
        };
        out.push_str(content.trim_end_matches([' ', '\t']));
        out.push_str(end);
    }
    out
}

fn v5(ctx: &mut Ctx, rep: &Rep, s: &str, m: &CleartextSignedMessage, keys: &[&K], rot: u64) {
    // cross interface: a cleartext signature is a Text signature over the text with trailing
    // SP / TAB of every line removed (RFC 9580 7.2; the trimmed form comes from the reference) and
    // must verify as a detached signature over that form. Only for sign()/new(): with new_many()
    // the caller's closure decides what is signed.
    if s == "S6" {
        if let Ok(text) = std::str::from_utf8(rep.p) {
            let form = rfc::armor::csf_signed_form(text);
            // Corner left to C16: when the trimmed content of a line ends in CR and the line ends
            // in a bare LF ("\r \n"), "canonicalise then trim" and "trim then canonicalise" give
            // different texts ("\r\r\n" / "\r\n"). Sign and verify side of the library agree with
            // each other there (checked by V5); which form the RFC means is not C06's question.
            if rfc::canon_text(trim_then_join(text).as_bytes()) == form.as_bytes() {
                for sig in m.signatures() {
                    ok(ctx, rep, s, "V1", sig.verify(&keys[0].pk.primary_key, form.as_bytes()));
                }
            } else {
                ctx.tally("S6.V1-skipped(CR blank LF: trim/canonicalise order matters)", 1);
            }
        }
    }
    for k in keys {
        ok(ctx, rep, s, "V5", m.verify(&k.pk.primary_key).map(|_| ()));
    }
    ok(ctx, rep, s, "V5", m.verify_many(|i, sig, data| sig.verify(&keys[i].pk, data)));

    let Some(arm) = parsed(ctx, rep, s, "V5armor", "armor-error", m.to_armored_string(ArmorOptions::default())) else {
        return;
    };
    let r = if rot % 2 == 0 {
        CleartextSignedMessage::from_string(&arm)
    } else {
        CleartextSignedMessage::from_armor(std::io::Cursor::new(arm.as_bytes()))
    };
    let Some((m2, _)) = parsed(ctx, rep, s, "V5armor", "parse-error", r) else {
        return;
    };
    // DESIGN section 5 #11 (open finding of C16): a text ending in a lone CR comes back without
    // that CR. The armored artefact then carries a different text; a rejection that goes with
    // exactly this loss is reported under one fixed signature.
    let lost_cr = rep.p.last() == Some(&CR) && format!("{}\r", m2.text()) == m.text();
    let mut check = |ctx: &mut Ctx, r: Result<(), pgp::errors::Error>| {
        if lost_cr {
            ctx.eval();
            ctx.seen("matrix", format!("{s}->V5armor"));
            match r {
                Ok(()) => ctx.tally("S6.lost-trailing-CR.still-verified", 1),
                Err(e) => {
                    ctx.tally("S6.lost-trailing-CR.rejected", 1);
                    ctx.violation(
                        "C06/S6->V5armor/rejected/trailing-lone-CR",
                        format!("cleartext message ({s}) over a text ending in a lone CR loses the CR in to_armored_string -> from_string and is then rejected: {e}; {}", rep.show()),
                        rep.replay("S6->V5armor"),
                    );
                }
            }
        } else {
            ok(ctx, rep, s, "V5armor", r);
        }
    };
    for k in keys {
        check(ctx, m2.verify(&k.pk.primary_key).map(|_| ()));
    }
    check(ctx, m2.verify_many(|i, sig, data| sig.verify(&keys[i].pk.primary_key, data)));
}

fn s6(ctx: &mut Ctx, env: &Env, rep: &mut Rep, k: &K, text: &str, rng: &mut ChaCha8Rng, rot: u64) {
    let pw = Password::empty();
    // sign(): hash algorithm is the key's default
    rep.cfg = "cleartext sign()".into();
    if let Some(m) = signed(ctx, rep, "S6", CleartextSignedMessage::sign(&mut *rng, text, &k.sk.primary_key, &pw)) {
        v5(ctx, rep, "S6", &m, &[k], rot);
    }
    // new() with an explicit configuration
    rep.cfg = "cleartext new()".into();
    let r = mk_config(env, k, SignatureType::Text, rep.hash, rng, rot).and_then(|c| CleartextSignedMessage::new(text, c, &k.sk.primary_key, &pw));
    if let Some(m) = signed(ctx, rep, "S6", r) {
        v5(ctx, rep, "S6", &m, &[k], rot + 1);
    }
    // new_many(): the signer closure signs the text it is handed, with two keys
    rep.cfg = "cleartext new_many()".into();
    let other = if k.name == env.keys[0].name { &env.keys[1] } else { &env.keys[0] };
    let h2 = HASHES[(rot as usize + 1) % 3];
    let c1 = mk_config(env, k, SignatureType::Text, rep.hash, rng, rot);
    let c2 = mk_config(env, other, SignatureType::Text, h2, rng, rot + 1);
    let r = c1.and_then(|c1| c2.map(|c2| (c1, c2))).and_then(|(c1, c2)| {
        CleartextSignedMessage::new_many(text, |t| {
            Ok(vec![
                c1.sign(&k.sk.primary_key, &pw, t.as_bytes())?,
                c2.sign(&other.sk.primary_key, &pw, t.as_bytes())?,
            ])
        })
    });
    if let Some(m) = signed(ctx, rep, "S6many", r) {
        ctx.eval();
        v5(ctx, rep, "S6many", &m, &[k, other], rot);
    }
    rep.cfg.clear();
}

// ------------------------------------------------------------------------------------------
// one payload x one key through S1..S6

#[allow(clippy::too_many_arguments)]
fn run_payload(ctx: &mut Ctx, env: &Env, cfgs: &[MsgCfg], family: &'static str, p: &[u8], ki: usize, rot: u64, rng: &mut ChaCha8Rng, hooks_on: bool) {
    run_payload_h(ctx, env, cfgs, family, p, ki, rot, rng, hooks_on, None)
}

#[allow(clippy::too_many_arguments)]
fn run_payload_h(ctx: &mut Ctx, env: &Env, cfgs: &[MsgCfg], family: &'static str, p: &[u8], ki: usize, rot: u64, rng: &mut ChaCha8Rng, hooks_on: bool, hash: Option<HashAlgorithm>) {
    let k = &env.keys[ki];
    let mut rep = Rep {
        p,
        cls: class(p),
        key: k.name,
        hash: hash.unwrap_or(HASHES[(rot as usize + ki) % 3]),
        cfg: String::new(),
        family,
        hooks: hooks_on,
    };
    ctx.seen("payload-class", rep.cls);
    ctx.seen("key x hash", format!("{}/{:?}", k.name, rep.hash));
    let replay = json!({"family": family, "payload": hexs(p), "key": k.name, "rot": rot});
    let r = core::guard(|| {
        s1_s4(ctx, env, &rep, k, rng, rot);
        s5(ctx, env, cfgs, &mut rep, k, rng, rot);
        if let Ok(text) = std::str::from_utf8(p) {
            s6(ctx, env, &mut rep, k, text, rng, rot);
        }
    });
    if let Err(pn) = r {
        ctx.violation(format!("C06/sign-verify/panic/{}", pn.short_loc()), format!("panic: {} at {}; payload {:?} key {}", pn.msg, pn.loc, String::from_utf8_lossy(&p[..p.len().min(48)]), k.name), replay);
    }
}

// ------------------------------------------------------------------------------------------
// S7 / V6

fn v6_checks(ctx: &mut Ctx, rep: &Rep, sk: &SignedSecretKey) {
    let s = "S7";
    ok(ctx, rep, s, "V6", sk.verify_bindings());
    let pk = sk.to_public_key();
    ok(ctx, rep, s, "V6", pk.verify_bindings());

    if let Some(arm) = parsed(ctx, rep, s, "V6armor", "armor-error", sk.to_armored_string(ArmorOptions::default())) {
        if let Some((k2, _)) = parsed(ctx, rep, s, "V6armor", "parse-error", SignedSecretKey::from_string(&arm)) {
            ok(ctx, rep, s, "V6armor", k2.verify_bindings());
        }
    }
    if let Some(arm) = parsed(ctx, rep, s, "V6armor", "armor-error", pk.to_armored_string(ArmorOptions::default())) {
        if let Some((k2, _)) = parsed(ctx, rep, s, "V6armor", "parse-error", SignedPublicKey::from_string(&arm)) {
            ok(ctx, rep, s, "V6armor", k2.verify_bindings());
        }
    }
    if let Some(b) = parsed(ctx, rep, s, "V6bytes", "serialize-error", sk.to_bytes()) {
        if let Some(k2) = parsed(ctx, rep, s, "V6bytes", "parse-error", SignedSecretKey::from_bytes(&b[..])) {
            ok(ctx, rep, s, "V6bytes", k2.verify_bindings());
        }
    }
    if let Some(b) = parsed(ctx, rep, s, "V6bytes", "serialize-error", pk.to_bytes()) {
        if let Some(k2) = parsed(ctx, rep, s, "V6bytes", "parse-error", SignedPublicKey::from_bytes(&b[..])) {
            ok(ctx, rep, s, "V6bytes", k2.verify_bindings());
        }
    }
}

fn describe_cert(ctx: &mut Ctx, sk: &SignedSecretKey) {
    if !sk.details.direct_signatures.is_empty() {
        ctx.seen("S7.self-signature-kinds", "direct-key");
    }
    if sk.details.users.iter().any(|u| !u.signatures.is_empty()) {
        ctx.seen("S7.self-signature-kinds", "user-id-certification");
    }
    for sub in &sk.secret_subkeys {
        for sig in &sub.signatures {
            ctx.seen("S7.self-signature-kinds", "subkey-binding");
            if sig.embedded_signature().is_some() {
                ctx.seen("S7.self-signature-kinds", "embedded-primary-key-binding");
            }
        }
    }
}

fn gen_key_with_uids(v6: bool, uids: &[String], rng: &mut ChaCha8Rng) -> Result<SignedSecretKey, String> {
    let ver = if v6 { KeyVersion::V6 } else { KeyVersion::V4 };
    let created = Timestamp::from_secs(1_700_000_000);
    let kt = |sign: bool| {
        if v6 {
            if sign { KeyType::Ed25519 } else { KeyType::X25519 }
        } else if sign {
            KeyType::Ed25519Legacy
        } else {
            KeyType::ECDH(pgp::crypto::ecc_curve::ECCCurve::Curve25519Legacy)
        }
    };
    let mut b = SecretKeyParamsBuilder::default();
    b.version(ver).key_type(kt(true)).can_certify(true).can_sign(true).created_at(created).feature_seipd_v2(v6);
    if let Some(first) = uids.first() {
        b.primary_user_id(first.clone());
        b.user_ids(uids[1..].to_vec());
    }
    let mut subs = vec![];
    let mut sb = SubkeyParamsBuilder::default();
    sb.version(ver).key_type(kt(true)).can_sign(true).created_at(created);
    subs.push(sb.build().map_err(|e| e.to_string())?);
    let mut sb = SubkeyParamsBuilder::default();
    sb.version(ver).key_type(kt(false)).can_encrypt(pgp::composed::EncryptionCaps::All).created_at(created);
    subs.push(sb.build().map_err(|e| e.to_string())?);
    b.subkeys(subs);
    let params = b.build().map_err(|e| e.to_string())?;
    params.generate(rng).map_err(|e| e.to_string())
}

// ------------------------------------------------------------------------------------------
// payload generators

fn nth_abstract(mut idx: u64, len: usize) -> Vec<u8> {
    // 0 = CR, 1 = LF, 2 = x
    let mut s = vec![0u8; len];
    for c in s.iter_mut() {
        *c = (idx % 3) as u8;
        idx /= 3;
    }
    s
}

/// Concrete instantiations of an abstract string over {CR, LF, x}.
fn instantiate(abs: &[u8]) -> Vec<(&'static str, Vec<u8>)> {
    let n = abs.len();
    let line_start = |i: usize| i == 0 || abs[i - 1] == 1;
    // x directly in front of a line end (LF or CR LF) or at the end of the text
    let before_eol = |i: usize| i + 1 == n || abs[i + 1] == 1 || (abs[i + 1] == 0 && i + 2 < n && abs[i + 2] == 1);
    let build = |f: &dyn Fn(usize) -> &'static [u8]| -> Vec<u8> {
        let mut o = Vec::with_capacity(n + 4);
        for (i, a) in abs.iter().enumerate() {
            match a {
                0 => o.push(CR),
                1 => o.push(LF),
                _ => o.extend_from_slice(f(i)),
            }
        }
        o
    };
    let mut out: Vec<(&'static str, Vec<u8>)> = vec![
        ("a", build(&|_| b"a")),
        ("dash-all", build(&|_| b"-")),
        ("dash-line-start", build(&|i| if line_start(i) { b"-" } else { b"a" })),
        ("sp-before-eol", build(&|i| if before_eol(i) { b" " } else { b"a" })),
        ("tab-before-eol", build(&|i| if before_eol(i) { b"\t" } else { b"a" })),
        ("sp-all", build(&|_| b" ")),
        ("sp-tab-mix", build(&|i| if i % 2 == 0 { b"\t" } else { b" " })),
        ("nul", build(&|_| b"\0")),
        ("nul-a", build(&|i| if i % 2 == 0 { b"\0" } else { b"a" })),
        ("e-acute", build(&|_| "\u{e9}".as_bytes())),
        ("dash-sp", build(&|i| if line_start(i) { b"-" } else if before_eol(i) { b" " } else { b"a" })),
        ("non-utf8", build(&|i| if i % 2 == 0 { b"\xff" } else { b"\xc3" })),
    ];
    let mut seen = HashSet::new();
    out.retain(|(_, p)| seen.insert(p.clone()));
    out
}

fn random_payload(rng: &mut ChaCha8Rng, i: u64) -> Vec<u8> {
    let sizes = [600usize, 1500, 8192 + 700, 3 * 8192 + 5, 65536, 0];
    let mut total = sizes[(i % 6) as usize];
    if total == 0 {
        total = rng.gen_range(1..=65536);
    }
    let binary = i % 3 == 2;
    let mut s: Vec<u8> = (0..total)
        .map(|_| {
            if binary {
                match rng.gen_range(0..10) {
                    0 => CR,
                    1 => LF,
                    _ => rng.gen::<u8>(),
                }
            } else {
                match rng.gen_range(0..16) {
                    0 => CR,
                    1 => LF,
                    2 => b' ',
                    3 => b'\t',
                    4 => b'-',
                    5 => 0,
                    _ => b'a' + rng.gen_range(0..26u8),
                }
            }
        })
        .collect();
    for edge in [511usize, 512, 513, 1023, 1024, 1025, 8191, 8192, 8193, 16383, 16384, 65535] {
        if edge >= 1 && edge < s.len() {
            match rng.gen_range(0..5) {
                0 => s[edge] = CR,
                1 => s[edge] = LF,
                2 => {
                    s[edge - 1] = CR;
                    s[edge] = LF
                }
                3 => {
                    s[edge - 1] = b' ';
                    s[edge] = LF
                }
                _ => {}
            }
        }
    }
    // tail: trailing CR / blank / nothing
    match rng.gen_range(0..6) {
        0 => s.push(CR),
        1 => s.push(b' '),
        2 => s.extend_from_slice(b"\r\n"),
        3 => s.extend_from_slice(b"\n-"),
        _ => {}
    }
    s
}

// ------------------------------------------------------------------------------------------

pub fn run(ctx: &mut Ctx) {
    ctx.exhaustive = true;
    let env = Env {
        keys: vec![
            K::new("v4-Ed25519Legacy", &Spec::simple(false, Alg::Ed25519Legacy, Some(Alg::EcdhCv25519))),
            K::new("v6-Ed25519", &Spec::simple(true, Alg::Ed25519, Some(Alg::X25519))),
            K::new("v4-EcdsaP256", &Spec::simple(false, Alg::EcdsaP256, None)),
            K::new("v4-Rsa2048", &Spec::simple(false, Alg::Rsa2048, None)),
        ],
        ts: Timestamp::from_secs(1_700_000_000),
    };
    let cfgs = msg_cfgs();
    ctx.extra.insert("matrix_cells_expected".into(), json!(CELLS.to_vec()));

    // ----------------------------------------------------------------------------------
    // Family X: every string over {CR, LF, x} up to the tier length, each instantiated with the
    // x-patterns; both cheap keys always, P-256 / RSA on a ration.
    let maxlen = ctx.qt(6usize, 8usize);
    let mut gi = 0u64;
    for len in 0..=maxlen {
        let nstr = 3u64.pow(len as u32);
        for si in 0..nstr {
            let g = gi;
            gi += 1;
            if !ctx.mine() {
                continue;
            }
            let abs = nth_abstract(si, len);
            core::describe_case(&format!("X len={len} si={si}"));
            for (vi, (vname, p)) in instantiate(&abs).into_iter().enumerate() {
                ctx.cover(&("X", &p));
                ctx.seen("X.instantiation", vname);
                let rot = g.wrapping_mul(13).wrapping_add(vi as u64);
                // ration of the slow keys: hashed so that it does not line up with the shard
                // assignment (case id mod 16)
                let ration = core::hash64(&("ration-X", g));
                let mut kis = vec![0usize, 1];
                if ration % 8 == 3 || len <= 2 {
                    kis.push(2);
                }
                if (ration >> 8) % 64 == 5 || len <= 1 {
                    kis.push(3);
                }
                for ki in kis {
                    let mut rng = ctx.rng("X", rot * 4 + ki as u64);
                    run_payload(ctx, &env, &cfgs, "X", &p, ki, rot + ki as u64, &mut rng, false);
                }
                if si == nstr / 2 && vi == 3 {
                    ctx.sample(json!({"family": "X", "abstract": format!("{abs:?}"), "variant": vname, "payload": hexs(&p), "class": class(&p)}));
                }
            }
        }
    }

    // ----------------------------------------------------------------------------------
    // Family E: every pattern over {CR, LF, a} of length 1..3 at every alignment across the 512 /
    // 1024 (NormalizedReader window) and 8192 (literal / signed-message reader buffers) edges.
    let mut ei = 0u64;
    for edge in [512usize, 1024, 8192] {
        for len in 1..=3usize {
            for si in 0..3u64.pow(len as u32) {
                let e = ei;
                ei += 1;
                if !ctx.mine() {
                    continue;
                }
                core::describe_case(&format!("E edge={edge} len={len} si={si}"));
                let pat: Vec<u8> = nth_abstract(si, len).iter().map(|a| [CR, LF, b'a'][*a as usize]).collect();
                for shift in 0..=len {
                    let mut p = vec![b'x'; edge - shift];
                    p.extend_from_slice(&pat);
                    if (e + shift as u64) % 2 == 0 {
                        p.extend_from_slice(b"yy");
                    }
                    ctx.cover(&("E", edge, shift, &pat, p.len()));
                    let rot = e * 4 + shift as u64;
                    let ki = (rot % 2) as usize;
                    let mut rng = ctx.rng("E", rot);
                    run_payload(ctx, &env, &cfgs, "E", &p, ki, rot, &mut rng, true);
                }
                if e == 7 {
                    ctx.sample(json!({"family": "E", "edge": edge, "pattern": hexs(&pat), "alignments": len + 1}));
                }
            }
        }
    }

    // ----------------------------------------------------------------------------------
    // Family R: random payloads up to 64 KiB (text-like and arbitrary bytes), CR / LF / blanks
    // forced around the 512 / 1024 / 8192 / 16384 edges.
    let nrand = ctx.qt(192u64, 2400u64);
    for i in 0..nrand {
        if !ctx.mine() {
            continue;
        }
        core::describe_case(&format!("R i={i}"));
        let mut rng = ctx.rng("R", i);
        let p = random_payload(&mut rng, i);
        ctx.cover(&("R", i, p.len()));
        ctx.seen("R.size-bucket", format!("2^{}", (p.len().max(1) as f64).log2().floor() as u32));
        let ration = core::hash64(&("ration-R", i));
        let mut kis = vec![(ration % 2) as usize];
        if (ration >> 4) % 6 == 1 {
            kis.push(2);
        }
        if (ration >> 12) % 24 == 3 {
            kis.push(3);
        }
        for ki in kis {
            run_payload(ctx, &env, &cfgs, "R", &p, ki, i * 7 + ki as u64, &mut rng, true);
        }
        if i < 2 {
            ctx.sample(json!({"family": "R", "i": i, "len": p.len(), "class": class(&p), "head": hexs(&p[..p.len().min(64)])}));
        }
    }

    // ----------------------------------------------------------------------------------
    // Family H: key algorithm x key version x hash algorithm sweep. Every signing algorithm of the zoo in
    // v4 and (where defined) v6, with every hash algorithm the key's primitive accepts (SHA-1 .. SHA3-512,
    // i.e. every v6 salt size), over a small set of canonicalisation-relevant payloads, through all sign and
    // verify interfaces. Many signatures per ECDSA / DSA key also reach the short (leading zero octet) r / s
    // encodings.
    let mut env = env;
    let base_keys = env.keys.len();
    for (name, spec) in [
        ("v6-Rsa2048", Spec::simple(true, Alg::Rsa2048, None)),
        ("v4-EcdsaP384", Spec::simple(false, Alg::EcdsaP384, None)),
        ("v6-EcdsaP384", Spec::simple(true, Alg::EcdsaP384, None)),
        ("v4-EcdsaP521", Spec::simple(false, Alg::EcdsaP521, None)),
        ("v6-EcdsaP256", Spec::simple(true, Alg::EcdsaP256, None)),
        ("v4-EcdsaK256", Spec::simple(false, Alg::EcdsaK256, None)),
        ("v6-Ed448", Spec::simple(true, Alg::Ed448, None)),
        ("v4-Ed25519", Spec::simple(false, Alg::Ed25519, None)),
        ("v4-Dsa2048", Spec::simple(false, Alg::Dsa2048, None)),
    ] {
        env.keys.push(K::new(name, &spec));
    }
    let env = env;
    let all_hashes = [
        HashAlgorithm::Sha1,
        HashAlgorithm::Sha224,
        HashAlgorithm::Sha256,
        HashAlgorithm::Sha384,
        HashAlgorithm::Sha512,
        HashAlgorithm::Sha3_256,
        HashAlgorithm::Sha3_512,
    ];
    let h_payloads: [&[u8]; 6] = [b"", b"a\r", b"x\r\ny \n-z\t", b"\n", b"- dash\r\rline\n\n", b"plain text without line ending"];
    let rounds = ctx.qt(1u64, 6u64);
    for ki in 0..env.keys.len() {
        let k = &env.keys[ki];
        let slow = k.name.contains("Rsa") || k.name.contains("Dsa");
        for (hi, h) in all_hashes.iter().enumerate() {
            // RFC 9580 table 23 defines no v6 salt size for SHA-1: a v6 key cannot sign with it
            if k.v6() && *h == HashAlgorithm::Sha1 {
                continue;
            }
            // hash algorithms the key's primitive refuses by (documented) policy are not part of the sweep
            let probe = vec![0x5Au8; h.digest_size().unwrap_or(32)];
            if pgp::types::SigningKey::sign(&k.sk.primary_key, &Password::empty(), *h, &probe).is_err() {
                ctx.tally("H.hash-refused-by-key-policy", 1);
                continue;
            }
            // ECDSA / DSA keys: enough signatures per key that the short (leading zero octet, 1/256) r and s values
            // occur with near certainty (about 4000 per key and tier)
            let ec = k.name.contains("Ecdsa");
            let rounds_k = if ec { rounds.max(ctx.qt(12u64, 24u64)) } else { rounds };
            for round in 0..rounds_k {
                for (pi, p) in h_payloads.iter().enumerate() {
                    if ki < base_keys && HASHES.contains(h) && round > 0 && !ec {
                        continue;
                    }
                    if slow && (pi + hi + round as usize) % 3 != 0 {
                        continue;
                    }
                    if !ctx.mine() {
                        continue;
                    }
                    core::describe_case(&format!("H key={} hash={h:?} p={pi} round={round}", k.name));
                    ctx.cover(&("H", k.name, hi, pi, round));
                    let rot = (ki * 1000 + hi * 100 + pi * 10) as u64 + round;
                    let mut rng = ctx.rng("H", rot);
                    run_payload_h(ctx, &env, &cfgs, "H", p, ki, rot, &mut rng, false, Some(*h));
                }
            }
        }
    }

    // ----------------------------------------------------------------------------------
    // Family K: certificate self-signatures (S7) through verify_bindings (V6).
    let zoo_specs: Vec<(&'static str, Spec)> = {
        let mut v = vec![];
        let mut s = Spec::simple(false, Alg::Ed25519Legacy, Some(Alg::EcdhCv25519));
        s.sign_sub = Some(Alg::Ed25519Legacy);
        s.uids = 3;
        v.push(("zoo-v4-Ed25519Legacy+sign+enc-u3", s));
        let mut s = Spec::simple(true, Alg::Ed25519, Some(Alg::X25519));
        s.sign_sub = Some(Alg::Ed25519);
        s.uids = 2;
        v.push(("zoo-v6-Ed25519+sign+enc-u2", s));
        let mut s = Spec::simple(true, Alg::Ed25519, None);
        s.uids = 0;
        v.push(("zoo-v6-Ed25519-u0", s));
        let mut s = Spec::simple(false, Alg::EcdsaP256, Some(Alg::EcdhP256));
        s.sign_sub = Some(Alg::EcdsaP256);
        v.push(("zoo-v4-EcdsaP256+sign+enc", s));
        let mut s = Spec::simple(true, Alg::EcdsaP256, Some(Alg::EcdhP256));
        s.sign_sub = Some(Alg::Ed25519);
        v.push(("zoo-v6-EcdsaP256+Ed25519sign+enc", s));
        let mut s = Spec::simple(true, Alg::Ed448, Some(Alg::X448));
        s.sign_sub = Some(Alg::Ed448);
        v.push(("zoo-v6-Ed448+sign+enc", s));
        v.push(("zoo-v4-Rsa2048+Rsa2048", Spec::simple(false, Alg::Rsa2048, Some(Alg::Rsa2048))));
        v.push(("zoo-v6-Rsa2048+Rsa2048", Spec::simple(true, Alg::Rsa2048, Some(Alg::Rsa2048))));
        v
    };
    for (name, spec) in &zoo_specs {
        if !ctx.mine() {
            continue;
        }
        core::describe_case(&format!("K {name}"));
        let rep = Rep { p: name.as_bytes(), cls: "other", key: name, hash: HashAlgorithm::Sha256, cfg: "zoo certificate".into(), family: "K", hooks: false };
        let replay = json!({"family": "K", "key": name});
        let r = core::guard(|| {
            let mut sk = zoo::key(spec, 0);
            ctx.cover(&("K", name));
            describe_cert(ctx, &sk);
            v6_checks(ctx, &rep, &sk);
            // low-level: a direct-key self-signature made with SignatureConfig::sign_key
            let k = K { name, pk: sk.to_public_key(), sk: sk.clone() };
            let mut rng = ctx.rng("K", 0);
            let r = mk_config(&env, &k, SignatureType::Key, HashAlgorithm::Sha512, &mut rng, 1)
                .and_then(|c| c.sign_key(&sk.primary_key, &Password::empty(), &k.pk.primary_key));
            if let Some(sig) = signed(ctx, &rep, "S7", r) {
                ok(ctx, &rep, "S7", "V6", sig.verify_key(&k.pk.primary_key));
                sk.details.direct_signatures.push(sig);
                ctx.seen("S7.self-signature-kinds", "direct-key(sign_key)");
                v6_checks(ctx, &rep, &sk);
            }
            // every other certificate-forming signature type through the low-level configuration: each is
            // verified with its own verify function, then attached to the certificate, which must keep
            // verifying (also after export and re-import)
            let prim_pub = k.pk.primary_key.clone();
            if let Some(uid) = sk.details.users.first().map(|u| u.id.clone()) {
                for typ in [SignatureType::CertGeneric, SignatureType::CertPersona, SignatureType::CertCasual, SignatureType::CertPositive, SignatureType::CertRevocation] {
                    let r = mk_config(&env, &k, typ, HashAlgorithm::Sha512, &mut rng, 1)
                        .and_then(|c| c.sign_certification(&sk.primary_key, &prim_pub, &Password::empty(), pgp::types::Tag::UserId, &uid));
                    if let Some(sig) = signed(ctx, &rep, "S7", r) {
                        ok(ctx, &rep, "S7", "V6", sig.verify_certification(&prim_pub, pgp::types::Tag::UserId, &uid));
                        ctx.seen("S7.self-signature-kinds", format!("certification-{:#04x}(sign_certification)", u8::from(typ)));
                        let mut sk2 = sk.clone();
                        sk2.details.users[0].signatures.push(sig);
                        v6_checks(ctx, &rep, &sk2);
                    }
                }
            }
            {
                let r = mk_config(&env, &k, SignatureType::KeyRevocation, HashAlgorithm::Sha512, &mut rng, 1)
                    .and_then(|c| c.sign_key(&sk.primary_key, &Password::empty(), &prim_pub));
                if let Some(sig) = signed(ctx, &rep, "S7", r) {
                    ok(ctx, &rep, "S7", "V6", sig.verify_key(&prim_pub));
                    ctx.seen("S7.self-signature-kinds", "key-revocation(sign_key)");
                    let mut sk2 = sk.clone();
                    sk2.details.revocation_signatures.push(sig);
                    v6_checks(ctx, &rep, &sk2);
                }
            }
            if let Some(sub) = sk.secret_subkeys.first().cloned() {
                let sub_pub = sub.key.public_key().clone();
                for typ in [SignatureType::SubkeyBinding, SignatureType::SubkeyRevocation] {
                    let r = mk_config(&env, &k, typ, HashAlgorithm::Sha512, &mut rng, 1)
                        .and_then(|c| c.sign_subkey_binding(&sk.primary_key, &prim_pub, &Password::empty(), &sub_pub));
                    if let Some(sig) = signed(ctx, &rep, "S7", r) {
                        ok(ctx, &rep, "S7", "V6", sig.verify_subkey_binding(&prim_pub, &sub_pub));
                        ctx.seen("S7.self-signature-kinds", format!("subkey-{:#04x}(sign_subkey_binding)", u8::from(typ)));
                        // an encryption subkey may carry a second binding / a revocation
                        if !sub.signatures.iter().any(|g| g.key_flags().sign()) {
                            let mut sk2 = sk.clone();
                            sk2.secret_subkeys[0].signatures.push(sig);
                            v6_checks(ctx, &rep, &sk2);
                        }
                    }
                }
            }
        });
        if let Err(pn) = r {
            ctx.violation(format!("C06/S7/panic/{}", pn.short_loc()), format!("panic: {} at {}; key {name}", pn.msg, pn.loc), replay);
        }
    }
    // certificates over hostile user ids
    let nk = ctx.qt(60u64, 600u64);
    for i in 0..nk {
        if !ctx.mine() {
            continue;
        }
        core::describe_case(&format!("K uid i={i}"));
        let mut rng = ctx.rng("Kuid", i);
        // user ids drawn from the payload alphabet (valid UTF-8 only)
        let nuid = 1 + (i % 3) as usize;
        let uids: Vec<String> = (0..nuid)
            .map(|j| {
                let len = rng.gen_range(0..=12usize);
                let alpha = ["\r", "\n", "a", "-", " ", "\t", "\0", "\u{e9}", "\u{2028}", "<", ">", "@"];
                let mut s: String = (0..len).map(|_| alpha[rng.gen_range(0..alpha.len())]).collect();
                s.push_str(&format!("{j}"));
                s
            })
            .collect();
        let v6 = i % 2 == 1;
        let name = "generated-hostile-uids";
        let joined = uids.join("|");
        let rep = Rep { p: joined.as_bytes(), cls: class(joined.as_bytes()), key: name, hash: HashAlgorithm::Sha256, cfg: format!("v6={v6} uids={uids:?}"), family: "K", hooks: false };
        let replay = json!({"family": "K", "i": i, "uids": uids, "v6": v6});
        let r = core::guard(|| match gen_key_with_uids(v6, &uids, &mut rng) {
            Ok(sk) => {
                ctx.cover(&("Kuid", &uids, v6));
                describe_cert(ctx, &sk);
                v6_checks(ctx, &rep, &sk);
            }
            Err(e) => {
                signed::<(), _>(ctx, &rep, "S7", Err(e));
            }
        });
        if let Err(pn) = r {
            ctx.violation(format!("C06/S7/panic/{}", pn.short_loc()), format!("panic: {} at {}; uids {uids:?}", pn.msg, pn.loc), replay);
        }
        if i == 0 {
            ctx.sample(json!({"family": "K", "uids": uids, "v6": v6}));
        }
    }
}
